# C19 dynamic sweep: one recursive consumer x one container kind at a list of depths.
#   janet sweep.janet <consumer> <kind> <depth> [<depth> ...]
# For every depth prints   BEGIN c k d   then   RES c k d ok|err:<message class>   (flushed), so the python side
# knows at which depth a crash happened.  Structures are built by loops (never by recursion) so that only the
# consumer under test recurses.

(def args (dyn :args))
(def consumer (get args 1))
(def kind (get args 2))
(def depths (map scan-number (slice args 3)))

# ---------------------------------------------------------------- builders (iterative)

(defn wrap1 [kind x i]
  (case kind
    "tuple" (tuple x)
    "btuple" (tuple/brackets x)
    "array" (array x)
    "struct" (struct :a x)
    "structkey" (struct x 1)
    "table" (let [t (table)] (put t :a x) t)
    "tablekey" (let [t (table)] (put t x 1) t)
    "mixed" (case (% i 4) 0 (tuple x) 1 (array x) 2 (struct :a x) (let [t (table)] (put t :a x) t))
    "tproto" (let [t (table)] (put t :k i) (if (table? x) (table/setproto t x) (put t :leaf x)) t)
    "sproto" (if (struct? x) (struct/with-proto x :k i) (struct :leaf x))
    "wide" (tuple i x i)
    (error (string "unknown kind " kind))))

(defn build
  "value nested `n` deep of the given kind; leaf is distinct per call so two builds are equal but not identical"
  [kind n &opt leaf]
  (var x (if (nil? leaf) 0 leaf))
  (for i 0 n (set x (wrap1 kind x i)))
  x)

(defn build-cyclic
  "mutable container nested n deep whose innermost element refers back to the outermost one"
  [kind n]
  (def bottom (if (= kind "ctable") @{} @[]))
  (var x bottom)
  (for i 1 n
    (set x (if (= kind "ctable") (let [t (table)] (put t :a x) t) (array x))))
  (if (= kind "ctable") (put bottom :a x) (array/push bottom x))
  x)

(defn value [n &opt leaf]
  (if (or (= kind "carray") (= kind "ctable")) (build-cyclic kind n) (build kind n leaf)))

(defn repeat-str [s n] (string/repeat s n))

# ---------------------------------------------------------------- consumers

(defn as-form-kind
  "source-level open/close for a kind"
  []
  (case kind
    "tuple" ["(" ")"] "btuple" ["[" "]"] "array" ["@[" "]"] "struct" ["{:a " "}"] "table" ["@{:a " "}"]
    "structkey" ["{" " 1}"] "tablekey" ["@{" " 1}"] "mixed" ["[@[{:a @{:a " "}}]]"] "wide" ["(1 " " 1)"]
    ["(" ")"]))

(def sink @"")

(defn unmarshal-image [n]
  # P ++ marshal(x) = marshal(wrap x) for reference-free leaves: derive the per-level prefix from two real images
  (def m1 (marshal (build kind 1)))
  (def m2 (marshal (build kind 2)))
  (def m3 (marshal (build kind 3)))
  (def plen (- (length m2) (length m1)))
  (def p2 (- (length m3) (length m2)))
  (unless (= plen p2) (error "image prefix not regular"))
  (def pre (slice m3 0 plen))
  (def b (buffer/new (+ (* plen n) 8)))
  (for i 0 (- n 1) (buffer/push b pre))
  (buffer/push b m1)
  b)

(defn derive-image
  "mk k -> image of a value nested k deep whose encoding is  H A^k D B^k T ; returns n -> image nested n deep.
  base: the first `base` levels may be encoded differently (first occurrence of a shared funcdef inline, later ones
  as references): the regular part is derived from mk (base+1), (base+2), (base+3)"
  [mk &opt base]
  (default base 0)
  (def m1 (string (mk (+ base 1)))) (def m2 (string (mk (+ base 2)))) (def m3 (string (mk (+ base 3))))
  (def d (- (length m2) (length m1)))
  (unless (= d (- (length m3) (length m2))) (error "image not regular"))
  (var found nil)
  (for p 0 (+ 1 (length m1))
    (for a 0 (+ d 1)
      (def b (- d a))
      (for q p (+ 1 (length m1))
        (unless found
          (def A (string/slice m2 p (+ p a)))
          (def B (string/slice m2 (+ q a) (+ q a b)))
          (when (and (= m2 (string (string/slice m1 0 p) A (string/slice m1 p q) B (string/slice m1 q)))
                     (= m3 (string (string/slice m1 0 p) A A (string/slice m1 p q) B B (string/slice m1 q))))
            (set found [p q A B]))))))
  (unless found (error "no regular split of the image"))
  (def [p q A B] found)
  (fn [n] (string (string/slice m1 0 p) (string/repeat A (- n 1)) (string/slice m1 p q) (string/repeat B (- n 1)) (string/slice m1 q))))

# values nested through abstract types whose marshal hook calls back into the marshaller (janet_marshal_janet):
# the depth travels marshal_one -> marshal_one_abstract -> JanetMarshalContext.flags -> hook -> janet_marshal_janet
# -> marshal_one.  kind "direct": the abstract holds the next abstract; "tuple" / "table": through a container.
(defn abs-wrap [x]
  (case kind "direct" x "tuple" [x] "table" @{:k x} "struct" {:k x} "array" @[x] (error (string "unknown kind " kind))))
(defn abs-unwrap [x]
  (case kind "direct" x "tuple" (in x 0) "table" (in x :k) "struct" (in x :k) "array" (in x 0)))
(defn peg-const-nest [k]
  (var p (peg/compile ~(constant :leaf)))
  (for i 0 k (set p (peg/compile ~(constant ,(abs-wrap p)))))
  p)
(defn chan-item-nest [k]
  (var c (ev/chan 1))
  (ev/give c :leaf)
  (for i 0 k (let [d (ev/chan 1)] (ev/give d (abs-wrap c)) (set c d)))
  c)
# marshal, then unmarshal what was written, then walk back down (by a loop): the copy must have the same depth
(defn marshal-roundtrip [v n step]
  (def img (marshal v))
  (def back (unmarshal img))
  (var x back) (var d 0)
  (while (= (type x) (type v))
    (set x (step x))
    (if (or (indexed? x) (dictionary? x)) (set x (abs-unwrap x)))
    (++ d))
  (unless (and (= d (+ n 1)) (= x :leaf))
    (error (string "HARNESS roundtrip of nested " (type v) " gave nesting " d " leaf " (describe x) ", expected " (+ n 1) " :leaf")))
  nil)

(defn peg-nest [k] (var p (peg/compile "a")) (for i 0 k (set p (peg/compile ~(/ "a" ,p)))) (marshal p))
(defn def-nest [k]
  (var d @{:arity 0 :bytecode @[['ldn 0] ['ret 0]]})
  (for i 0 k (set d @{:arity 0 :bytecode @[['ldn 0] ['ret 0]] :closures @[d]}))
  (marshal (asm d)))

# one builder per recursive edge kind of unmarshal (marsh.c): value of a function environment, constant of a funcdef,
# environment of a fiber's stack frame (+ the fiber's stack values), child of a fiber.  Real values nested 1..4 deep are
# marshalled; the regular per-level byte strings are repeated n times (derive-image), so the images follow whatever the
# marshal format of the tree under test is.
(defn- wrap-env [g] (fn [] g))
(defn env-nest [k] (var f (fn [] nil)) (for i 0 k (set f (wrap-env f))) (marshal f make-image-dict))
(defn const-nest [k] (var f (fn [] 1)) (for i 0 k (set f ((compile ~(fn [] (quote ,f)))))) (marshal f make-image-dict))
# fibers: a chain through fibers cannot be derived like that (back references by running index), so the per-level
# bytes are cut out of the real image of ONE suspended fiber `(fn [] (yield 1))` and patched:
#   LB_FIBER | fflags (LB_INTEGER + 4 bytes) | frame | stackstart | stacktop | maxstack (5 bytes) |
#   frame flags | prevframe | pcdiff | function | [env] | stack slots (one-byte values) | [child] | last value (1 byte)
#   child:     set JANET_FIBER_FLAG_HASCHILD (bit 29) in fflags, insert the next fiber before the last value
#   frame env: frame flags |= JANET_STACKFRAME_HASENV (INT32_MIN), insert an off-stack environment `0 1 <next fiber>`
#              after the function
# The shape assumptions are checked (error = the sweep shows `err:` at depth 1 and checks/C19.py reports a broken tie).
(defn- one-fiber []
  (def f (fiber/new (fn [] (yield 1))))
  (resume f)
  (def img (marshal f make-image-dict))
  (unless (and (= (img 1) 205) (= (img 9) 205) (< (img 6) 128) (< (img 7) 128) (< (img 8) 128) (< (img 14) 128)
               (= (img (- (length img) 1)) 1))
    (error "fiber image does not have the expected layout"))
  (def nslots (- (img 7) 4 (img 6)))
  (defn one-byte? [x] (or (< x 128) (<= 201 x 203)))
  (for i 0 nslots (unless (one-byte? (img (- (length img) 2 i))) (error "fiber image: stack slots are not one-byte values")))
  [img nslots])
(defn fiber-child-image [n]
  (def [img _] (one-fiber))
  (def pre (buffer (slice img 0 (- (length img) 1))))
  (put pre 2 (bor (pre 2) 0x20))
  (def b (buffer/new (* n (length img))))
  (repeat (- n 1) (buffer/push b pre))
  (buffer/push b img)
  (repeat (- n 1) (buffer/push-byte b 1))
  b)
(defn fiber-env-image [n]
  (def [img nslots] (one-fiber))
  (def cut (- (length img) 1 nslots))
  (def fl (img 14))
  (def pre (buffer (slice img 0 14)))
  (buffer/push-byte pre 205 0x80 0 0 fl)           # frame flags | HASENV as a 5-byte integer
  (buffer/push pre (slice img 15 cut))
  (buffer/push-byte pre 0 1)                        # environment: off-stack, 1 value
  (def post (slice img cut))
  (def b (buffer/new (* n (+ 8 (length img)))))
  (repeat (- n 1) (buffer/push b pre))
  (buffer/push b img)
  (repeat (- n 1) (buffer/push b post))
  b)

# PEG combinators: kind is "<special name>#<index>" into harness/C19/pegtemplates.janet
(def here (let [f (dyn :current-file)] (string/slice f 0 (- (length f) (length "sweep.janet")))))
(defn peg-use []
  (def T (dofile (string here "pegtemplates.janet")))
  (def [name idx] (string/split "#" kind))
  (def f (get (get ((T 'uses) :value) name) (scan-number idx)))
  (unless f (error (string "no such peg use " kind)))
  [name f ((T 'sub-ok) :value) ((T 'sub-fail) :value)])

(def consumers
  @{"peg-comb" (fn [n]
                 # recursive grammar whose recursion passes through the combinator; the same level also uses the
                 # combinator 4x with a succeeding and 4x with a failing sub-rule, so that a path that gives back more
                 # depth budget than it took makes the net cost per level negative (the guard then never fires)
                 (def [name f ok fail] (peg-use))
                 (def oks (if (= name "error") [] (seq [_ :range [0 4]] ~(? ,(f ok)))))
                 (def fails (seq [_ :range [0 4]] ~(? ,(f fail))))
                 (def g (peg/compile {:main ~(+ (* "(" ,;oks ,;fails (? ,(f :main)) (? ")")) "")}))
                 (peg/match g (string (repeat-str "(" n) (repeat-str ")" n))) nil)
    "peg-compile-comb" (fn [n]
                         (def [name f ok fail] (peg-use))
                         (var x "a")
                         (for i 0 n (set x (f x)))
                         (peg/compile x) nil)
    # nested counter instances (session 3): n = number of nested instances, each D levels deep.  Before /repo 5f6c2dc
    # every compiler / match / quasiquote form started with a fresh limit, so the native stack use was n x D levels.
    "nest-macro-compile" (fn [n]
                           (def D 900)
                           (defn nest [d inner] (var x inner) (repeat d (set x ~(do ,x))) x)
                           (def env (make-env (curenv)))
                           (put env 'nm @{:macro true :value
                                          (fn nm [k] (if (> k 0)
                                                       (let [r (compile (nest D ~(nm ,(dec k))) env)]
                                                         (if (function? r) 0 (error (r :error))))
                                                       0))})
                           (def r (compile ~(nm ,n) env))
                           (if (function? r) nil (error (r :error))))
    "nest-peg-cmt" (fn [n]
                     (def D 1000)
                     (var G nil) (var level 0)
                     (defn f [& caps] (++ level) (if (< level n) (do (peg/match G "x") true) true))
                     (var x ~(cmt (constant 1) ,f))
                     (repeat D (set x ~(* ,x 0)))
                     (set G (peg/compile x))
                     (peg/match G "x") nil)
    "nest-qq" (fn [n]
                (def D 1000)
                (var x 1)
                (repeat n
                  (var y (tuple 'unquote x))
                  (repeat D (set y (tuple/brackets y)))
                  (set x (tuple 'quasiquote y)))
                (def r (compile x (curenv)))
                (if (function? r) nil (error (r :error))))
    "unmarshal-defs" (fn [n] (unmarshal ((derive-image def-nest) n)) nil)
    "marshal-abstract-peg" (fn [n] (marshal-roundtrip (peg-const-nest n) n (fn [p] (in (peg/match p "") 0))))
    "marshal-abstract-chan" (fn [n] (marshal-roundtrip (chan-item-nest n) n ev/take))
    "unmarshal-abstract" (fn [n] (unmarshal ((derive-image peg-nest) n)) nil)
    "unmarshal-env" (fn [n] (unmarshal ((derive-image env-nest 1) n) load-image-dict) nil)
    "unmarshal-constants" (fn [n] (unmarshal ((derive-image const-nest 1) n) load-image-dict) nil)
    "unmarshal-fiber-env" (fn [n] (def r (unmarshal (fiber-env-image n) load-image-dict))
                            (unless (fiber? r) (error "crafted image did not give a fiber")) nil)
    "unmarshal-fiber-child" (fn [n] (def r (unmarshal (fiber-child-image n) load-image-dict))
                              (unless (fiber? r) (error "crafted image did not give a fiber")) nil)
    "compile-destructure-head" (fn [n]
                                 (def pat (build "btuple" n 'x))
                                 (def val (build "btuple" n 1))
                                 (def r (compile (tuple 'do (tuple 'def pat val) 1) (curenv)))
                                 (if (function? r) nil (error (r :error))))
    "parse" (fn [n]
              (def [o c] (as-form-kind))
              (def src (string (repeat-str o n) "1" (repeat-str c n)))
              (def p (parser/new))
              (parser/consume p src)
              (parser/eof p)
              (if (= :error (parser/status p)) (error (parser/error p)))
              (parser/produce p)
              nil)
    "parse-quote" (fn [n]
                    (def src (string (repeat-str (case kind "tuple" "'" "btuple" "~" "array" "," "struct" ";" "|") n) "x" ))
                    (def p (parser/new))
                    (parser/consume p src)
                    (parser/eof p)
                    (if (= :error (parser/status p)) (error (parser/error p)))
                    nil)
    "parse-all" (fn [n]
                  (def [o c] (as-form-kind))
                  (parse-all (string (repeat-str o n) "1" (repeat-str c n)))
                  nil)
    "compare" (fn [n] (def a (value n 1)) (def b (value n 2)) (compare a b) nil)
    "less" (fn [n] (def a (value n 1)) (def b (value n 2)) (< a b) nil)
    "equal" (fn [n] (def a (value n 1)) (def b (value n 1)) (= a b) nil)
    "notequal" (fn [n] (def a (value n 1)) (def b (value n 2)) (not= a b) nil)
    "deep-eq" (fn [n] (def a (value n 1)) (def b (value n 1)) (deep= a b) nil)
    "hash" (fn [n] (hash (value n)) nil)
    "table-key" (fn [n] (def t @{}) (put t (value n 1) 1) (get t (value n 1)) nil)
    "describe" (fn [n] (describe (value n)) nil)
    "string" (fn [n] (string (value n)) nil)
    "fmt-j" (fn [n] (buffer/clear sink) (buffer/format sink "%j" (value n)) nil)
    "fmt-p" (fn [n] (buffer/clear sink) (buffer/format sink "%p" (value n)) nil)
    "fmt-P" (fn [n] (buffer/clear sink) (buffer/format sink "%P" (value n)) nil)
    "fmt-q" (fn [n] (buffer/clear sink) (buffer/format sink "%q" (value n)) nil)
    "fmt-m" (fn [n] (buffer/clear sink) (buffer/format sink "%m" (value n)) nil)
    "fmt-v" (fn [n] (buffer/clear sink) (buffer/format sink "%v" (value n)) nil)
    "pp" (fn [n] (buffer/clear sink) (setdyn :pretty-format "%.99m") (with-dyns [:out sink] (pp (value n))) nil)
    "pp-depth" (fn [n] (buffer/clear sink) (buffer/format sink (string "%." (min n 99) "q") (value n)) nil)
    "marshal" (fn [n] (marshal (value n)) nil)
    "unmarshal" (fn [n] (unmarshal (unmarshal-image n)) nil)
    "freeze" (fn [n] (freeze (value n)) nil)
    "thaw" (fn [n] (thaw (value n)) nil)
    "gc" (fn [n] (def v (value n)) (gccollect) (gccollect) (length (describe v)) nil)
    "gc-closures" (fn [n]
                    # chain of closures: each captures the previous one
                    (var f (fn [] 0))
                    (for i 0 n (let [g f] (set f (fn [] (g)))))
                    (gccollect) (type f) nil)
    "gc-fibers" (fn [n]
                  # chain of suspended fibers: the frame function of each is a closure whose environment lives on
                  # the stack of the previous fiber
                  (defn A [] (var y 0) (yield (fn g [] (set y 1) (A) nil)))
                  (var f (fiber/new A))
                  (var g (resume f))
                  (for i 0 n (set f (fiber/new g)) (set g (resume f)))
                  (gccollect) (type g) nil)
    "gc-fiber-children" (fn [n]
                          # fiber -> child -> child ... (nested resume is limited by the C stack guard; build by values)
                          (var f (fiber/new (fn [] (yield 1))))
                          (for i 0 n (let [inner f] (set f (fiber/new (fn [] (yield inner))))) (resume f))
                          (gccollect) (type f) nil)
    "peg-compile" (fn [n]
                    (def g (build (if (= kind "struct") "struct" "tuple") 0))
                    (var x "a")
                    (for i 0 n (set x (case kind
                                        "tuple" (tuple '* x)
                                        "btuple" (tuple '+ x "b")
                                        "array" (tuple 'any x)
                                        "struct" (struct :main x)
                                        "table" (tuple 'capture x)
                                        "wide" (tuple 'between 0 2 x)
                                        "mixed" (case (% i 3) 0 (tuple 'some x) 1 (tuple 'group x) (tuple 'if-not "z" x))
                                        (tuple '* x))))
                    (peg/compile x) nil)
    "peg-match" (fn [n]
                  (def pat (peg/compile (case kind
                                          "tuple" ~{:main (+ (* "(" :main ")") "")}
                                          "btuple" ~{:main (* "(" (any :main) ")")}
                                          "array" ~{:main (+ (* "(" (group :main) ")") "")}
                                          "struct" ~{:a (* "(" :b) :b (+ :a "") :main :a}
                                          ~{:main (+ (* "(" :main ")") "")})))
                  (peg/match pat (string (repeat-str "(" n) (repeat-str ")" n))) nil)
    "macex" (fn [n]
              # n nested macro invocations ...
              (put (curenv) 'idm @{:value (fn [x] x) :macro true})
              (var x 1)
              (for i 0 n (set x (tuple 'idm x)))
              (def env (curenv))
              (def r (compile x env))
              (if (function? r) nil (error (r :error))))
    "macex-chain" (fn [n]
                    # ... and one macro that expands n times in a row at the same position
                    (put (curenv) 'cm @{:value (fn [k] (if (= k 0) 0 (tuple 'cm (- k 1)))) :macro true})
                    (def r (compile (tuple 'cm n) (curenv)))
                    (if (function? r) nil (error (r :error))))
    "macex1" (fn [n]
               (var x 1)
               (for i 0 n (set x (tuple 'when true x)))
               (macex x) nil)
    "compile" (fn [n]
                (var x 1)
                (for i 0 n (set x (case kind
                                    "tuple" (tuple 'do x)
                                    "btuple" (tuple/brackets x)
                                    "array" (array x)
                                    "struct" (struct :a x)
                                    "structkey" (struct x 1)
                                    "table" (let [t (table)] (put t :a x) t)
                                    "tablekey" (let [t (table)] (put t x 1) t)
                                    "wide" (tuple '+ 1 x 1)
                                    "mixed" (case (% i 8) 0 (tuple 'if x 1 2) 1 (tuple 'fn [] x) 2 (tuple 'while false x)
                                              3 (tuple 'var 'v x) 4 (tuple 'upscope x) 5 (tuple 'quote x) 6 (tuple 'break x)
                                              (tuple 'set 'q x))
                                    "tproto" (tuple 'fn [] x)
                                    "sproto" (tuple 'if true x)
                                    (tuple 'do x))))
                (def r (compile x (curenv)))
                (if (function? r) nil (error (r :error))))
    "compile-qq" (fn [n]
                   (def r (compile (tuple 'quasiquote (value n)) (curenv)))
                   (if (function? r) nil (error (r :error))))
    "compile-qq-nest" (fn [n]
                        (var x 1)
                        (for i 0 n (set x (tuple (if (even? i) 'quasiquote 'unquote) x)))
                        (def r (compile (tuple 'quasiquote x) (curenv)))
                        (if (function? r) nil (error (r :error))))
    "compile-destructure" (fn [n]
                            (def pat (build (case kind "tuple" "btuple" "btuple" "btuple" "array" "array" "struct" "struct"
                                              "table" "table" "mixed" "mixed" "wide" "btuple" "btuple") n 'x))
                            (def r (compile (tuple 'fn [] (tuple 'def pat nil) 1) (curenv)))
                            (if (function? r) nil (error (r :error))))
    "compile-destructure-var" (fn [n]
                                (def pat (build "btuple" n 'x))
                                (def r (compile (tuple 'fn [] (tuple 'var pat nil) 1) (curenv)))
                                (if (function? r) nil (error (r :error))))
    "compile-destructure-param" (fn [n]
                                  (def pat (build "btuple" n 'x))
                                  (def r (compile (tuple 'fn pat 1) (curenv)))
                                  (if (function? r) nil (error (r :error))))
    "eval-string" (fn [n]
                    (def [o c] (as-form-kind))
                    (eval-string (string "'" (repeat-str o n) "1" (repeat-str c n))) nil)
    "call" (fn [n]
             (defn f [k] (if (= k 0) 0 (+ 1 (f (- k 1)))))
             (f n) nil)
    "call-mutual" (fn [n]
                    (var g nil)
                    (defn f [k] (if (= k 0) 0 (+ 1 (g (- k 1)))))
                    (set g (fn [k] (if (= k 0) 0 (+ 1 (f (- k 1))))))
                    (f n) nil)
    "call-fiber" (fn [n]
                   # every level resumes a new fiber: nested janet_continue on the C stack
                   (defn f [k] (if (= k 0) 0 (+ 1 (resume (fiber/new (fn [] (f (- k 1))))))))
                   (f n) nil)
    "call-cfun" (fn [n]
                  # re-entry through a C function that calls back into janet (janet_call)
                  (defn f [k] (if (= k 0) "0" (string/replace "a" (fn [&] (f (- k 1))) "a")))
                  (f n) nil)
    "call-method" (fn [n]
                    # re-entry through a method call on a table used as a number (janet_binop_call)
                    (def proto @{})
                    (defn f [k] (if (= k 0) 0 (+ (table/setproto @{:k k} proto) 1)))
                    (put proto :+ (fn [self other] (f (- (self :k) 1))))
                    (f n) nil)
    "call-gen" (fn [n]
                 (defn f [k] (if (= k 0) 0 (+ 1 (next (fiber/new (fn [] (yield (f (- k 1)))))) )))
                 (f n) nil)
    "call-apply" (fn [n]
                   (defn f [k] (if (= k 0) 0 (+ 1 (apply f [(- k 1)]))))
                   (f n) nil)
    "asm" (fn [n]
            (var d @{:arity 0 :bytecode @[['ldn 0] ['ret 0]]})
            (for i 0 n (set d @{:arity 0 :bytecode @[['ldn 0] ['ret 0]] :closures @[d]}))
            (asm d) nil)
    "asm-env" (fn [n]
                (def outer (symbol "f" (- n 1)))
                (var d @{:arity 0 :name 'leaf :bytecode @[['ldu 0 outer 0] ['ret 0]]})
                (for i 0 n (set d @{:arity 0 :name (symbol "f" i) :bytecode @[['ldn 0] ['ret 0]] :closures @[d]}))
                (asm d) nil)
    "asm-type" (fn [n]
                 (def ty (build "tuple" n :number))
                 (asm @{:arity 1 :bytecode @[['tchck 0 ty] ['ret 0]]}) nil)
    "disasm" (fn [n]
               # deepest nest of funcdefs that the compiler accepts, then disasm; plus image route below
               (var x 1)
               (for i 0 n (set x (tuple 'fn [] x)))
               (def r (compile x (curenv)))
               (if (function? r) (do (disasm r) nil) (error (r :error))))
    "asm-disasm" (fn [n]
                   (var d @{:arity 0 :bytecode @[['ldn 0] ['ret 0]]})
                   (for i 0 n (set d @{:arity 0 :bytecode @[['ldn 0] ['ret 0]] :closures @[d]}))
                   (def f (asm d))
                   (disasm f) (gccollect) (marshal f) nil)
    "ffi-struct" (fn [n]
                   (def t (build "btuple" n :int))
                   (ffi/struct t) nil)
    "ffi-struct-chain" (fn [n]
                         (var s (ffi/struct :int))
                         (for i 0 n (set s (ffi/struct s)))
                         (def buf (buffer/new-filled 64 0))
                         (ffi/read s buf) nil)
    "ffi-write-chain" (fn [n]
                        (var s (ffi/struct :int))
                        (var v [1])
                        (for i 0 n (set s (ffi/struct s)) (set v [v]))
                        (ffi/write s v) nil)
    "ffi-sig-chain" (fn [n]
                      (var s (ffi/struct :int))
                      (for i 0 n (set s (ffi/struct s)))
                      (ffi/signature :default :void s) nil)
    "tail" (fn [n]
             # tail calls: fiber stack limited to a few frames; must complete at any depth
             (defn lp [k acc] (if (= k 0) acc (lp (- k 1) (+ acc 1))))
             (def f (fiber/new (fn [] (lp n 0))))
             (fiber/setmaxstack f 256)
             (def r (resume f))
             (unless (= r n) (error (string "tail loop returned " r)))
             nil)
    "tail-mutual" (fn [n]
                    (var od nil)
                    (defn ev [k] (if (= k 0) (length (debug/stack (fiber/current))) (od (- k 1))))
                    (set od (fn [k] (if (= k 0) (length (debug/stack (fiber/current))) (ev (- k 1)))))
                    (def f (fiber/new (fn [] (ev n))))
                    (fiber/setmaxstack f 256)
                    (def frames (resume f))
                    (def f0 (fiber/new (fn [] (ev 0))))
                    (def frames0 (resume f0))
                    (unless (= frames frames0) (error (string "frames grew with tail depth: " frames0 " -> " frames)))
                    nil)
    "tail-apply" (fn [n]
                   (defn lp [k & rest] (if (= k 0) (length rest) (apply lp (- k 1) rest)))
                   (def f (fiber/new (fn [] (lp n 1 2 3))))
                   (fiber/setmaxstack f 256)
                   (unless (= 3 (resume f)) (error "bad result"))
                   nil)
    "tail-varargs" (fn [n]
                     # tail call into functions with different slot counts (frame is resized, not pushed)
                     (var b nil)
                     (defn a [k x] (if (= k 0) x (b (- k 1) x 1 2 3 4 5 6 7 8)))
                     (set b (fn [k x & more] (def t [;more k]) (if (= k 0) x (a (- k 1) (+ x (length t))))))
                     (def f (fiber/new (fn [] (a n 0))))
                     (fiber/setmaxstack f 256)
                     (resume f)
                     nil)})

(defn classify [e]
  (def s0 (if (bytes? e) (string e) (string/format "%.60v" e)))
  (def s (string ;(peg/match ~(any (+ (/ (* "0x" :h+) "0x?") (<- 1))) s0)))
  (cond
    (string/has-prefix? "HARNESS" s) (string/replace-all " " "_" s)
    (string/find "stack overflow" s) "stack-overflow"
    (string/find "recursed too deeply" s) "recursed-too-deeply"
    (string/find "recursion" s) "recursion-limit"
    (string/find "too deep" s) "too-deep"
    (string/find "nest" s) "nesting"
    (string/find "depth" s) "depth"
    (string/slice s 0 (min 60 (length s)))))

(def f (get consumers consumer))
(unless f (eprint "unknown consumer " consumer) (os/exit 3))
# after the first catchable error only the largest depth is still run: between the guard depth and 10^6 the same
# guard fires at the same C depth (the neighbourhood of the guard depth is bisected separately by the driver)
(def cyclic? (or (= kind "carray") (= kind "ctable")))
(var seen-err false)
(each n depths
  (unless (and seen-err (not= n (last depths)))
    (print "BEGIN " consumer " " kind " " n)
    (flush)
    (def res
      (try
        (if cyclic?
          # self-referential input: janet-level walkers (freeze, thaw, deep=) recurse for ever; the interpreter bounds
          # that by the fiber's maxstack (default 2^31-1 slots = 16 GiB of heap - more than this machine has), so the
          # consumer runs in a fiber limited to 2^22 slots and must end in a catchable "stack overflow"
          (let [fb (fiber/new (fn [] (f n) "ok") :e)]
            (fiber/setmaxstack fb 4194304)
            (def r (resume fb))
            (if (= (fiber/status fb) :error) (error r) r))
          (do (f n) "ok"))
        ([e fib] (string "err:" (classify e)))))
    (when (string/has-prefix? "err:" res) (set seen-err true))
    (print "RES " consumer " " kind " " n " " res)
    (flush)))
