# run by harness/C19/pegdepth.c : every use form x every sub-rule outcome x a few texts; prints
#   DRIFT <name> <index> <drift> <grammar %j> <text %j>      for a non-zero drift of the depth counter
#   SUMMARY <matches run> <errors> <drifts>
(def here (let [f (dyn :current-file)] (string/slice f 0 (- (length f) (length "pegdrift.janet")))))
(def T (dofile (string here "pegtemplates.janet")))
(defn tv [k] ((T k) :value))
(def texts ["" "(" "((1,2))" "x" "1" "(()" ",,"])
(var n 0) (var errs 0) (var drifts 0)
(each [name i f] ((tv 'all-uses))
  (each s [(tv 'sub-ok) (tv 'sub-fail) (tv 'sub-consume) ~(+ "(" 1) ~(* "(" (! 0))]
    (def form (f s))
    # the use on its own, and the same use where a failing use is tolerated / a succeeding one is followed by more
    (each g [form ~(* (? ,form) (? ,form)) ~(+ (* ,form (! 0)) 0)]
      (each text texts
        (++ n)
        (def r (protect (verif/peg-depth g text)))
        (if (r 0)
          (let [[m d] (r 1)]
            (unless (= d 0)
              (++ drifts)
              (printf "DRIFT %s %d %d %j %j" name i d g text)))
          (++ errs))))))
(printf "SUMMARY %d %d %d" n errs drifts)
