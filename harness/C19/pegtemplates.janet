# C19: for every PEG special that takes a sub-rule, the ways a sub-rule S can be placed in it.
# `uses` maps the special's name (as in peg_specials[] of peg.c) to functions S -> form; `leaf` lists the specials
# that take no sub-rule.  checks/C19.py compares the union of both with the names extracted from the current peg.c: a
# special that is in neither list is reported (broken tie), so a new combinator cannot go unswept.
(def cb (fn [& xs] true))
(def uses
  {"!" [(fn [s] ~(! ,s))]
   "not" [(fn [s] ~(not ,s))]
   "%" [(fn [s] ~(% ,s))]
   "accumulate" [(fn [s] ~(accumulate ,s))]
   "*" [(fn [s] ~(* ,s)) (fn [s] ~(* ,s 0)) (fn [s] ~(* 0 ,s)) (fn [s] ~(* 0 ,s 0))]
   "sequence" [(fn [s] ~(sequence ,s 0)) (fn [s] ~(sequence 0 ,s))]
   "+" [(fn [s] ~(+ ,s)) (fn [s] ~(+ ,s 0)) (fn [s] ~(+ (! 0) ,s)) (fn [s] ~(+ (! 0) ,s 0))]
   "choice" [(fn [s] ~(choice ,s 0)) (fn [s] ~(choice (! 0) ,s))]
   "/" [(fn [s] ~(/ ,s 1))]
   "replace" [(fn [s] ~(replace ,s 1))]
   "<-" [(fn [s] ~(<- ,s))]
   "capture" [(fn [s] ~(capture ,s))]
   "quote" [(fn [s] ~(quote ,s))]
   ">" [(fn [s] ~(> 0 ,s))]
   "look" [(fn [s] ~(look 0 ,s))]
   "?" [(fn [s] ~(? ,s))]
   "opt" [(fn [s] ~(opt ,s))]
   "any" [(fn [s] ~(any ,s))]
   "some" [(fn [s] ~(some ,s))]
   "at-least" [(fn [s] ~(at-least 0 ,s)) (fn [s] ~(at-least 1 ,s))]
   "at-most" [(fn [s] ~(at-most 2 ,s))]
   "between" [(fn [s] ~(between 0 2 ,s)) (fn [s] ~(between 1 2 ,s))]
   "repeat" [(fn [s] ~(repeat 1 ,s)) (fn [s] ~(repeat 2 ,s))]
   "cmt" [(fn [s] ~(cmt ,s ,cb))]
   "drop" [(fn [s] ~(drop ,s))]
   "error" [(fn [s] ~(error ,s))]
   "group" [(fn [s] ~(group ,s))]
   "if" [(fn [s] ~(if ,s 0)) (fn [s] ~(if 0 ,s)) (fn [s] ~(if ,s (! 0)))]
   "if-not" [(fn [s] ~(if-not ,s 0)) (fn [s] ~(if-not (! 0) ,s)) (fn [s] ~(if-not ,s (! 0)))]
   "lenprefix" [(fn [s] ~(lenprefix (/ ,s 1) 0)) (fn [s] ~(lenprefix (constant 1) ,s)) (fn [s] ~(lenprefix (constant 2) ,s))]
   "nth" [(fn [s] ~(nth 0 (* (constant 1) ,s)))]
   "number" [(fn [s] ~(number ,s)) (fn [s] ~(number (* ,s "1")))]
   "only-tags" [(fn [s] ~(only-tags ,s))]
   "split" [(fn [s] ~(split "," ,s)) (fn [s] ~(split ,s 0)) (fn [s] ~(split ,s 1))]
   "sub" [(fn [s] ~(sub ,s 0)) (fn [s] ~(sub 1 ,s)) (fn [s] ~(sub 0 ,s))]
   "thru" [(fn [s] ~(thru ,s))]
   "to" [(fn [s] ~(to ,s))]
   "til" [(fn [s] ~(til ,s 0)) (fn [s] ~(til "x" ,s)) (fn [s] ~(til ,s 1))]
   "unref" [(fn [s] ~(unref ,s))]})

(def leaf ["$" "position" "->" "backref" "argument" "backmatch" "column" "constant" "int" "int-be" "line" "range" "set"
           "uint" "uint-be"])

(defn all-uses
  "sorted list of [name index fn]"
  []
  (def out @[])
  (each name (sort (keys uses))
    (eachp [i f] (uses name) (array/push out [name i f])))
  out)

# sub-rules used to drive each position through its success and its failure path
(def sub-ok 0)
(def sub-fail '(! 0))
(def sub-consume "(")
