"""Case generator for the C15 route-equivalence harness (harness/C15/routes.janet).

A case = (function name, shared?, [operand constructor expression (janet source)]).  Operands are built fresh for every
route unless `shared` (comparators / cmp compare reference types by identity; their operands are immutable here).
Everything is derived from the rng handed in (ctx.rng fork), so a case index replays exactly."""

# ---------------------------------------------------------------- operand pools (janet source text)
IMM_EDGE = ["0", "1", "-1", "2", "3", "7", "-7", "126", "127", "128", "129", "-127", "-128", "-129", "-130", "255", "256", "1000"]
INT32 = ["2147483647", "-2147483648", "65536", "-65536", "12345678"]
FLOATS = ["0.5", "-2.5", "1e308", "1e-308", "NEGZ", "math/inf", "NINF", "math/nan", "4294967296", "2147483648", "-2147483649", "1e100"]
NUM = IMM_EDGE + INT32 + FLOATS
S64 = ["(int/s64 5)", "(int/s64 -7)", "(int/s64 0)", "(int/s64 127)", '(int/s64 "9223372036854775807")', "(int/s64 1)"]
U64 = ["(int/u64 5)", "(int/u64 0)", "(int/u64 128)", '(int/u64 "18446744073709551615")', "(int/u64 1)"]
TABS = ["(mk-tab 1)", "(mk-tab 2)", '(mk-tab 3 ["+" "-" "*" "/" "<<"])', '(mk-tab 4 ["r+" "r-" "r*" "r/" "rdiv" "rmod" "r%" "r&" "r|" "r^" "r<<" "r>>" "r>>>"])',
        '(mk-tab 5 ["*" "r-" "~"])', "@{}"]
OTHER = ["nil", '"str"', ":kw", "true", "false", "@[1 2]", "[1 2]", "{:a 1}", '@"buf"', "'sym"]
CROSS = NUM + S64 + U64 + TABS + OTHER

SHIFT_L = ["0", "1", "2", "3", "5", "100", "1000"]
SHIFT_N = ["0", "1", "2", "3"]
SHIFT_X = ["(int/s64 1)", "(int/s64 2)", "(int/u64 3)", "(mk-tab 1)", "(mk-tab 2)", '(mk-tab 4 ["r<<" "r>>" "r>>>"])', "nil", '"str"', ":kw"]
BITS = ["0", "1", "-1", "2", "255", "-128", "127", "128", "-129", "65535", "2147483647", "-2147483648", "2147483648", "4294967295", "1.5",
        "math/nan", "math/inf", "1e100"]
U32 = ["0", "1", "255", "2147483647", "2147483648", "4294967295", "4294967296", "-1", "1.5"]

DS = ["@[10 20 30]", "[10 20 30]", "@{:a 1 :b 2}", "{:a 1 :b 2}", '"hello"', '@"hello"', "nil", "5", ":kw", "'sym", "@[]", "[]", "@{}", "{}", '""',
      "(mk-tab 1)", "@{0 :zero 1 :one}", "(table/setproto @{:own 1} @{:a :proto})", "(int/s64 5)",
      # stored values that are falsy but not nil / nil-valued entries (a lookup with a default must keep `false`)
      "@{:a false :b 2}", "{:a false :b 2}", "@[false 20 nil]", "[false nil 30]", "(table/setproto @{:own false} @{:a false})"]
# keys known to be present in a data structure of DS (so that a random key is not almost always a miss)
DS_KEYS = {"@[10 20 30]": ["0", "1", "2"], "[10 20 30]": ["0", "2"], "@{:a 1 :b 2}": [":a", ":b"], "{:a 1 :b 2}": [":a", ":b"], '"hello"': ["0", "1"],
           '@"hello"': ["0", "3"], "@{0 :zero 1 :one}": ["0", "1"], "(table/setproto @{:own 1} @{:a :proto})": [":own", ":a"],
           "@{:a false :b 2}": [":a", ":b"], "{:a false :b 2}": [":a", ":b"], "@[false 20 nil]": ["0", "1", "2"], "[false nil 30]": ["0", "1", "2"],
           "(table/setproto @{:own false} @{:a false})": [":own", ":a"]}
KEYS = ["0", "1", "2", "3", "-1", "100", ":a", ":b", ":zz", "nil", '"x"', "1.5", "math/nan", "true", "2147483648", "[1 2]", ":own", "127", "128", "-129"]
VALS = ["1", "nil", "65", "300", ":v", '"s"', "-1", "1.5", "@[1]", "false"]
FIBERS = ["(fiber/new (fn [&opt x] (def y (yield [:y x])) [:ret x y]) :y)",
          "(let [f (fiber/new (fn [] 1))] (resume f) f)",
          '(fiber/new (fn [&opt x] (error "in-fib")) :e)',
          '(fiber/new (fn [&opt x] (error "in-fib")))',
          "(let [f (fiber/new (fn [] (yield 1) (yield 2) 3) :y)] (resume f) f)",
          '(let [f (fiber/new (fn [] (error "e1")) :e)] (resume f) f)',
          '(let [f (fiber/new (fn [] (error :e2)) :a)] (resume f) f)',
          "(fiber/new (fn [&opt x] (debug x) :after-debug) :d)",
          "(fiber/new (fn [&opt x] x))",
          "5", "nil", "@{}"]
FUNS = ["tuple", "+", "-", "(fn [& xs] (length xs))", "array", "<", '"string"', "nil", ":kw", "@{:a 1}", "(fn [a b] [b a])", "not=", "length", "apply"]
LASTS = ["[1 2]", "@[3]", "[]", "@[1 2 3 4 5 6 7]", "[nil]", "5", "nil", '"ab"', "{:a 1}", "[(mk-tab 1) 2]", "[0]"]

ARITH = ["+", "-", "*", "/", "div", "mod", "%"]
BIT = ["band", "bor", "bxor"]
SHIFT = ["blshift", "brshift", "brushift"]
CMP = ["<", ">", "<=", ">=", "=", "not="]
FUNCS = ARITH + BIT + SHIFT + ["bnot"] + CMP + ["get", "in", "put", "length", "next", "cmp", "apply", "resume", "yield", "error", "propagate",
                                               "cancel", "debug"]
SHARED = set(CMP + ["cmp"])


def pick(rng, pool):
    return pool[rng.below(len(pool))]


def operand(rng, f, i, n):
    """constructor expression for operand i of an n-ary call of f"""
    if f in ARITH:
        r = rng.below(100)
        if r < 45:
            return pick(rng, IMM_EDGE)
        if r < 60:
            return pick(rng, INT32 + FLOATS)
        if r < 70:
            return pick(rng, S64 if rng.chance(2, 3) else U64)
        if r < 85:
            return pick(rng, TABS)
        return pick(rng, CROSS)
    if f in BIT:
        r = rng.below(100)
        if r < 60:
            return pick(rng, BITS)
        if r < 75:
            return pick(rng, S64[:4] + U64[:3])
        if r < 88:
            return pick(rng, TABS)
        return pick(rng, OTHER + IMM_EDGE)
    if f in SHIFT:
        # counts outside 0..31 / negative or overflowing left operands are C undefined behaviour in the VM (UBSan aborts);
        # that is C14's subject, so they are kept out of this generator
        if n == 1:
            return pick(rng, SHIFT_N) if rng.chance(3, 4) else pick(rng, SHIFT_X)   # unary form is (1 op x): x is the count
        if i == 0:
            base = {"blshift": SHIFT_L, "brshift": SHIFT_L + ["-1", "-128", "2147483647", "-2147483648"], "brushift": SHIFT_L + ["4294967295", "2147483648"]}[f]
            r = rng.below(100)
            if r < 70:
                return pick(rng, base)
            return pick(rng, SHIFT_X + (["2147483648", "1.5", "-1"] if f != "blshift" else []))
        return pick(rng, SHIFT_N) if rng.chance(4, 5) else pick(rng, SHIFT_X)
    if f == "bnot":
        return pick(rng, ["0", "1", "-1", "127", "-128", "2147483647", "-2147483648", "(int/s64 5)", "(int/u64 5)", "(mk-tab 1)", '(mk-tab 5 ["*" "r-" "~"])',
                          '(mk-tab 3 ["+"])', "nil", '"str"', ":kw"])
    if f in CMP or f == "cmp":
        r = rng.below(100)
        if f in ("=", "not=") and r < 25:
            return "nil"
        if r < 50:
            return pick(rng, IMM_EDGE[:12])
        if r < 65:
            return pick(rng, FLOATS + INT32)
        if r < 75:
            return pick(rng, S64 + U64)
        return pick(rng, OTHER + ["SHARED-TAB", "SHARED-ARR", '"abc"', '"abd"', ":a", ":b", "[1 2]", "[1 3]"])
    if f in ("get", "in", "next"):
        if i == 0:
            return pick(rng, DS)
        if i == 1:
            return pick(rng, KEYS)
        return pick(rng, [":dflt", "nil", "9", "false"] + VALS)
    if f == "put":
        if i == 0:
            return pick(rng, ["@[1 2]", "@{}", '@"buf"', "[1 2]", "nil", "{:a 1}", "@{:k 0}", "(mk-tab 1)", '"str"', "5", "@[]"])
        if i == 1:
            return pick(rng, KEYS)
        return pick(rng, VALS)
    if f == "length":
        return pick(rng, DS + ['"\\xff\\x00z"', "(int/u64 3)", "(range 300)", "(fiber/new (fn [] 1))"])
    if f == "apply":
        if i == 0:
            return pick(rng, FUNS)
        if i == n - 1:
            return pick(rng, LASTS)
        return pick(rng, IMM_EDGE[:8] + ["nil", "(mk-tab 1)", '"s"', "[1]"])
    if f in ("resume", "cancel"):
        if i == 0:
            return pick(rng, FIBERS)
        return pick(rng, [":val", "nil", "7", '"err"', "@{}"])
    if f == "propagate":
        if i == 1:
            return pick(rng, FIBERS)
        return pick(rng, [":val", "nil", "7", '"perr"'])
    if f in ("yield", "error", "debug"):
        return pick(rng, ["1", "nil", '"boom"', ":kw", "@{:a 1}", "[1 2]", "(int/s64 5)", "false", "-129", "127"])
    raise KeyError(f)


def cases(rng, per, funcs=None, arities=range(0, 7)):
    """list of (fname, shared, [operand exprs])"""
    out = []
    seen = set()
    for f in (funcs or FUNCS):
        for n in arities:
            want = 1 if n == 0 else per
            tries = 0
            while want > 0 and tries < per * 4:
                tries += 1
                ops = tuple(operand(rng, f, i, n) for i in range(n))
                if f in ("get", "in", "next") and n >= 2 and ops[0] in DS_KEYS and rng.chance(1, 2):
                    ops = (ops[0], pick(rng, DS_KEYS[ops[0]])) + ops[2:]      # a key that is present
                if (f, ops) in seen:
                    continue
                seen.add((f, ops))
                out.append((f, f in SHARED, list(ops)))
                want -= 1
    for c in grid_cases(funcs):
        if (c[0], tuple(c[2])) not in seen:
            seen.add((c[0], tuple(c[2])))
            out.append(c)
    return out


STORED = ["false", "nil", "true", "0", '""', "@[]"]
CONTAINERS = [("@{:k %s}", ":k"), ("{:k %s}", ":k"), ("@[%s 1]", "0"), ("[1 %s]", "1"), ("(table/setproto @{} @{:k %s})", ":k")]
DEFAULTS = [":dflt", "false", "nil", "true"]


def grid_cases(funcs=None):
    """systematic family (always run, independent of the seed): lookup of a PRESENT key whose stored value is each kind of value
    (falsy-but-not-nil, nil, truthy, empty) in each container kind, without and with each kind of default"""
    out = []
    for f in ("get", "in"):
        if funcs and f not in funcs:
            continue
        for v in STORED:
            for mk, key in CONTAINERS:
                ds = mk % v
                out.append((f, False, [ds, key]))
                for d in DEFAULTS:
                    out.append((f, False, [ds, key, d]))
    return out


PRELUDE_DEFS = """
(def NEGZ (* -1 0))
(def NINF (* -1 math/inf))
(def SHARED-TAB @{:x 1})
(def SHARED-ARR @[1 2])
"""


def case_line(idx, case):
    f, shared, ops = case
    return '(C %d %s "%s" %s (fn [] [%s]))' % (idx, f, f, "true" if shared else "false", " ".join(ops))


def kind_of(expr):
    """operand kind for the coverage histogram"""
    e = expr
    if e in ("nil",):
        return "nil"
    if e.startswith("(int/s64"):
        return "s64"
    if e.startswith("(int/u64"):
        return "u64"
    if e.startswith("(mk-tab"):
        return "method-table"
    if e.startswith("(fiber/new") or e.startswith("(let [f (fiber"):
        return "fiber"
    if e.startswith('"') or e.startswith('@"'):
        return "string/buffer"
    try:
        v = float(e)
        if v == int(v) and -128 <= v <= 127:
            return "imm"
        if v == int(v) and -130 <= v <= 129:
            return "imm-neighbour"
        return "number"
    except ValueError:
        pass
    if e in ("NEGZ", "NINF", "math/inf", "math/nan"):
        return "number-special"
    return "other"


# ---------------------------------------------------------------- model correspondence cases (driver jm_c15 vs implementation)
EXACT = ["ADD", "SUBTRACT", "MULTIPLY", "GT", "LT", "GTE", "LTE", "EQ", "NEQ"]      # Spec.DP computes these on integers
D_INTS = [0, 1, -1, 2, 3, 5, 7, -7, 100, 126, 127, 128, 129, -127, -128, -129, -130, 200]


def model_cases(rng, names, per):
    """[(tagName, janet name, [(kind 'v'|'c', token)])]; token = int | nil | true | false | T<id>"""
    out = []
    for tag in sorted(names):
        for n in range(0, 7):
            for _ in range(1 if n == 0 else per):
                ops = []
                for i in range(n):
                    kind = "c" if rng.chance(1, 2) else "v"
                    r = rng.below(100)
                    if tag in EXACT:
                        if r < 70:
                            tok = str(pick(rng, D_INTS))
                        elif r < 85:
                            tok = "T%d" % i if tag in ("ADD", "SUBTRACT", "MULTIPLY") else pick(rng, ["nil", "true", "false"])
                        else:
                            tok = pick(rng, ["nil", "true", "false"])
                    else:
                        # no integer arithmetic in the model for these: keep the accumulator a table (method path) or an error
                        if i == 0 or kind == "v":
                            tok = "T%d" % i if r < 85 else "nil"
                        else:
                            tok = str(pick(rng, [0, 1, 2, 3, 127, -128, 128, -129]))
                    ops.append((kind, tok))
                if tag == "SUBTRACT" and n == 1 and ops[0][1] == "0":
                    ops[0] = (ops[0][0], "1")      # integers of the Lean model have no -0 (x * -1 on the doubles of the VM gives -0)
                if tag not in EXACT and n == 1 and not ops[0][1].startswith("T"):
                    ops[0] = (ops[0][0], "T0")
                out.append((tag, names[tag], ops))
    # operand patterns for which the model also predicts the REGISTERS of the emitted chain (Spec.emitOpreduceCode / emitCompreduceCode):
    # all operands in registers; last operand an immediate; (arithmetic) immediates at the odd positions
    for tag in sorted(names):
        for n in range(2, 7):
            def val(i):
                if tag in EXACT:
                    return str(pick(rng, D_INTS)) if rng.chance(3, 4) else ("T%d" % i if tag in ("ADD", "SUBTRACT", "MULTIPLY") else pick(rng, ["nil", "true", "false"]))
                return "T%d" % i
            imm = lambda: str(pick(rng, [0, 1, 2, 3, 127, -128, -1, 5]))
            pats = [[("v", val(i)) for i in range(n)],
                    [("v", val(i)) for i in range(n - 1)] + [("c", imm())],
                    [("v", val(i)) if i % 2 == 0 else ("c", imm()) for i in range(n)]]
            for ops in pats:
                out.append((tag, names[tag], ops))
    return out


def model_janet_line(idx, case):
    tag, name, ops = case
    def jv(tok):
        return '(mk-tab "%s")' % tok[1:] if tok.startswith("T") else tok
    return "(D %d %s [%s] (fn [] [%s]))" % (idx, name, " ".join(":" + k for k, t in ops), " ".join(jv(t) for k, t in ops))


def model_driver_line(case):
    tag, name, ops = case
    return ("call %s %s" % (tag, " ".join("%s:%s" % (k, t) for k, t in ops))).strip()
