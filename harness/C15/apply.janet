# C15 apply / splice correspondence (stand-alone): for one call shape print the real compiler's instruction list (mnemonics) and the
# argument list the callee receives (or the error class).
#   (AP idx tail? lead-values last)    (apply f ;lead last) compiled with f and every operand a parameter
#   (SP idx pattern values)            (f a ;b c ..) with the operands marked s spliced
(def- callee (fn [& r] (string "fn:f(" (string/join (map string r) ",") ")")))
(defn- psyms [n] (seq [i :range [0 n]] (symbol "p" i)))
(defn- run [form vals]
  (def c (compile form (make-env root-env) :c15))
  (if (function? c)
    (do
      (def fnv (c))
      (def bc (disasm fnv :bytecode))
      (def ops (string/join (map (fn [ins] (string (in ins 0))) bc) ","))
      (def fb (fiber/new (fn [] (fnv callee ;vals)) :e))
      (def res (resume fb))
      (def out (if (= (fiber/status fb) :error)
                 (if (string/has-prefix? "expected" (string res)) "error:notindexed" (string "error:" res))
                 (string res)))
      [ops out])
    ["compile-error" (string (c :error))]))
(defn AP [idx tail lead last]
  (def ps (psyms (+ 1 (length lead))))
  (def call ~(apply f ,;ps))
  (def form (if tail ~(fn [f ,;ps] ,call) ~(fn [f ,;ps] (def r ,call) r)))
  (def [ops out] (run form [;lead last]))
  (print idx " OPS " ops " OUT " out))
(defn SP [idx pattern vals]
  (def ps (psyms (length vals)))
  (def args (seq [i :range [0 (length vals)]] (if (= (in pattern i) (chr "s")) ~(splice ,(in ps i)) (in ps i))))
  (def form ~(fn [f ,;ps] (f ,;args)))
  (def [ops out] (run form vals))
  (print idx " OPS " ops " OUT " out))
