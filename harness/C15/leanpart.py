"""Lean side of the C15 check: regenerate Gen/Bytecode.lean + Gen/Cfuns.lean from the tree under test, let the kernel
re-check Props/C15 (table obligations by `decide`, generic theorems), audit axioms."""
import os
from tools.gen import bytecode as gen_bytecode
from tools.gen import cfuns as gen_cfuns
from tools.gen.csrc import ExtractError

THEOREMS = [
    "JanetModel.Bytecode.VM.imm_agrees",
    "JanetModel.Props.C15.inline_eq_generic_row",
    "JanetModel.Props.C15.rows_agree_partial",
    "JanetModel.Props.C15.variadic_count",
    "JanetModel.Props.C15.inline_eq_generic_partial",
    "JanetModel.Props.C15.subtract_eq_generic_not_unary",
    "JanetModel.Props.C15.subtract_row",
    "JanetModel.Props.C15.unary_minus_differs",
    "JanetModel.Props.C15.rows_agree_all_or_unary_special",
    "JanetModel.Props.C15.fixed_rows_consistent",
    "JanetModel.Props.C15.movopt_tables_sound_partial",
    "JanetModel.Props.C15.movopt_getindex",
    "JanetModel.Bytecode.VMPasses.remove_noops_retarget",
    "JanetModel.Bytecode.VMPasses.pcMap_succ",
    "JanetModel.Bytecode.VMPasses.pcMap_mono",
    "JanetModel.Bytecode.VMPasses.removeNoops_length",
    "JanetModel.Bytecode.VMPasses.removeNoops_get",
]


def run(ctx, quick, broken, janet, scratch):
    cov = {}
    tree = ctx.build.tree
    try:
        ctx.gen("Bytecode.lean", gen_bytecode.render(tree))
        text, found = gen_cfuns.render(tree)
        ctx.gen("Cfuns.lean", text)
        cov["modelled_c_bodies"] = found
        cov["unary_special_in_opreduce"] = "opreduceUnarySpecial : Option (Op × Op × Int) := some" in text
        cov["movopt_getindex_removable"] = "| .getIndex => some .a" in text
    except ExtractError as e:
        msg = "translator tools/gen/cfuns.py: %s" % e
        broken.append(msg)
        ctx.broken.append(msg)
    b = ctx.obligations("JanetModel.Props.C15", THEOREMS)
    broken.extend(b)
    if not quick:
        ok, log = ctx.leanchecker("JanetModel.Props.C15")
        if not ok:
            broken.append("leanchecker JanetModel.Props.C15: " + log[-300:])
    ctx.driver()
    return cov
