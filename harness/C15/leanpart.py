"""Lean side of the C15 check: regenerate Gen/Bytecode.lean + Gen/Cfuns.lean from the tree under test, let the kernel
re-check Props/C15 (table obligations by `decide`, generic theorems), audit axioms."""
import os
from tools.gen import bytecode as gen_bytecode
from tools.gen import cfuns as gen_cfuns
from tools.gen.csrc import ExtractError

THEOREMS = [
    # session 4 (second builder): condition guards of if / while at EVERY emission site (also the while loop recompiled as a closure),
    # constant folding of the condition
    "JanetModel.Spec.guard_jump_step",
    "JanetModel.Spec.condValue_truthy",
    "JanetModel.Spec.headRow_binop",
    "JanetModel.Spec.guardSel_sound",
    "JanetModel.Spec.guardSel_fold_sound",
    "JanetModel.Spec.const_compile_sound",
    "JanetModel.Spec.iife_guard_exec",
    "JanetModel.Spec.leave_guard_step",
    "JanetModel.Props.C15.nil_guard_sites_ok",
    "JanetModel.Props.C15.nil_const_folds_ok",
    "JanetModel.Props.C15.nil_head_rows_ok",
    "JanetModel.Props.C15.guard_site_same_branch",
    "JanetModel.Props.C15.while_iife_guard_computes",
    "JanetModel.Props.C15.const_fold_same_branch",
    # session 4 (second part): variadic arithmetic as an emitter with registers
    "JanetModel.Spec.isImmOp_of_base",
    "JanetModel.Spec.acc_step",
    "JanetModel.Spec.fold_chain_computes",
    "JanetModel.Spec.opreduce_chain_computes",
    "JanetModel.Spec.opreduce_snapshot_chain_computes",
    "JanetModel.Spec.opreduce_chain_computesH",
    "JanetModel.Spec.fold_chain_computesH",
    "JanetModel.Spec.snapshot_moves_exec",
    "JanetModel.Spec.stepH_id",
    "JanetModel.Spec.execH_id",
    "JanetModel.Props.C15.variadic_snapshot_emitted_eq_generic",
    "JanetModel.Props.C15.Witness.assign3_respects",
    "JanetModel.Props.C15.opreduce_rows_ok",
    "JanetModel.Props.C15.variadic_emitted_eq_generic",
    "JanetModel.Spec.cmpSem_eq_goInline",
    "JanetModel.Spec.cmp_jump_step",
    "JanetModel.Spec.cmp_chain_computes",
    "JanetModel.Props.C15.compreduce_rows_ok",
    "JanetModel.Props.C15.subtract_is_opreduce",
    "JanetModel.Props.C15.comparison_emitted_eq_generic",
    "JanetModel.Props.C15.fast_jump_step",
    "JanetModel.Props.C15.nil_fast_path_same_branch",
    "JanetModel.Bytecode.VM.imm_agrees",
    "JanetModel.Props.C15.inline_eq_generic_row",
    "JanetModel.Props.C15.rows_agree_partial",
    "JanetModel.Props.C15.variadic_count",
    "JanetModel.Props.C15.inline_eq_generic_partial",
    "JanetModel.Props.C15.subtract_eq_generic_not_unary",
    "JanetModel.Props.C15.subtract_row",
    "JanetModel.Props.C15.unary_minus_differs",
    "JanetModel.Props.C15.rows_agree_all_or_unary_special",
    "JanetModel.Props.C15.fixed_rows_consistent",
    "JanetModel.Spec.varop_template_correct",
    "JanetModel.Spec.comparator_template_correct",
    "JanetModel.Spec.generic_bytecode_correct",
    "JanetModel.Props.C15.template_words_ok",
    "JanetModel.Props.C15.inline_eq_generic_bytecode_partial",
    "JanetModel.Spec.shape_exec",
    "JanetModel.Spec.fixed_inline_eq_generic_bytecode",
    "JanetModel.Props.C15.fixed_rows_ok",
    "JanetModel.Props.C15.fixed_inline_eq_generic",
    "JanetModel.Props.C15.nil_fast_paths_consistent",
    "JanetModel.Props.C15.nil_condition_value",
    "JanetModel.Props.C15.movopt_tables_sound_partial",
    "JanetModel.Props.C15.movopt_getindex",
    "JanetModel.Bytecode.VM.step_core",
    "JanetModel.Bytecode.VMPasses.stepCore_respects",
    "JanetModel.Bytecode.VMPasses.movopt_preserves",
    "JanetModel.Bytecode.VMPasses.movopt_preserves_tables",
    "JanetModel.Props.C15.movopt_preserves_instance",
    "JanetModel.Props.C15.movopt_tables_sound_or_getindex",
    "JanetModel.Bytecode.VMPasses.remove_noops_preserves",
    "JanetModel.Bytecode.VMPasses.remove_noops_sourcemap",
    "JanetModel.Bytecode.VMPasses.removeNoopsFull_get",
    "JanetModel.Bytecode.VMPasses.remove_noops_retarget",
    "JanetModel.Bytecode.VMPasses.pcMap_succ",
    "JanetModel.Bytecode.VMPasses.pcMap_mono",
    "JanetModel.Bytecode.VMPasses.removeNoops_length",
    "JanetModel.Bytecode.VMPasses.removeNoops_get",
    # session 3: full interpreter (calls, pushes, constructors, closures, upvalues), apply, splice, passes over it
    "JanetModel.Bytecode.VM.stepX_total",
    "JanetModel.Bytecode.VM.execX_of_exec",
    "JanetModel.Spec.pushLeading_exec",
    "JanetModel.Spec.apply_inline_tail",
    "JanetModel.Spec.apply_inline_call",
    "JanetModel.Spec.apply_loop",
    "JanetModel.Spec.apply_template_correct",
    "JanetModel.Props.C15.apply_row_ok",
    "JanetModel.Props.C15.apply_inline_eq_generic",
    "JanetModel.Spec.pushSlots_exec",
    "JanetModel.Spec.generic_call_tail",
    "JanetModel.Spec.splice_selects_generic",
    "JanetModel.Spec.select_no_splice",
    "JanetModel.Props.C15.pushslots_shape_ok",
    "JanetModel.Props.C15.spliced_call_is_generic",
    "JanetModel.Props.C15.apply_eq_splice",
    "JanetModel.Bytecode.VMPasses.stepX_core",
    "JanetModel.Bytecode.VMPasses.remove_noops_preserves_x",
    "JanetModel.Bytecode.VMPasses.callCore_respects",
    "JanetModel.Bytecode.VMPasses.coreX_respects",
    "JanetModel.Bytecode.VMPasses.movopt_preserves_x",
    "JanetModel.Bytecode.VMPasses.movopt_preserves_tables_x",
    "JanetModel.Props.C15.movopt_preserves_instance_x",
    "JanetModel.Props.C15.remove_noops_retargets_ok",
    # session 4: statement skeletons of the hand-modelled C bodies (one obligation per function), fixed-arity handlers as emitters
    "JanetModel.Props.C15.skeleton_genericSS_ok",
    "JanetModel.Props.C15.skeleton_genericSSI_ok",
    "JanetModel.Props.C15.skeleton_opfunction_ok",
    "JanetModel.Props.C15.skeleton_can_be_imm_ok",
    "JanetModel.Props.C15.skeleton_can_slot_be_imm_ok",
    "JanetModel.Props.C15.skeleton_reduce_target_ok",
    "JanetModel.Props.C15.skeleton_opreduce_ok",
    "JanetModel.Props.C15.skeleton_compreduce_ok",
    "JanetModel.Props.C15.skeleton_janetc_funopt_ok",
    "JanetModel.Props.C15.skeleton_do_apply_ok",
    "JanetModel.Props.C15.skeleton_do_debug_ok",
    "JanetModel.Props.C15.skeleton_do_error_ok",
    "JanetModel.Props.C15.skeleton_do_get_ok",
    "JanetModel.Props.C15.skeleton_do_put_ok",
    "JanetModel.Props.C15.skeleton_do_yield_ok",
    "JanetModel.Props.C15.skeleton_janet_quick_asm_ok",
    "JanetModel.Props.C15.skeleton_janetc_check_nil_form_ok",
    "JanetModel.Props.C15.skeleton_janetc_call_selection_ok",
    "JanetModel.Props.C15.skeleton_janetc_varset_ok",
    "JanetModel.Props.C15.skeleton_janetc_movenear_ok",
    "JanetModel.Props.C15.skeleton_janetc_regnear_ok",
    "JanetModel.Props.C15.skeleton_janetc_emit_sss_ok",
    "JanetModel.Props.C15.skeleton_emit2s_ok",
    "JanetModel.Props.C15.movenear_ops_ok",
    "JanetModel.Spec.load_step",
    "JanetModel.Spec.regnear_exec",
    "JanetModel.Spec.opdVal_set",
    "JanetModel.Spec.operands_loaded",
    "JanetModel.Props.C15.skeleton_names_ok",
    "JanetModel.Props.C15.special_ops_ok",
    "JanetModel.Props.C15.fixed_emit_defined",
    "JanetModel.Props.C15.fixed_emitted_eq_generic",
    "JanetModel.Spec.shape_emit_computes",
    "JanetModel.Spec.get3_computes",
    "JanetModel.Spec.get3_alias_computes",
    "JanetModel.Spec.put_computes",
    "JanetModel.Spec.put_drop_computes",
    "JanetModel.Spec.sss_computes",
    "JanetModel.Spec.sssnil_computes",
    "JanetModel.Spec.ss_computes",
    "JanetModel.Spec.ssk_computes",
    "JanetModel.Spec.ssknil_computes",
    "JanetModel.Spec.error_computes",
    "JanetModel.Spec.evalInlineFixed_shape",
]


def run(ctx, quick, broken, janet, scratch):
    cov = {}
    tree = ctx.build.tree
    text = ""
    try:
        ctx.gen("Bytecode.lean", gen_bytecode.render(tree))
        text, found = gen_cfuns.render(tree)
        ctx.gen("Cfuns.lean", text)
        cov["modelled_c_bodies"] = found
        cov["unary_special_in_opreduce"] = "opreduceUnarySpecial : Option (Op × Op × Int) := some" in text
        cov["movopt_getindex_removable"] = "| .getIndex => some .a" in text
    except ExtractError as e:
        msg = "translator tools/gen/cfuns.py: %s" % e
        broken.append(msg)
        ctx.broken.append(msg)
    b = ctx.obligations("JanetModel.Props.C15", THEOREMS)
    b = name_failed_declarations(ctx, "JanetModel.Props.C15", b)
    broken.extend(b)
    if not quick:
        ok, log = ctx.leanchecker("JanetModel.Props.C15")
        if not ok:
            broken.append("leanchecker JanetModel.Props.C15: " + log[-300:])
    exe = ctx.driver()
    if exe:
        try:
            cov.update(correspondence(ctx, quick, broken, janet, scratch, exe, tree))
            cc = call_correspondence(ctx, quick, broken, janet, scratch, exe, tree)
            cov["evaluations"] = cov.get("evaluations", 0) + 2 * cc["call_correspondence_completed"]
            cov["distinct_nontrivial"] = cov.get("distinct_nontrivial", 0) + cc.pop("call_correspondence_distinct")
            cov.update(cc)
            cov.update(fixed_correspondence(ctx, quick, broken, janet, scratch, exe, tree, text))
            sc = snapshot_correspondence(ctx, quick, broken, janet, scratch, exe, tree)
            cov["evaluations"] = cov.get("evaluations", 0) + sc["snapshot_chain_compared"]
            cov["distinct_nontrivial"] = cov.get("distinct_nontrivial", 0) + sc["snapshot_chain_compared"]
            cov.update(sc)
        except ExtractError as e:
            msg = "translator (mnemonics / names): %s" % e
            broken.append(msg)
            ctx.broken.append(msg)
    return cov


def name_failed_declarations(ctx, module, b):
    """vlib reports a failed `lake build` by its first error line; name the declarations the error positions fall into (e.g. which
    `skeleton_<function>_ok` / table obligation no longer holds) from the build log and the Lean sources that were built"""
    import re
    import vlib.core as vcore
    if not any("module does not build" in x for x in b):
        return b
    logp = os.path.join(ctx.replay_dir, "lake-%s.log" % module)
    try:
        log = open(logp).read()
    except OSError:
        return b
    names = []
    for m in re.finditer(r"error: (\S+?\.lean):(\d+):\d+: ([^\n]*)", log):
        path, line, msg = m.group(1), int(m.group(2)), m.group(3)
        try:
            src = open(os.path.join(vcore.LEAN, path)).read().splitlines()
        except OSError:
            continue
        decl = None
        for k in range(min(line, len(src)) - 1, -1, -1):
            mm = re.match(r"^\s*(?:private\s+)?(?:theorem|def|example|abbrev|instance)\s+([\w.']+)?", src[k])
            if mm:
                decl = mm.group(1) or "example"
                break
        entry = "%s in %s:%d (%s)" % (decl, path, line, msg[:90])
        if entry not in names:
            names.append(entry)
    if names:
        ctx.broken += ["no longer holds: " + n for n in names]
        return ["no longer holds: " + n for n in names] + b
    return b


MOVES = {"ldi", "ldc", "ldn", "ldt", "ldf", "lds", "movn", "movf", "ret", "retn"}


def real_ops(opsfield, mnem):
    out = []
    for ins in [x for x in opsfield.split(",") if x]:
        parts = ins.split(":")
        if parts[0] in MOVES:
            continue
        jop, ty = mnem.get(parts[0], ("?" + parts[0], ""))
        if ty in ("JINT_SSI", "JINT_SSU"):
            # janet_instructions[] types the unsigned-shift immediate as SSU: disasm prints the byte unsigned
            v = int(parts[-1])
            out.append("%s:%d" % (jop, v - 256 if ty == "JINT_SSU" and v >= 128 else v))
        else:
            out.append(jop)
    return ",".join(out)


def full_ops(opsfield, mnem):
    """the implementation's instruction list with operands, mnemonics mapped to JOP names (operands as `disasm` prints them; the driver prints the
    same layout, e.g. the unsigned byte for the SSU-typed unsigned-shift immediate)"""
    out = []
    for ins in [x for x in opsfield.split(",") if x]:
        parts = ins.split(":")
        jop, ty = mnem.get(parts[0], ("?" + parts[0], ""))
        out.append(":".join([jop] + parts[1:]))
    return out


def correspondence(ctx, quick, broken, janet, scratch, exe, tree):
    """(D) model vs implementation: emitted opcode/immediate sequence (Spec.emitInline vs the real compiler's disasm),
    outcome of the inline call (Spec.evalInline vs the VM), outcome of the generic call (Spec.evalGeneric vs the template)."""
    import importlib.util, re, concurrent.futures as cf
    from vlib.core import run_cmd
    here = os.path.dirname(os.path.abspath(__file__))
    spec = importlib.util.spec_from_file_location("c15_gen2", os.path.join(here, "gen.py"))
    gen = importlib.util.module_from_spec(spec)
    spec.loader.exec_module(gen)
    names = gen_cfuns.variadic_names(tree)
    mnem = gen_cfuns.mnemonics(tree)
    rng = ctx.rng.fork("model")
    cases = gen.model_cases(rng, names, 6 if quick else 60)
    pre = open(os.path.join(here, "routes.janet")).read() + gen.PRELUDE_DEFS + open(os.path.join(here, "emit.janet")).read()
    jobs = 8
    chunks = [list(range(i, len(cases), jobs)) for i in range(jobs)]
    env = dict(os.environ, ASAN_OPTIONS="detect_leaks=0:abort_on_error=0")

    def one(k):
        p = os.path.join(scratch, "emit-%d.janet" % k)
        with open(p, "w") as f:
            f.write(pre + "\n" + "\n".join(gen.model_janet_line(i, cases[i]) for i in chunks[k]) + "\n(file/flush stdout)\n")
        rc, out, err = run_cmd([janet, p], timeout=600, env=env)
        return rc, out.decode(errors="replace"), err.decode(errors="replace")
    impl = {}
    crashed = []
    with cf.ThreadPoolExecutor(jobs) as ex:
        for k, (rc, out, err) in enumerate(ex.map(one, range(jobs))):
            for line in out.splitlines():
                m = re.match(r"^(\d+) OPS (.*) INLINE (.*) GENERIC (.*)$", line)
                if m:
                    # the Lean model's numbers are integers: no negative zero
                    nz = lambda t: re.sub(r"(?<![0-9.e])-0(?![0-9.])", "0", t)
                    impl[int(m.group(1))] = (real_ops(m.group(2), mnem), nz(m.group(3)), nz(m.group(4)), full_ops(m.group(2), mnem))
            if rc != 0:
                crashed.append(err[-1500:])
    model = ctx.model([gen.model_driver_line(c) for c in cases], exe=exe)
    # full instruction chain WITH registers (Spec.emitOpreduceCode) where the operand pattern is covered by the model: the k-th register
    # operand is parameter register k, every constant is an immediate, target = first free register
    chain = ctx.model([gen.model_driver_line(c).replace("call ", "chain ", 1) for c in cases], exe=exe)
    diffs = []
    direct = []
    nchain = 0
    for i, c in enumerate(cases):
        if i not in impl:
            continue
        m = re.match(r"^ops=(.*) inline=(.*) generic=(.*)$", model[i])
        if not m:
            diffs.append({"case": gen.model_driver_line(c), "model": model[i], "impl": impl[i], "field": "driver"})
            continue
        for fld, a, b in (("ops", m.group(1), impl[i][0]), ("inline", m.group(2), impl[i][1]), ("generic", m.group(3), impl[i][2])):
            if a != b:
                diffs.append({"case": gen.model_driver_line(c), "janet": gen.model_janet_line(i, c), "field": fld, "model": a, "impl": b})
        mc = re.match(r"^code=(.*)$", chain[i])
        if mc and mc.group(1) != "-":
            nchain += 1
            want = mc.group(1).split(",")
            got = impl[i][3]
            if got[:len(want)] != want or [g.split(":")[0] for g in got[len(want):]] not in (["JOP_RETURN"], []):
                diffs.append({"case": gen.model_driver_line(c), "janet": gen.model_janet_line(i, c), "field": "chain-with-registers", "model": want, "impl": got})
        unary_minus = c[0] == "SUBTRACT" and len(c[2]) == 1
        if impl[i][1] != impl[i][2] and not unary_minus:
            direct.append((i, c, impl[i]))
    if crashed:
        msg = "model correspondence: implementation run crashed: %s" % crashed[0][-300:]
        broken.append(msg)
        ctx.broken.append(msg)
    if diffs:
        msg = "correspondence Spec model / implementation: %d differing fields, first %r" % (len(diffs), diffs[0])
        broken.append(msg)
        ctx.broken.append(msg)
    for i, c, im in direct[:3]:
        ctx.violation("route-diff:%s/%d:register-constant-pattern" % (c[1], len(c[2])),
                      {"kind": "model-case", "janet": gen.model_janet_line(i, c), "inline_outcome": im[1], "generic_outcome": im[2], "emitted": im[0],
                       "how": "append the janet line to harness/C15/routes.janet + gen.PRELUDE_DEFS + harness/C15/emit.janet and run it"},
                      what="%s: inline call gives %s, generic call gives %s" % (gen.model_janet_line(i, c), im[1][:100], im[2][:100]))
    return {"model_correspondence_cases": len(cases), "model_correspondence_completed": len(impl), "model_correspondence_diffs": len(diffs),
            "model_correspondence_first_diffs": diffs[:5], "model_correspondence_chains_with_registers": nchain, "evaluations": 3 * len(impl) + nchain, "distinct_nontrivial": len(set(gen.model_driver_line(c) for c in cases)),
            "model_correspondence_samples": [gen.model_driver_line(cases[i]) for i in (1, len(cases) // 2, len(cases) - 1)]}


# --------------------------------------------------------------------------------------------- chains with `var` operands (snapshot moves)
def snapshot_cases(rng, names, quick):
    """[(tagName, janet name, [kind])], kind = 'v' | 'm' | 'c:<int>'; first operand a register, at least one `var`"""
    import itertools
    imms = [0, 1, 2, 3, 127, -128, -1, 5]
    out = []
    for tag in sorted(names):
        pats = []
        for n in (2, 3, 4):
            for pat in itertools.product("vmc", repeat=n):
                if pat[0] != "c" and "m" in pat:
                    pats.append(pat)
        for _ in range(6 if quick else 60):
            n = 5 + rng.below(4)
            pat = tuple("vmc"[rng.below(3)] for _ in range(n))
            if pat[0] == "c":
                pat = ("m",) + pat[1:]
            if "m" not in pat[2:]:
                pat = pat[:-1] + ("m",)
            pats.append(pat)
        for pat in pats:
            out.append((tag, names[tag], [k if k != "c" else "c:%d" % imms[rng.below(len(imms))] for k in pat]))
    return out


def snapshot_correspondence(ctx, quick, broken, janet, scratch, exe, tree):
    """(D) `opreduce` with `var` operands: the FULL instruction list of the real compiler - the `movn` of the `(var ..)` forms, the snapshot
    moves of the operands from the third on, the chain, `ret` - against `Spec.emitOpreduceSnap` (driver `snapchain`)."""
    import re
    from vlib.core import run_cmd
    here = os.path.dirname(os.path.abspath(__file__))
    names = gen_cfuns.variadic_names(tree)
    mnem = gen_cfuns.mnemonics(tree)
    rng = ctx.rng.fork("snapshot")
    cases = snapshot_cases(rng, names, quick)
    model = ctx.model(["snapchain %s %s" % (c[0], " ".join(c[2])) for c in cases], exe=exe)
    keep = [i for i, c in enumerate(cases) if model[i].startswith("code=") and not model[i].startswith("code=-")]
    pre = open(os.path.join(here, "routes.janet")).read() + open(os.path.join(here, "snap.janet")).read()
    jk = lambda k: ":" + k if k in ("v", "m") else k[2:]
    p = os.path.join(scratch, "snap.janet")
    with open(p, "w") as f:
        f.write(pre + "\n" + "\n".join("(S %d %s [%s])" % (i, cases[i][1], " ".join(jk(k) for k in cases[i][2])) for i in keep)
                + "\n(file/flush stdout)\n")
    rc, out, err = run_cmd([janet, p], timeout=600, env=dict(os.environ, ASAN_OPTIONS="detect_leaks=0:abort_on_error=0"))
    impl = {}
    for line in out.decode(errors="replace").splitlines():
        m = re.match(r"^(\d+) SNAP (.*)$", line)
        if m:
            impl[int(m.group(1))] = full_ops(m.group(2), mnem)
    diffs = []
    nsnap = 0
    for i in keep:
        c = cases[i]
        m = re.match(r"^code=(\S*) target=(\d+)$", model[i])
        if i not in impl or not m:
            diffs.append({"case": "snapchain %s %s" % (c[0], " ".join(c[2])), "model": model[i], "impl": impl.get(i)})
            continue
        regs = [k for k in c[2] if k in ("v", "m")]
        np_ = len(regs)
        prologue = ["JOP_MOVE_NEAR:%d:%d" % (np_ + j, pi) for j, pi in enumerate([q for q, k in enumerate(regs) if k == "m"])]
        want = prologue + m.group(1).split(",") + ["JOP_RETURN:%s" % m.group(2)]
        nsnap += sum(1 for k in c[2][2:] if k == "m")
        if impl[i] != want:
            diffs.append({"case": "snapchain %s %s" % (c[0], " ".join(c[2])), "field": "snapshot-chain-with-registers", "model": want, "impl": impl[i]})
    if rc != 0:
        msg = "snapshot-chain correspondence: implementation run failed: %s" % err.decode(errors="replace")[-300:]
        broken.append(msg)
        ctx.broken.append(msg)
    if diffs:
        msg = "correspondence Spec.emitOpreduceSnap / implementation: %d differing instruction lists, first %r" % (len(diffs), diffs[0])
        broken.append(msg)
        ctx.broken.append(msg)
    return {"snapshot_chain_cases": len(cases), "snapshot_chain_compared": len(keep) - len([d for d in diffs if "field" not in d]),
            "snapshot_chain_snapshot_moves": nsnap, "snapshot_chain_diffs": len(diffs), "snapshot_chain_first_diffs": diffs[:3],
            "snapshot_chain_samples": ["snapchain %s %s" % (cases[i][0], " ".join(cases[i][2])) for i in keep[:1] + keep[len(keep) // 2:len(keep) // 2 + 1] + keep[-1:]]}


# --------------------------------------------------------------------------------------------- apply / splice correspondence
def _jval(v):
    """(driver token, janet literal) of a generated value: ('int', n) | ('arr', n, tuple?) | ('nil',) | ('true',)"""
    if v[0] == "int":
        return str(v[1]), str(v[1])
    if v[0] == "arr":
        elems = " ".join(str(100 + i) for i in range(v[1]))
        return "TA%d" % v[1], ("[%s]" % elems if v[2] else "@[%s]" % elems)
    return v[0], v[0]


def call_cases(rng, quick):
    cases = []
    lasts = [("arr", 0, False), ("arr", 1, True), ("arr", 3, False), ("arr", 4, True), ("int", 5), ("nil",), ("true",)]
    for n in range(0, 9 if quick else 40):
        for tail in (True, False):
            for last in (lasts if n < 5 else [lasts[rng.below(len(lasts))], lasts[rng.below(4)]]):
                cases.append(("apply", tail, [("int", rng.below(200) - 100) for _ in range(n)], last))
    for _ in range(160 if quick else 3000):
        n = 1 + rng.below(9 if quick else 30)
        pat = [("s" if rng.below(3) == 0 else "v") for _ in range(n)]
        if "s" not in pat:
            pat[rng.below(n)] = "s"
        vals = []
        for c in pat:
            if c == "s":
                vals.append(("arr", rng.below(4), rng.below(2) == 0) if rng.below(8) else lasts[4 + rng.below(3)])
            else:
                vals.append(("int", rng.below(200) - 100))
        cases.append(("splice", "".join(pat), vals))
    for pat in ("v", "vv", "vvv", "vvvv", "vvvvvvv"):        # the no-splice branches of janetc_pushslots (first-class call of a parameter)
        cases.append(("splice", pat, [("int", k) for k in range(len(pat))]))
    return cases


def call_correspondence(ctx, quick, broken, janet, scratch, exe, tree):
    """(D) `do_apply` and `janetc_pushslots` + call: opcode sequence of the modelled emitters (Spec.emitApply, Spec.emitGenericCall)
    vs the real compiler's disasm, and the argument list the callee receives / the not-indexed error (VM.execX on the modelled code
    vs the real VM)."""
    import re
    from vlib.core import run_cmd
    here = os.path.dirname(os.path.abspath(__file__))
    mnem = gen_cfuns.mnemonics(tree)
    rng = ctx.rng.fork("calls")
    cases = call_cases(rng, quick)
    drv, jl = [], []
    for i, c in enumerate(cases):
        if c[0] == "apply":
            _, tail, lead, last = c
            drv.append("apply %s %s %s" % ("tail" if tail else "val", _jval(last)[0], " ".join(_jval(v)[0] for v in lead)))
            jl.append("(AP %d %s [%s] %s)" % (i, "true" if tail else "false", " ".join(_jval(v)[1] for v in lead), _jval(last)[1]))
        else:
            _, pat, vals = c
            drv.append("splice %s %s" % (pat, " ".join(_jval(v)[0] for v in vals)))
            jl.append('(SP %d "%s" [%s])' % (i, pat, " ".join(_jval(v)[1] for v in vals)))
    pth = os.path.join(scratch, "apply-corr.janet")
    with open(pth, "w") as f:
        f.write(open(os.path.join(here, "apply.janet")).read() + "\n" + "\n".join(jl) + "\n(file/flush stdout)\n")
    env = dict(os.environ, ASAN_OPTIONS="detect_leaks=0:abort_on_error=0")
    rc, out, err = run_cmd([janet, pth], timeout=600, env=env)
    impl = {}
    for line in out.decode(errors="replace").splitlines():
        m = re.match(r"^(\d+) OPS (\S*) OUT (.*)$", line)
        if m:
            ops = [mnem.get(x, ("?" + x, ""))[0] for x in m.group(2).split(",") if x and x not in MOVES]
            impl[int(m.group(1))] = (",".join(ops), m.group(3))
    model = ctx.model(drv, exe=exe)
    diffs, shapes = [], {}
    for i, c in enumerate(cases):
        m = re.match(r"^ops=(\S*) out=(.*)$", model[i])
        if i not in impl or not m:
            diffs.append({"case": drv[i], "model": model[i], "impl": impl.get(i), "field": "missing"})
            continue
        mops = ",".join(x for x in m.group(1).split(",") if x not in ("JOP_RETURN", "JOP_MOVE_NEAR"))
        shapes[mops] = shapes.get(mops, 0) + 1
        for fld, a, b in (("ops", mops, impl[i][0]), ("out", m.group(2), impl[i][1])):
            if a != b:
                diffs.append({"case": drv[i], "janet": jl[i], "field": fld, "model": a, "impl": b})
    if rc != 0:
        msg = "apply/splice correspondence: implementation run failed: %s" % err.decode(errors="replace")[-300:]
        broken.append(msg)
        ctx.broken.append(msg)
    if diffs:
        msg = "correspondence Spec.emitApply / Spec.pushSlots vs implementation: %d differing fields, first %r" % (len(diffs), diffs[0])
        broken.append(msg)
        ctx.broken.append(msg)
    return {"call_correspondence_cases": len(cases), "call_correspondence_completed": len(impl), "call_correspondence_diffs": len(diffs),
            "call_correspondence_first_diffs": diffs[:5], "call_correspondence_distinct_instruction_shapes": len(shapes),
            "call_correspondence_distinct": len(set(drv)),
            "call_correspondence_kinds": {"apply": sum(1 for c in cases if c[0] == "apply"), "splice": sum(1 for c in cases if c[0] == "splice"),
                                          "not_indexed_errors": sum(1 for v in impl.values() if v[1] == "error:notindexed")},
            "call_correspondence_samples": [drv[k] for k in (0, len(drv) // 2, len(drv) - 1)]}


# --------------------------------------------------------------------------------------------- fixed-arity emit correspondence
PLUMBING = {"JOP_MOVE_NEAR", "JOP_RETURN", "JOP_RETURN_NIL", "JOP_LOAD_NIL"}


def fixed_correspondence(ctx, quick, broken, janet, scratch, exe, tree, gen_text):
    """(D) the fixed-arity handlers as emitters: for EVERY (fixed-arity row of optimizers[], admitted arity 0..3) - and `get` with the
    target aliasing its default - the full instruction list (opcodes AND operands: registers, jump offset, signal number) of
    Spec.emitShape is compared with what the real compiler emits for the call in value position."""
    import re
    from vlib.core import run_cmd
    here = os.path.dirname(os.path.abspath(__file__))
    mnem = gen_cfuns.mnemonics(tree)
    opsl = dict(gen_bytecode.extract(tree)[0])
    found = {}
    rows, guards, special = gen_cfuns.extract_cfuns(tree, found)
    funs = {f["tag"]: f for f in gen_cfuns.extract_corelib(tree, opsl, found)}
    cases = []
    for r in rows:
        if r["h"][0] in ("opreduce", "compreduce") and r["guard"] == "NULL":
            continue                      # variadic families: correspondence() above
        if r["handler"] == "do_apply" or r["tag"] not in funs:
            continue                      # call_correspondence() above
        for n in range(0, 4):
            if r["guard"] != "NULL":
                op, ns = guards[r["guard"]]
                if not ((op == "==" and n in ns) or (op == "<=" and n <= ns[0]) or (op == ">=" and n >= ns[0])):
                    continue
            cases.append((r["tagname"], funs[r["tag"]]["name"], n, False))
            if r["handler"] == "do_get" and n == 3:
                cases.append((r["tagname"], funs[r["tag"]]["name"], n, True))
    drv = ["fixed %s %s %d" % (tag, "alias" if al else "val", n) for tag, name, n, al in cases]
    jl = ["(FX %d %s %d %s)" % (i, name, n, "true" if al else "false") for i, (tag, name, n, al) in enumerate(cases)]
    pth = os.path.join(scratch, "fixed-corr.janet")
    with open(pth, "w") as f:
        f.write(open(os.path.join(here, "fixed.janet")).read() + "\n" + "\n".join(jl) + "\n(file/flush stdout)\n")
    env = dict(os.environ, ASAN_OPTIONS="detect_leaks=0:abort_on_error=0")
    rc, out, err = run_cmd([janet, pth], timeout=300, env=env)
    impl = {}
    for line in out.decode(errors="replace").splitlines():
        m = re.match(r"^(\d+) OPS (\S*)$", line)
        if m:
            ins = []
            for x in m.group(2).split(","):
                parts = x.split(":")
                ins.append(":".join([mnem.get(parts[0], ("?" + parts[0], ""))[0]] + parts[1:]))
            impl[int(m.group(1))] = ins
    model = ctx.model(drv, exe=exe)
    diffs, shapes = [], {}
    for i, c in enumerate(cases):
        tag, name, n, al = c
        m = re.match(r"^ops=(\S*)$", model[i])
        if i not in impl or not m:
            diffs.append({"case": drv[i], "model": model[i], "impl": impl.get(i), "field": "missing"})
            continue
        want = [x for x in m.group(1).split(",") if x]
        if al:
            # register layout of the alias form: (var x a_{n-1}) copies the last parameter into register n, which is operand AND target
            want = ["JOP_MOVE_NEAR:%d:%d" % (n, n - 1)] + want
        got = impl[i]
        shapes[",".join(w.split(":")[0] for w in want)] = 1
        if got[:len(want)] != want or any(g.split(":")[0] not in PLUMBING for g in got[len(want):]):
            diffs.append({"case": drv[i], "janet": jl[i], "field": "instructions", "model": want, "impl": got})
    if rc != 0:
        msg = "fixed-arity emit correspondence: implementation run failed: %s" % err.decode(errors="replace")[-300:]
        broken.append(msg)
        ctx.broken.append(msg)
    if diffs:
        msg = "correspondence Spec.emitShape vs the real compiler (fixed-arity specialisations): %d differing, first %r" % (len(diffs), diffs[0])
        broken.append(msg)
        ctx.broken.append(msg)
    return {"fixed_emit_cases": len(cases), "fixed_emit_completed": len(impl), "fixed_emit_diffs": len(diffs), "fixed_emit_first_diffs": diffs[:5],
            "fixed_emit_instruction_shapes": sorted(shapes), "fixed_emit_samples": [drv[0], drv[len(drv) // 2], drv[-1]]}
