"""Lean side of the C15 check: regenerate Gen/Bytecode.lean + Gen/Cfuns.lean from the tree under test, let the kernel
re-check Props/C15 (table obligations by `decide`, generic theorems), audit axioms."""
import os
from tools.gen import bytecode as gen_bytecode
from tools.gen import cfuns as gen_cfuns
from tools.gen.csrc import ExtractError

THEOREMS = [
    "JanetModel.Bytecode.VM.imm_agrees",
    "JanetModel.Props.C15.inline_eq_generic_row",
    "JanetModel.Props.C15.rows_agree_partial",
    "JanetModel.Props.C15.variadic_count",
    "JanetModel.Props.C15.inline_eq_generic_partial",
    "JanetModel.Props.C15.subtract_eq_generic_not_unary",
    "JanetModel.Props.C15.subtract_row",
    "JanetModel.Props.C15.unary_minus_differs",
    "JanetModel.Props.C15.rows_agree_all_or_unary_special",
    "JanetModel.Props.C15.fixed_rows_consistent",
    "JanetModel.Spec.varop_template_correct",
    "JanetModel.Spec.comparator_template_correct",
    "JanetModel.Spec.generic_bytecode_correct",
    "JanetModel.Props.C15.template_words_ok",
    "JanetModel.Props.C15.inline_eq_generic_bytecode_partial",
    "JanetModel.Spec.shape_exec",
    "JanetModel.Spec.fixed_inline_eq_generic_bytecode",
    "JanetModel.Props.C15.fixed_rows_ok",
    "JanetModel.Props.C15.fixed_inline_eq_generic",
    "JanetModel.Props.C15.nil_fast_paths_consistent",
    "JanetModel.Props.C15.nil_condition_value",
    "JanetModel.Props.C15.movopt_tables_sound_partial",
    "JanetModel.Props.C15.movopt_getindex",
    "JanetModel.Bytecode.VM.step_core",
    "JanetModel.Bytecode.VMPasses.stepCore_respects",
    "JanetModel.Bytecode.VMPasses.movopt_preserves",
    "JanetModel.Bytecode.VMPasses.movopt_preserves_tables",
    "JanetModel.Props.C15.movopt_preserves_instance",
    "JanetModel.Props.C15.movopt_tables_sound_or_getindex",
    "JanetModel.Bytecode.VMPasses.remove_noops_preserves",
    "JanetModel.Bytecode.VMPasses.remove_noops_sourcemap",
    "JanetModel.Bytecode.VMPasses.removeNoopsFull_get",
    "JanetModel.Bytecode.VMPasses.remove_noops_retarget",
    "JanetModel.Bytecode.VMPasses.pcMap_succ",
    "JanetModel.Bytecode.VMPasses.pcMap_mono",
    "JanetModel.Bytecode.VMPasses.removeNoops_length",
    "JanetModel.Bytecode.VMPasses.removeNoops_get",
]


def run(ctx, quick, broken, janet, scratch):
    cov = {}
    tree = ctx.build.tree
    try:
        ctx.gen("Bytecode.lean", gen_bytecode.render(tree))
        text, found = gen_cfuns.render(tree)
        ctx.gen("Cfuns.lean", text)
        cov["modelled_c_bodies"] = found
        cov["unary_special_in_opreduce"] = "opreduceUnarySpecial : Option (Op × Op × Int) := some" in text
        cov["movopt_getindex_removable"] = "| .getIndex => some .a" in text
    except ExtractError as e:
        msg = "translator tools/gen/cfuns.py: %s" % e
        broken.append(msg)
        ctx.broken.append(msg)
    b = ctx.obligations("JanetModel.Props.C15", THEOREMS)
    broken.extend(b)
    if not quick:
        ok, log = ctx.leanchecker("JanetModel.Props.C15")
        if not ok:
            broken.append("leanchecker JanetModel.Props.C15: " + log[-300:])
    exe = ctx.driver()
    if exe:
        try:
            cov.update(correspondence(ctx, quick, broken, janet, scratch, exe, tree))
        except ExtractError as e:
            msg = "translator (mnemonics / names): %s" % e
            broken.append(msg)
            ctx.broken.append(msg)
    return cov


MOVES = {"ldi", "ldc", "ldn", "ldt", "ldf", "lds", "movn", "movf", "ret", "retn"}


def real_ops(opsfield, mnem):
    out = []
    for ins in [x for x in opsfield.split(",") if x]:
        parts = ins.split(":")
        if parts[0] in MOVES:
            continue
        jop, ty = mnem.get(parts[0], ("?" + parts[0], ""))
        if ty in ("JINT_SSI", "JINT_SSU"):
            # janet_instructions[] types the unsigned-shift immediate as SSU: disasm prints the byte unsigned
            v = int(parts[-1])
            out.append("%s:%d" % (jop, v - 256 if ty == "JINT_SSU" and v >= 128 else v))
        else:
            out.append(jop)
    return ",".join(out)


def correspondence(ctx, quick, broken, janet, scratch, exe, tree):
    """(D) model vs implementation: emitted opcode/immediate sequence (Spec.emitInline vs the real compiler's disasm),
    outcome of the inline call (Spec.evalInline vs the VM), outcome of the generic call (Spec.evalGeneric vs the template)."""
    import importlib.util, re, concurrent.futures as cf
    from vlib.core import run_cmd
    here = os.path.dirname(os.path.abspath(__file__))
    spec = importlib.util.spec_from_file_location("c15_gen2", os.path.join(here, "gen.py"))
    gen = importlib.util.module_from_spec(spec)
    spec.loader.exec_module(gen)
    names = gen_cfuns.variadic_names(tree)
    mnem = gen_cfuns.mnemonics(tree)
    rng = ctx.rng.fork("model")
    cases = gen.model_cases(rng, names, 6 if quick else 60)
    pre = open(os.path.join(here, "routes.janet")).read() + gen.PRELUDE_DEFS + open(os.path.join(here, "emit.janet")).read()
    jobs = 8
    chunks = [list(range(i, len(cases), jobs)) for i in range(jobs)]
    env = dict(os.environ, ASAN_OPTIONS="detect_leaks=0:abort_on_error=0")

    def one(k):
        p = os.path.join(scratch, "emit-%d.janet" % k)
        with open(p, "w") as f:
            f.write(pre + "\n" + "\n".join(gen.model_janet_line(i, cases[i]) for i in chunks[k]) + "\n(file/flush stdout)\n")
        rc, out, err = run_cmd([janet, p], timeout=600, env=env)
        return rc, out.decode(errors="replace"), err.decode(errors="replace")
    impl = {}
    crashed = []
    with cf.ThreadPoolExecutor(jobs) as ex:
        for k, (rc, out, err) in enumerate(ex.map(one, range(jobs))):
            for line in out.splitlines():
                m = re.match(r"^(\d+) OPS (.*) INLINE (.*) GENERIC (.*)$", line)
                if m:
                    # the Lean model's numbers are integers: no negative zero
                    nz = lambda t: re.sub(r"(?<![0-9.e])-0(?![0-9.])", "0", t)
                    impl[int(m.group(1))] = (real_ops(m.group(2), mnem), nz(m.group(3)), nz(m.group(4)))
            if rc != 0:
                crashed.append(err[-1500:])
    model = ctx.model([gen.model_driver_line(c) for c in cases], exe=exe)
    diffs = []
    direct = []
    for i, c in enumerate(cases):
        if i not in impl:
            continue
        m = re.match(r"^ops=(.*) inline=(.*) generic=(.*)$", model[i])
        if not m:
            diffs.append({"case": gen.model_driver_line(c), "model": model[i], "impl": impl[i], "field": "driver"})
            continue
        for fld, a, b in (("ops", m.group(1), impl[i][0]), ("inline", m.group(2), impl[i][1]), ("generic", m.group(3), impl[i][2])):
            if a != b:
                diffs.append({"case": gen.model_driver_line(c), "janet": gen.model_janet_line(i, c), "field": fld, "model": a, "impl": b})
        unary_minus = c[0] == "SUBTRACT" and len(c[2]) == 1
        if impl[i][1] != impl[i][2] and not unary_minus:
            direct.append((i, c, impl[i]))
    if crashed:
        msg = "model correspondence: implementation run crashed: %s" % crashed[0][-300:]
        broken.append(msg)
        ctx.broken.append(msg)
    if diffs:
        msg = "correspondence Spec model / implementation: %d differing fields, first %r" % (len(diffs), diffs[0])
        broken.append(msg)
        ctx.broken.append(msg)
    for i, c, im in direct[:3]:
        ctx.violation("route-diff:%s/%d:register-constant-pattern" % (c[1], len(c[2])),
                      {"kind": "model-case", "janet": gen.model_janet_line(i, c), "inline_outcome": im[1], "generic_outcome": im[2], "emitted": im[0],
                       "how": "append the janet line to harness/C15/routes.janet + gen.PRELUDE_DEFS + harness/C15/emit.janet and run it"},
                      what="%s: inline call gives %s, generic call gives %s" % (gen.model_janet_line(i, c), im[1][:100], im[2][:100]))
    return {"model_correspondence_cases": len(cases), "model_correspondence_completed": len(impl), "model_correspondence_diffs": len(diffs),
            "model_correspondence_first_diffs": diffs[:5], "evaluations": 3 * len(impl), "distinct_nontrivial": len(set(gen.model_driver_line(c) for c in cases)),
            "model_correspondence_samples": [gen.model_driver_line(cases[i]) for i in (1, len(cases) // 2, len(cases) - 1)]}
