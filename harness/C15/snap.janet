# C15 snapshot-chain correspondence (appended after routes.janet): variadic arithmetic whose operands are parameters (:v), `var` locals
# initialised from a parameter (:m) or constants (numbers) - print the real compiler's full instruction list.
(defn S [idx f kinds]
  (def ps @[])
  (def body @[])
  (def ops @[])
  (var pi 0)
  (each k kinds
    (cond
      (= k :v) (do (def p (symbol "a" pi)) (array/push ps p) (array/push ops p) (++ pi))
      (= k :m) (do (def p (symbol "a" pi)) (def m (symbol "m" pi))
                 (array/push ps p) (array/push body (tuple 'var m p)) (array/push ops m) (++ pi))
      (array/push ops k)))
  (def form (mkfn ps ;body (tuple f ;ops)))
  (def c (compile form ENV :c15))
  (def bc (if (function? c) (disasm (c) :bytecode) []))
  (print idx " SNAP " (string/join (map (fn [ins] (string/join (map string ins) ":")) bc) ",")))
