# C15 route-equivalence harness (prelude).  checks/C15.py appends generated `(C idx f "name" shared? (fn [] [operands...]))`
# lines and runs the whole file with the asan variant of the tree under test.
#
# For one case (function f, fresh operand tuple) every call route is compiled and run; each run yields an *outcome*
#   trace  = sequence of (fiber status, canonical value) obtained by resuming the fiber that makes the call until it is dead
#   log    = calls of operator methods (:+ :r+ ...) on instrumented tables and argument evaluation order marks, in order
# All routes must give the outcome of the reference route (f passed as a first-class function parameter, i.e. the generic
# template / fixed asm body run by the VM), after the transformation that belongs to the route (if/while: truthiness,
# drop: value discarded).  One output line per case:  "<idx> OK <class>"  or  "<idx> DIFF <route> <ref> <got>".

(def LOG @[])
# run by every operator method after it logged its call: the `var-clobber` route lets it assign to the caller's operand variables
(var HOOK nil)
(var ARGS [])
# top-level variables (JANET_SLOT_REF operands) of the `var-clobber-top` route
(var TOPV0 nil) (var TOPV1 nil) (var TOPV2 nil) (var TOPV3 nil) (var TOPV4 nil) (var TOPV5 nil) (var TOPV6 nil) (var TOPV7 nil)
(var tab-counter 0)

(defn fmtnum [x]
  (cond
    (not= x x) "nan"
    (and (= x 0) (< (/ 1 x) 0)) "-0"
    (string/format "%.17g" x)))

(defn strip-addr [s]
  # "<function 0x55AA...>" and friends -> stable text
  (def b @"")
  (var i 0)
  (def n (length s))
  (while (< i n)
    (if (and (< (+ i 1) n) (= (in s i) 48) (= (in s (+ i 1)) 120))
      (do
        (buffer/push b "0x?")
        (+= i 2)
        (while (and (< i n)
                    (let [c (in s i)] (or (and (>= c 48) (<= c 57)) (and (>= c 65) (<= c 70)) (and (>= c 97) (<= c 102)))))
          (++ i)))
      (do (buffer/push-byte b (in s i)) (++ i))))
  (string b))

(var canon nil)
(var canon-depth 0)
(defn canon-kvs [x]
  (def items (seq [[k v] :pairs x] (string (canon k) "=>" (canon v))))
  (string/join (sort items) " "))

(defn canon1 [x]
  (case (type x)
    :number (fmtnum x)
    :nil "nil"
    :boolean (string x)
    :string (string/format "%j" x)
    :buffer (string "@" (string/format "%j" (string x)))
    :keyword (string ":" x)
    :symbol (string "'" x)
    :table (if (get x :id) (string "T<" (get x :id) ">") (string "@{" (canon-kvs x) "}"))
    :struct (string "{" (canon-kvs x) "}")
    :array (string "@[" (string/join (map canon x) " ") "]")
    :tuple (string "[" (string/join (map canon x) " ") "]")
    :fiber (string "fiber:" (fiber/status x))
    :function (string "fn:" (or (disasm x :name) "anon"))
    :cfunction "cfn"
    :core/s64 (string "s64:" x)
    :core/u64 (string "u64:" x)
    (string "<" (type x) ">")))

(varfn canon [x]
  # cyclic structures (a specialisation bug can produce them) must not hang the harness
  (if (> canon-depth 5)
    "<deep>"
    (do
      (++ canon-depth)
      (def r (canon1 x))
      (-- canon-depth)
      r)))

(def method-names
  ["+" "-" "*" "/" "div" "mod" "%" "&" "|" "^" "<<" ">>" ">>>"])

# table with operator methods; every method logs its call and returns a new instrumented table whose id is the
# call expression, so the canonical result of a chain spells out which methods ran with which arguments
(defn mk-tab [id &opt only]
  (def t @{:id id})
  (each m method-names
    (each pre ["" "r"]
      (def name (string pre m))
      (when (or (nil? only) (index-of name only))
        (put t (keyword name)
             (fn [a b]
               (def e (string name "(" (canon a) "," (canon b) ")"))
               (array/push LOG e)
               (when HOOK (HOOK))
               (mk-tab e only))))))
  (when (or (nil? only) (index-of "~" only))
    (put t (keyword "~") (fn [a] (def e (string "~(" (canon a) ")")) (array/push LOG e) (mk-tab e only))))
  t)

(defn arg [i]
  (array/push LOG (string "arg" i))
  (in ARGS i))

# ------------------------------------------------------------------ error classes
(defn errclass [v]
  (if (not (string? v))
    (string "E:val:" (canon v))
    (cond
      (string/find "could not find method" v)
      (let [i (+ (string/find "method :" v) 8)
            j (string/find " for " v i)]
        (string "E:nomethod:" (string/slice v i j)))
      (or (string/find " called with " v) (string/find " expects at " v) (string/find " expects 1 " v))
      "E:arity"
      (string "E:" (strip-addr v)))))

# ------------------------------------------------------------------ running one route
(def QUOTE-TYPES {:tuple true :array true :table true :struct true :symbol true :buffer true})
(defn q [x] (if (QUOTE-TYPES (type x)) (tuple 'quote x) x))

(defn run-fun [fun args]
  (def marker @[])   # unique: distinguishes a normal return from the fiber being ended early by (propagate x dead-fiber)
  (def fib (fiber/new (fn [] [marker (fun ;args)]) :a))
  (def trace @[])
  (var v (resume fib))
  (var n 0)
  (forever
    (var st (fiber/status fib))
    (when (= st :dead)
      (if (and (tuple? v) (= 2 (length v)) (= marker (in v 0)))
        (set v (in v 1))
        (set st :dead-early)))
    (array/push trace [st (if (= st :error) (errclass v) (canon v))])
    (when (or (= st :dead) (= st :dead-early) (= st :error) (>= n 3)) (break))
    (++ n)
    (set v (resume fib (keyword "r" n))))
  trace)

(def ENV (curenv))

(defn outcome [form args &opt operands]
  "compile `form` (a (fn ...) expression), call the resulting function on args; post = operands after the call"
  (array/clear LOG)
  (set HOOK nil)
  (def c (compile form ENV :c15))
  (def trace
    (if (function? c)
      (run-fun (c) args)
      @[[:error (errclass (c :error))]]))
  (def log (string/join LOG ";"))
  [trace log (if operands (canon operands) "")])

(defn show [[trace log post]]
  (string (string/join (map (fn [[st v]] (string st "=" v)) trace) ",") "|" log "|" post))

# ------------------------------------------------------------------ routes
(defn psyms [n] (seq [i :range [0 n]] (symbol "a" i)))
(defn mkfn [ps & body] (tuple 'fn (tuple/brackets ;ps) ;body))

(defn truthy-xform [trace]
  # value used as a condition: final value becomes :T / :F
  (def t (array/slice trace))
  (def [st v] (last t))
  (when (= st :dead)
    (put t (- (length t) 1) [st (if (or (= v "nil") (= v "false")) ":F" ":T")]))
  t)

(defn drop-xform [trace]
  (def t (array/slice trace))
  (def [st v] (last t))
  (when (= st :dead) (put t (- (length t) 1) [st ":dropped"]))
  t)

(defn nil-xform [trace]
  # value tested with (= nil v) / (not= nil v): final value becomes :N / :V
  (def t (array/slice trace))
  (def [st v] (last t))
  (when (= st :dead)
    (put t (- (length t) 1) [st (if (= v "nil") ":N" ":V")]))
  t)

# unused bindings: loads into registers nothing reads; movopt turns them into noops and remove_noops deletes them, so every jump
# across them (here: the specialised nil tests jmpnn / jmpni of `if` / `while`) must be re-targeted
(def DEAD ['(def dead1 :d1) '(def dead2 "d2") '(def dead3 3) '(def dead4 [4]) '(def dead5 nil) '(def dead6 dead1) '(def dead7 7)])

(defn strip-args [log]
  (string/join (filter (fn [e] (not (string/has-prefix? "arg" e))) (string/split ";" log)) ";"))

(defn arg-marks [log]
  (string/join (filter (fn [e] (string/has-prefix? "arg" e)) (string/split ";" log)) ";"))

(def FAR-PAD (seq [i :range [0 260]] (tuple 'def (symbol "pad" i) i)))

(defmacro add [rn form cargs &opt xf] ~(array/push r [,rn (fn [args] [,form ,cargs]) ,(or xf identity)]))

(defn routes [f name n]
  "list of [route-name builder xform]; builder: operand tuple -> [form call-args]"
  (def ps (psyms n))
  (def fsym (symbol name))
  (def r @[])
  # inline: function value / symbol in head position, operands in local slots
  (add "inline" (mkfn ps (tuple f ;ps)) args)
  (add "inline-sym" (mkfn ps (tuple fsym ;ps)) args)
  # constant operands (small integers become immediates)
  (add "const" (mkfn [] (tuple f ;(map q args))) [])
  # alternate constant / variable operands
  (add "mixed-a" (mkfn ps (tuple f ;(seq [i :range [0 n]] (if (even? i) (in ps i) (q (in args i)))))) args)
  (add "mixed-b" (mkfn ps (tuple f ;(seq [i :range [0 n]] (if (odd? i) (in ps i) (q (in args i)))))) args)
  # apply (inline apply specialisation, and the generic apply template as a first-class value)
  (add "apply-inline" (mkfn ps (tuple apply f (tuple/brackets ;ps))) args)
  (when (> n 0)
    (add "apply-split" (mkfn ps (tuple apply f (first ps) (tuple/brackets ;(slice ps 1)))) args))
  (add "apply-generic" (mkfn ['ap 'g ;ps] (tuple 'ap 'g (tuple/brackets ;ps))) [apply f ;args])
  (add "apply-apply" (mkfn ['g ;ps] (tuple apply apply (tuple/brackets 'g (tuple/brackets ;ps)))) [f ;args])
  # splice
  (add "splice" (mkfn ['xs] (tuple f (tuple 'splice 'xs))) [args])
  (when (> n 0)
    (add "splice-tail" (mkfn ['x 'xs] (tuple f 'x (tuple 'splice 'xs))) [(first args) (tuple/slice args 1)]))
  # first-class value
  (add "var-alias" (mkfn ps (tuple 'var 'g f) (tuple 'g ;ps)) args)
  (add "def-alias" (mkfn ps (tuple 'def 'g f) (tuple 'g ;ps)) args)
  (add "closure" (mkfn ps (tuple (mkfn [] (tuple f ;ps)))) args)
  (when (> n 0)
    (add "map" (mkfn ps (tuple 'in (tuple map f ;(map (fn [p] (tuple/brackets p)) ps)) 0)) args))
  # value position variants
  (add "nontail" (mkfn ps (tuple 'def 'r (tuple f ;ps)) 'r) args)
  (add "drop" (mkfn ps (tuple f ;ps) :dropped) args drop-xform)
  (add "drop-const" (mkfn [] (tuple f ;(map q args)) :dropped) [] drop-xform)
  # operands and result in far registers (> 255): exercises movf / movn and their treatment by the clean-up passes
  (add "far"
       (mkfn ps ;FAR-PAD
             ;(seq [i :range [0 n]] (tuple 'var (symbol "x" i) (in ps i)))
             (tuple 'def 'r (tuple f ;(seq [i :range [0 n]] (symbol "x" i))))
             'r)
       args)
  # result assigned to a variable that is also an operand (target slot aliases an argument)
  (each k (distinct [0 1 (- n 1)])
    (when (and (>= k 0) (< k n)
               # shifts: a clobbered operand becomes an out-of-range shift count = C undefined behaviour (UBSan abort); the
               # aliasing routes are exercised through every other function
               (not (and (> k 0) (index-of name ["blshift" "brshift" "brushift"]))))
      (add (string "set-arg" k)
           (mkfn ps (tuple 'var 'x (in ps k))
                 (tuple 'set 'x (tuple f ;(seq [i :range [0 n]] (if (= i k) 'x (in ps i)))))
                 'x)
           args)))
  # operands held in variables that an operator method (janet code, run by the VM in the middle of the emitted chain) assigns to: a call
  # reads all its arguments before the function runs, so the assignments must not be visible to the later steps of the chain
  (when (> n 0)
    (add "var-clobber"
         (mkfn ps ;(seq [i :range [0 n]] (tuple 'var (symbol "x" i) (in ps i)))
               (tuple 'set 'HOOK (tuple 'fn [] ;(seq [i :range [0 n]] (tuple 'set (symbol "x" i) :clobbered))))
               (tuple 'def 'r (tuple f ;(seq [i :range [0 n]] (symbol "x" i))))
               '(set HOOK nil)
               'r)
         args)
    # the same with the call inside a closure: there the operand variables are UPVALUE slots (loaded by `ldu` when an instruction needs them)
    # ... and with the operands in TOP-LEVEL variables (JANET_SLOT_REF slots: read through the reference array by `ldc; geti`)
    (when (<= n 8)
      (add "var-clobber-top"
           (mkfn ps ;(seq [i :range [0 n]] (tuple 'set (symbol "TOPV" i) (in ps i)))
                 (tuple 'set 'HOOK (tuple 'fn [] ;(seq [i :range [0 n]] (tuple 'set (symbol "TOPV" i) :clobbered))))
                 (tuple 'def 'r (tuple f ;(seq [i :range [0 n]] (symbol "TOPV" i))))
                 '(set HOOK nil)
                 'r)
           args))
    (add "var-clobber-up"
         (mkfn ps ;(seq [i :range [0 n]] (tuple 'var (symbol "x" i) (in ps i)))
               (tuple 'set 'HOOK (tuple 'fn [] ;(seq [i :range [0 n]] (tuple 'set (symbol "x" i) :clobbered))))
               (tuple 'def 'r (tuple (tuple 'fn [] (tuple f ;(seq [i :range [0 n]] (symbol "x" i))))))
               '(set HOOK nil)
               'r)
         args))
  # conditions
  (defn nilc [args] (seq [i :range [0 n]] (if (nil? (in args i)) nil (in ps i))))
  (add "if" (mkfn ps (tuple 'if (tuple f ;ps) :T :F)) args truthy-xform)
  (add "if-nilconst" (mkfn ps (tuple 'if (tuple f ;(nilc args)) :T :F)) args truthy-xform)
  (add "if-const" (mkfn [] (tuple 'if (tuple f ;(map q args)) :T :F)) [] truthy-xform)
  (add "while" (mkfn ps '(var r :F) (tuple 'while (tuple f ;ps) '(set r :T) '(break)) 'r) args truthy-xform)
  (add "while-nilconst" (mkfn ps '(var r :F) (tuple 'while (tuple f ;(nilc args)) '(set r :T) '(break)) 'r) args truthy-xform)
  (add "while-const" (mkfn [] '(var r :F) (tuple 'while (tuple f ;(map q args)) '(set r :T) '(break)) 'r) [] truthy-xform)
  (add "if-const-nobranch" (mkfn [] (tuple 'if (tuple f ;(map q args)) :T)) []
       (fn [tr] (def t (truthy-xform tr)) (def [st v] (last t)) (when (and (= st :dead) (= v ":F")) (put t (- (length t) 1) [st "nil"])) t))
  (add "not-if" (mkfn ps (tuple 'if (tuple 'not (tuple f ;ps)) :F :T)) args truthy-xform)
  # the value of the call tested by the specialised nil conditions (= nil v) / (= v nil) / (not= nil v) of if / while, with unused
  # bindings in the guarded branch / loop body (their removal shifts the jump targets) and live code after the join point
  (add "ifnil-dead"
       (mkfn ps (tuple 'def 'v (tuple f ;ps))
             (tuple 'def 'r (tuple 'if (tuple = nil 'v) (tuple 'do ;DEAD :N) :V))
             '(def after @[r]) '(in after 0))
       args nil-xform)
  (add "ifnil2-dead"
       (mkfn ps (tuple 'def 'v (tuple f ;ps))
             # (live code after the jump target, so that a mis-targeted jump lands inside the function)
             (tuple 'if (tuple = 'v nil) (tuple 'do ;DEAD :N) '(do (def e1 @[:V]) (def e2 @[e1]) (in (in e2 0) 0))))
       args nil-xform)
  (add "ifnotnil-dead"
       (mkfn ps (tuple 'def 'v (tuple f ;ps))
             (tuple 'def 'r (tuple 'if (tuple not= nil 'v) (tuple 'do ;DEAD :V) :N))
             '(def after @[r]) '(in after 0))
       args nil-xform)
  (add "whilenil-dead"
       (mkfn ps (tuple 'var 'x (tuple f ;ps)) '(var r :V) '(var n 0)
             (tuple 'while (tuple = nil 'x) ;DEAD '(set r :N) '(++ n) '(set x n))
             '(def after @[r n]) '(if (< (in after 1) 2) (in after 0) :looped-twice))
       args nil-xform)
  (add "whilenotnil-dead"
       (mkfn ps (tuple 'var 'x (tuple f ;ps)) '(var r :N) '(var n 0)
             (tuple 'while (tuple not= nil 'x) ;DEAD '(set r :V) '(++ n) '(set x nil))
             '(def after @[r n]) '(if (< (in after 1) 2) (in after 0) :looped-twice))
       args nil-xform)
  (add "ifnotnil2-dead"
       (mkfn ps (tuple 'def 'v (tuple f ;ps))
             (tuple 'def 'r (tuple 'if (tuple not= 'v nil) (tuple 'do ;DEAD :V) :N))
             '(def after @[r]) '(in after 0))
       args nil-xform)
  # the four nil-test forms as `while` condition around a body that CREATES A CLOSURE: janetc_while throws the loop away and recompiles it
  # as a tail-recursive function (while-iife) whose guard - a jump over `retn`, opposite sense - is emitted at a second site
  (each [rn cnd stay] [["whilenil-clo" (tuple = nil 'x) :N] ["whilenil2-clo" (tuple = 'x nil) :N]
                       ["whilenotnil-clo" (tuple not= nil 'x) :V] ["whilenotnil2-clo" (tuple not= 'x nil) :V]]
    (add rn
         (mkfn ps (tuple 'var 'x (tuple f ;ps)) (tuple 'var 'r (if (= stay :N) :V :N)) '(var n 0) '(def fns @[])
               (tuple 'while cnd '(def y n) '(array/push fns (fn [] y)) (tuple 'set 'r stay) '(++ n)
                      (tuple 'set 'x (if (= stay :N) 'n nil)))
               '(if (and (< n 2) (= n (length fns)) (= n (length (map (fn [g] (g)) fns)))) r [:looped n (length fns)]))
         args nil-xform))
  # the iteration macros of boot.janet expand to `(while (<function not=> nil k) ...)` over the keys of the data structure: a key
  # `false` (or any non-nil key) must be visited, with and without a closure created per element
  (def mkds {:table (tuple table 'v :x) :struct (tuple struct 'v :x)})
  (each [rn ds head clo] [["each-clo" :table '(each e ds) true] ["eachk-clo" :table '(eachk e ds) true]
                          ["eachp-clo" :struct '(eachp e ds) true] ["loop-in-clo" :struct '(loop [e :in ds]) true]
                          ["loop-keys-clo" :struct '(loop [e :keys ds]) true] ["loop-pairs-clo" :table '(loop [[e e2] :pairs ds]) true]
                          ["eachk-noclo" :table '(eachk e ds) false] ["loop-pairs-noclo" :struct '(loop [[e e2] :pairs ds]) false]]
    (add rn
         (mkfn ps (tuple 'def 'v (tuple f ;ps)) (tuple 'def 'ds (mkds ds)) '(def fns @[])
               (tuple ;head (if clo '(array/push fns (fn [] e)) '(array/push fns e)))
               '(if (= (length fns) (length ds)) v [:iteration-stopped-early (length fns) (length ds)]))
         args))
  r)

(var ncase 0)
(defn C [idx f name shared mk]
  (++ ncase)
  (def shared-ops (if shared (mk)))
  (defn ops [] (if shared shared-ops (mk)))
  (def args0 (ops))
  (def n (length args0))
  (def ps (psyms n))
  # reference: f is a parameter -> generic call of the template / asm body
  (def ref (outcome (mkfn ['g ;ps] (tuple 'g ;ps)) [f ;args0] args0))
  (def [rtrace rlog rpost] ref)
  (def bads @[])
  (each [rn build xf] (routes f name n)
    # fresh operands for every route unless shared (put mutates; comparisons of reference types need identity)
    (def a (ops))
    (def [form cargs] (build a))
    (def got (outcome form cargs a))
    (def want [(xf rtrace) rlog rpost])
    (unless (= (show got) (show want))
      (var tag "DIFF")
      # shape of the unary-minus finding: the route computed  x * -1  where the generic template computes  0 - x
      (when (and (= name "-") (= n 1))
        (def a2 (ops))
        (def [mt ml mp] (outcome (mkfn ['g 'a0] (tuple 'g 'a0 -1)) [* ;a2] a2))
        (when (= (show got) (show [(xf mt) ml mp]))
          (set tag "DIFF-UNARY-MINUS-MUL")))
      (array/push bads [tag rn (show want) (show got)])))
  # argument evaluation order: operands produced by calls that log their position
  (do
    (set ARGS (ops))
    (def argcalls (seq [i :range [0 n]] (tuple arg i)))
    (def o1 (outcome (mkfn [] (tuple f ;argcalls)) [] ARGS))
    (set ARGS (ops))
    (def o2 (outcome (mkfn ['g] (tuple 'g ;argcalls)) [f] ARGS))
    (set ARGS (ops))
    (def o3 (outcome (mkfn [] (tuple apply f (tuple/brackets ;argcalls))) [] ARGS))
    (def expect-marks (string/join (seq [i :range [0 n]] (string "arg" i)) ";"))
    (each [rn o] [["argorder-inline" o1] ["argorder-firstclass" o2] ["argorder-apply" o3]]
      (def [tr lg po] o)
      (def compile-err (and (= 1 (length tr)) (= "E:arity" (get-in tr [0 1])) (= lg "")))
      (unless (and (= (show [tr (strip-args lg) po]) (show ref))
                   (or compile-err (= (arg-marks lg) expect-marks))
                   # all argument marks precede every method call
                   (or compile-err (string/has-prefix? expect-marks lg)))
        (var tag "DIFF")
        (when (and (= name "-") (= n 1) (= rn "argorder-inline")) (set tag "DIFF-UNARY-MINUS-MUL"))
        (array/push bads [tag rn (string (show ref) " args:" expect-marks) (show o)]))))
  (each [tag rn want got] bads
    (print idx " " tag " " rn " REF " want " GOT " got))
  (print idx (if (empty? bads) " OK " " BAD ") (show ref))
  (when (= 0 (% ncase 20)) (file/flush stdout)))
