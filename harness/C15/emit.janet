# C15 model correspondence (appended after routes.janet): for one call with a given register / constant operand pattern
# print the real compiler's instruction list, the outcome of the inline call and the outcome of the generic call.
(defn show2 [[trace log]]
  (string (string/join (map (fn [[st v]] (string st "=" v)) trace) ",") "|" log))

(defn D [idx f kinds mk]
  (def args (mk))
  (def n (length args))
  (def ps (psyms n))
  (def vars (seq [i :range [0 n] :when (= (in kinds i) :v)] (in ps i)))
  (def vvals (seq [i :range [0 n] :when (= (in kinds i) :v)] (in args i)))
  (def form (mkfn vars (tuple f ;(seq [i :range [0 n]] (if (= (in kinds i) :v) (in ps i) (q (in args i)))))))
  (def c (compile form ENV :c15))
  (def bc (if (function? c) (disasm (c) :bytecode) []))
  (def inl (outcome form vvals))
  (def a2 (mk))
  (def gen (outcome (mkfn ['g ;ps] (tuple 'g ;ps)) [f ;a2]))
  (print idx " OPS " (string/join (map (fn [ins] (string/join (map string ins) ":")) bc) ",")
         " INLINE " (show2 inl) " GENERIC " (show2 gen)))
