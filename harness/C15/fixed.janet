# C15 fixed-arity emit correspondence (stand-alone): the real compiler's instruction list for a specialised fixed-arity call in value
# position with its operands in the parameter registers 0..n-1:
#   (FX idx f n false)   (fn [a0 .. an-1] (def r (f a0 ..)) r)                       target = fresh register n
#   (FX idx f n true)    (fn [a0 .. an-1] (var x an-1) (set x (f a0 .. x)) x)        target = register of the last operand (x, register n)
(defn- psyms [n] (seq [i :range [0 n]] (symbol "a" i)))
(defn FX [idx f n alias]
  (def ps (psyms n))
  (def form
    (if alias
      ~(fn [,;ps] (var x ,(last ps)) (set x (,f ,;(slice ps 0 (- n 1)) x)) x)
      ~(fn [,;ps] (def r (,f ,;ps)) r)))
  (def c (compile form (make-env root-env) :c15))
  (if (function? c)
    (print idx " OPS " (string/join (map (fn [ins] (string/join (map string ins) ":")) (disasm (c) :bytecode)) ","))
    (print idx " COMPILE-ERROR " (c :error))))
