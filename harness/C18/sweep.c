/* C18 dynamic sweep harness: embeds janet (links the variant's libjanet.a), runs one janet script, and logs every
 * sensitive libc call made by the runtime together with the sandbox flag word IN FORCE IN THE CALLING THREAD at the moment
 * of the call (janet_vm is thread local and directly readable; no hook needed).  Interposition is done at link time with
 * -Wl,--wrap=<sym> (tools: checks/C18.py passes the list), so only calls made by janet's own objects are seen.
 * fork/exec* are logged and refused (the sweep must not duplicate or replace itself).
 * Log line:  <mark>\t<vm|novm>\t<flags hex>\t<call>\t<detail>\n    (one write(2) each, O_APPEND) */
#define _GNU_SOURCE
#include <janet.h>
#include "state.h"
#include <stdio.h>
#include <stdlib.h>
#include <string.h>
#include <stdarg.h>
#include <errno.h>
#include <fcntl.h>
#include <unistd.h>
#include <dirent.h>
#include <dlfcn.h>
#include <signal.h>
#include <time.h>
#include <utime.h>
#include <spawn.h>
#include <sys/stat.h>
#include <sys/socket.h>
#include <sys/mman.h>
#include <netdb.h>
#include <pthread.h>

static int g_logfd = -1;
static volatile int g_mark = -1;
static volatile uint32_t g_main_flags = 0;
static char g_dir[512];

int __real_open64(const char *p, int fl, ...);
int __real_open(const char *p, int fl, ...);

/* set by every logged call that can touch the file system / environment / cwd; c18/restore rebuilds the marker files only
 * then (and every 64th time regardless): ~30 syscalls per call of a core binding were most of the sweep's run time */
static pthread_t g_sweeper;
static volatile int g_have_sweeper = 0;
static volatile int g_dirty = 1;
static int g_restores = 0;

static void logcall(const char *name, const char *fmt, ...) {
    if (g_logfd < 0) return;
    if (strcmp(name, "MARK") && strcmp(name, "clock_gettime") && strcmp(name, "mmap") && strcmp(name, "mmap64") &&
        strcmp(name, "mprotect") && strcmp(name, "getenv") && strcmp(name, "sigaction") && strcmp(name, "dlsym")) g_dirty = 1;
    char buf[1400], det[1100];
    va_list ap;
    va_start(ap, fmt);
    vsnprintf(det, sizeof det, fmt, ap);
    va_end(ap);
    for (char *c = det; *c; c++) if (*c == '\n' || *c == '\t') *c = ' ';
    int vm = janet_vm.cache != NULL;
    uint32_t fl = vm ? janet_vm.sandbox_flags : g_main_flags;
    /* "vm" = the thread that runs the sweep (the one that calls c18/mark; in the thread modes that IS the thread started after
     * sandboxing); "vm2" = any other janet thread (started by a binding under test; its start-up runs with word 0 until the
     * parent's word is copied in); "novm" = worker threads without a VM */
    const char *who = !vm ? "novm" : (g_have_sweeper && pthread_equal(pthread_self(), g_sweeper)) ? "vm" : "vm2";
    int n = snprintf(buf, sizeof buf, "%d\t%s\t%x\t%s\t%s\n", g_mark, who, fl, name, det);
    int e = errno;
    if (write(g_logfd, buf, n) < 0) {}
    errno = e;
}

#define S(p) ((p) ? (p) : "(null)")
#define WRAP_P1(ret, name) ret __real_##name(const char *a); ret __wrap_##name(const char *a) { logcall(#name, "%s", S(a)); return __real_##name(a); }
#define WRAP_P2(ret, name) ret __real_##name(const char *a, const char *b); ret __wrap_##name(const char *a, const char *b) { logcall(#name, "%s %s", S(a), S(b)); return __real_##name(a, b); }
WRAP_P1(int, remove) WRAP_P1(int, unlink) WRAP_P1(int, rmdir) WRAP_P1(int, chdir) WRAP_P1(DIR *, opendir)
WRAP_P1(char *, getenv) WRAP_P1(int, unsetenv)
WRAP_P2(int, rename) WRAP_P2(int, link) WRAP_P2(int, symlink)
int __real_system(const char *a); int __wrap_system(const char *a) { logcall("system", "%s", S(a)); return __real_system(a); }
int __real_mkdir(const char *a, mode_t m); int __wrap_mkdir(const char *a, mode_t m) { logcall("mkdir", "%s", S(a)); return __real_mkdir(a, m); }
int __real_chmod(const char *a, mode_t m); int __wrap_chmod(const char *a, mode_t m) { logcall("chmod", "%s", S(a)); return __real_chmod(a, m); }
int __real_utime(const char *a, const struct utimbuf *t); int __wrap_utime(const char *a, const struct utimbuf *t) { logcall("utime", "%s", S(a)); return __real_utime(a, t); }
#define WRAP_STAT(name) int __real_##name(const char *a, void *st); int __wrap_##name(const char *a, void *st) { logcall(#name, "%s", S(a)); return __real_##name(a, st); }
WRAP_STAT(stat) WRAP_STAT(stat64) WRAP_STAT(lstat) WRAP_STAT(lstat64)
ssize_t __real_readlink(const char *a, char *b, size_t n); ssize_t __wrap_readlink(const char *a, char *b, size_t n) { logcall("readlink", "%s", S(a)); return __real_readlink(a, b, n); }
char *__real_realpath(const char *a, char *b); char *__wrap_realpath(const char *a, char *b) { logcall("realpath", "%s", S(a)); return __real_realpath(a, b); }
#define WRAP_OPEN(name) int __wrap_##name(const char *p, int fl, ...) { mode_t m = 0; if (fl & (O_CREAT | O_TMPFILE)) { va_list ap; va_start(ap, fl); m = va_arg(ap, mode_t); va_end(ap); } \
    logcall(#name, "%s acc=%d creat=%d trunc=%d append=%d", S(p), fl & O_ACCMODE, !!(fl & O_CREAT), !!(fl & O_TRUNC), !!(fl & O_APPEND)); return __real_##name(p, fl, m); }
WRAP_OPEN(open) WRAP_OPEN(open64)
#define WRAP_FOPEN(name) FILE *__real_##name(const char *p, const char *m); FILE *__wrap_##name(const char *p, const char *m) { logcall(#name, "%s mode=%s", S(p), S(m)); return __real_##name(p, m); }
WRAP_FOPEN(fopen) WRAP_FOPEN(fopen64)
#define WRAP_TMP(name) FILE *__real_##name(void); FILE *__wrap_##name(void) { logcall(#name, "-"); return __real_##name(); }
WRAP_TMP(tmpfile) WRAP_TMP(tmpfile64)
int __real_connect(int fd, const struct sockaddr *a, socklen_t l); int __wrap_connect(int fd, const struct sockaddr *a, socklen_t l) { logcall("connect", "fd family=%d", a ? a->sa_family : -1); return __real_connect(fd, a, l); }
int __real_bind(int fd, const struct sockaddr *a, socklen_t l); int __wrap_bind(int fd, const struct sockaddr *a, socklen_t l) { logcall("bind", "fd family=%d", a ? a->sa_family : -1); return __real_bind(fd, a, l); }
int __real_listen(int fd, int n); int __wrap_listen(int fd, int n) { logcall("listen", "fd"); return __real_listen(fd, n); }
int __real_getaddrinfo(const char *n, const char *s, const struct addrinfo *h, struct addrinfo **r);
int __wrap_getaddrinfo(const char *n, const char *s, const struct addrinfo *h, struct addrinfo **r) { logcall("getaddrinfo", "%s %s", S(n), S(s)); return __real_getaddrinfo(n, s, h, r); }
pid_t __wrap_fork(void) { logcall("fork", "refused"); errno = ENOSYS; return -1; }
int __wrap_execv(const char *p, char *const argv[]) { (void) argv; logcall("execv", "%s refused", S(p)); errno = EACCES; return -1; }
int __wrap_execvp(const char *p, char *const argv[]) { (void) argv; logcall("execvp", "%s refused", S(p)); errno = EACCES; return -1; }
int __real_posix_spawn(pid_t *pid, const char *p, const posix_spawn_file_actions_t *fa, const posix_spawnattr_t *at, char *const argv[], char *const envp[]);
int __wrap_posix_spawn(pid_t *pid, const char *p, const posix_spawn_file_actions_t *fa, const posix_spawnattr_t *at, char *const argv[], char *const envp[]) { logcall("posix_spawn", "%s", S(p)); return __real_posix_spawn(pid, p, fa, at, argv, envp); }
int __real_posix_spawnp(pid_t *pid, const char *p, const posix_spawn_file_actions_t *fa, const posix_spawnattr_t *at, char *const argv[], char *const envp[]);
int __wrap_posix_spawnp(pid_t *pid, const char *p, const posix_spawn_file_actions_t *fa, const posix_spawnattr_t *at, char *const argv[], char *const envp[]) { logcall("posix_spawnp", "%s", S(p)); return __real_posix_spawnp(pid, p, fa, at, argv, envp); }
int __real_setenv(const char *n, const char *v, int o); int __wrap_setenv(const char *n, const char *v, int o) { logcall("setenv", "%s", S(n)); return __real_setenv(n, v, o); }
void *__real_dlopen(const char *p, int fl); void *__wrap_dlopen(const char *p, int fl) { logcall("dlopen", "%s", S(p)); return __real_dlopen(p, fl); }
void *__real_dlsym(void *h, const char *n); void *__wrap_dlsym(void *h, const char *n) { logcall("dlsym", "%s", S(n)); return __real_dlsym(h, n); }
void *__real_mmap64(void *a, size_t l, int pr, int fl, int fd, off_t o); void *__wrap_mmap64(void *a, size_t l, int pr, int fl, int fd, off_t o) { logcall("mmap64", "prot=%d", pr); return __real_mmap64(a, l, pr, fl, fd, o); }
void *__real_mmap(void *a, size_t l, int pr, int fl, int fd, off_t o); void *__wrap_mmap(void *a, size_t l, int pr, int fl, int fd, off_t o) { logcall("mmap", "prot=%d", pr); return __real_mmap(a, l, pr, fl, fd, o); }
int __real_mprotect(void *a, size_t l, int pr); int __wrap_mprotect(void *a, size_t l, int pr) { logcall("mprotect", "prot=%d", pr); return __real_mprotect(a, l, pr); }
int __real_sigaction(int s, const struct sigaction *a, struct sigaction *o); int __wrap_sigaction(int s, const struct sigaction *a, struct sigaction *o) { logcall("sigaction", "sig=%d", s); return __real_sigaction(s, a, o); }
int __real_clock_gettime(clockid_t c, struct timespec *t); int __wrap_clock_gettime(clockid_t c, struct timespec *t) { logcall("clock_gettime", "clk=%d", (int) c); return __real_clock_gettime(c, t); }
int __real_inotify_add_watch(int fd, const char *p, uint32_t m); int __wrap_inotify_add_watch(int fd, const char *p, uint32_t m) { logcall("inotify_add_watch", "%s", S(p)); return __real_inotify_add_watch(fd, p, m); }

/* ---- helpers callable from the script ---- */
static Janet c18_mark(int32_t argc, Janet *argv) {
    janet_fixarity(argc, 2);
    g_sweeper = pthread_self();
    g_have_sweeper = 1;
    g_mark = janet_getinteger(argv, 0);
    g_main_flags = janet_vm.sandbox_flags;
    logcall("MARK", "%s", (const char *) janet_getstring(argv, 1));
    return janet_wrap_nil();
}
static Janet c18_flags(int32_t argc, Janet *argv) {
    (void) argv;
    janet_fixarity(argc, 0);
    return janet_wrap_number((double) janet_vm.sandbox_flags);
}
static void put(const char *name, const char *data) {
    char p[700];
    snprintf(p, sizeof p, "%s/%s", g_dir, name);
    int fd = __real_open64(p, O_WRONLY | O_CREAT | O_TRUNC, 0644);
    if (fd >= 0) { if (write(fd, data, strlen(data)) < 0) {} close(fd); }
}
int __real_mkdir(const char *a, mode_t m);
/* recreate the marker files (not logged, not subject to the sandbox: this is the test bench, not janet) */
static Janet c18_restore(int32_t argc, Janet *argv) {
    (void) argv;
    janet_fixarity(argc, 0);
    char p[700], q[700];
    if (!g_dirty && (++g_restores & 63)) return janet_wrap_nil();
    g_dirty = 0;
    put("m.txt", "marker\n"); put("m2.txt", "marker2\n"); put("m.janet", "(def marker-loaded 1)\n");
    snprintf(p, sizeof p, "%s/md", g_dir); __real_mkdir(p, 0755);
    snprintf(p, sizeof p, "%s/md2", g_dir); __real_mkdir(p, 0755);
    put("md/inner.txt", "inner\n");
    snprintf(p, sizeof p, "%s/ml", g_dir); snprintf(q, sizeof q, "%s/m.txt", g_dir);
    if (__real_symlink(q, p) < 0) {}
    const char *gone[] = {"n1", "n2", "n3", "n4", "n5"};
    for (int i = 0; i < 5; i++) { snprintf(p, sizeof p, "%s/%s", g_dir, gone[i]); if (__real_remove(p) < 0) { __real_rmdir(p); } }
    if (__real_chdir(g_dir) < 0) {}
    return janet_wrap_nil();
}
static const JanetReg c18_cfuns[] = {
    {"c18/mark", c18_mark, NULL}, {"c18/flags", c18_flags, NULL}, {"c18/restore", c18_restore, NULL}, {NULL, NULL, NULL}
};

int main(int argc, char **argv) {
    if (argc < 4) { fprintf(stderr, "usage: sweep script.janet logfile dir [args...]\n"); return 2; }
    g_logfd = __real_open64(argv[2], O_WRONLY | O_CREAT | O_APPEND, 0644);
    snprintf(g_dir, sizeof g_dir, "%s", argv[3]);
    janet_init();
    JanetTable *env = janet_core_env(NULL);
    janet_cfuns(env, NULL, c18_cfuns);
    JanetArray *args = janet_array(argc);
    for (int i = 3; i < argc; i++) janet_array_push(args, janet_cstringv(argv[i]));
    janet_table_put(env, janet_ckeywordv("args"), janet_wrap_array(args));
    janet_def(env, "c18-args", janet_wrap_array(args), NULL);
    FILE *f = fopen(argv[1], "rb");   /* harness's own read of the script: goes through the wrapper with mark -1 */
    if (!f) { perror(argv[1]); return 2; }
    fseek(f, 0, SEEK_END); long n = ftell(f); fseek(f, 0, SEEK_SET);
    char *src = malloc(n + 1);
    if (fread(src, 1, n, f) != (size_t) n) return 2;
    src[n] = 0; fclose(f);
    Janet out;
    int rc = janet_dobytes(env, (const uint8_t *) src, (int32_t) n, argv[1], &out);
    janet_loop();
    g_mark = -2;
    janet_deinit();
    return rc ? 3 : 0;
}
