# C18: the (sandbox & keywords) core function vs the Lean model `sandboxCfun` (driver command kwseq).
# c18-args = [dir scenario...]; scenario = call;call;...  call = k1,k2,... or - (no arguments).  Every scenario runs in a
# fresh thread (ev/thread: starts with the main thread's flag word, which stays 0) and prints
#   "k <index> <flag word after call 1|panic> <... call 2> ..."
(def [dir & scen] c18-args)
(defn run-one [[i s]]
  (def out @[])
  (each call (string/split ";" s)
    (def kws (if (= call "-") [] (map keyword (string/split "," call))))
    (array/push out (string (try (do (sandbox ;kws) (c18/flags)) ([e] :panic)))))
  (print "k " i " " (string/join out " ")))
(ev/go (fn []
  (eachp [i s] scen
    (ev/thread run-one [i s]))
  (print "main " (c18/flags))))
