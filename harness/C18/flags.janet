# C18: the flag word can only grow and is inherited by threads.  c18-args = [dir parent-masks spawn-index child-masks mode]
# prints one line per step:  "p <flags>|panic"  (parent after each (sandbox ...)),  "c0 <flags>" (child at start),
# "c <flags>|panic" (child after each of its own (sandbox ...)), "pe <flags>" (parent at the end)
(def [dir pm-s si-s cm-s mode] c18-args)
(def bits {1 :sandbox 2 :subprocess 4 :net-connect 8 :net-listen 16 :ffi-define 32 :fs-write 64 :fs-read 128 :hrtime
           256 :env 512 :modules 1024 :fs-temp 2048 :ffi-use 4096 :ffi-jit 8192 :signal})
(defn kws [m] (seq [[b k] :pairs bits :when (not= 0 (band m b))] k))
(defn nums [s] (if (= s "-") [] (map scan-number (string/split "," s))))
(defn apply-mask [tag m]
  (def r (try (do (sandbox ;(kws m)) (c18/flags)) ([e] :panic)))
  (print tag " " r))
(def pm (nums pm-s))
(def cm (nums cm-s))
(def si (scan-number si-s))
(defn child []
  (print "c0 " (c18/flags))
  (each m cm (apply-mask "c" m)))
(defn spawn-child []
  (if (= mode "thread")
    (ev/thread child)
    (do (def ch (ev/thread-chan 1)) (ev/spawn-thread (child) (ev/give ch 1)) (ev/take ch))))
# one task: a top-level form that suspends would let the following forms run early
(ev/go (fn []
  (eachp [i m] pm
    (when (= i si) (spawn-child))
    (apply-mask "p" m))
  (when (>= si (length pm)) (spawn-child))
  (print "pe " (c18/flags))))
