# C18 dynamic sweep (run by harness/C18/sweep.c).  c18-args = [dir caps mode start shard nshards level only]
#   level : full = every shape for every binding; quick = every shape for OS-facing bindings, two shapes for the rest
#   only  : * or comma separated binding names (witness synthesis)
#   caps  : comma separated capability keywords ("none" = no sandbox)
#   mode  : same | thread | spawn-thread      (where the bindings are called, relative to the (sandbox ...) call)
# Every function binding of the core environment is called with every argument shape below; each call is preceded by
# (c18/mark id "binding shape").  Objects that must exist before sandboxing (open file, watcher, listening socket,
# finished process) are created first and also used as arguments.
(def [dir caps-s mode start-s shard-s nshards-s level only-s] c18-args)
(def only (if (or (nil? only-s) (= only-s "*")) nil (tabseq [k :in (string/split "," only-s)] k true)))
(def start (scan-number start-s))
(def shard (scan-number shard-s))
(def nshards (scan-number nshards-s))
(def caps (if (= caps-s "none") [] (map keyword (string/split "," caps-s))))
(defn P [x] (string dir "/" x))
(c18/restore)

(def noop (fn [&] nil))
# handles acquired while still allowed (same-thread mode: before (sandbox ...); thread modes: handles cannot cross
# threads, so they are (attempted to be) created in the new thread)
(defn make-pre []
  (def pre @{})
  (defn try-pre [k f] (try (put pre k (f)) ([e] nil)))
  (try-pre :file |(file/open (P "m2.txt") :r))
  (try-pre :chan |(ev/chan 4))
  (try-pre :watcher |(filewatch/new (pre :chan)))
  (try-pre :server |(net/listen "127.0.0.1" "0"))
  (try-pre :proc |(os/spawn ["true"] :p))
  (try-pre :stream |(os/open (P "m2.txt") :r))
  pre)

(defn make-shapes [pre]
  [[]
   [(P "m.txt")] [(P "n1")] [(P "ml")] [(P "md")] [(P "md2")] [(P "m.janet")]
   [(P "m.txt") (P "n2")] [(P "m.txt") (P "n2") true]
   [(P "m.txt") :r] [(P "n3") :w] [(P "n4") :wc] [(P "m.txt") :a] [(P "m.txt") :a+] [(P "m.txt") :r+] [(P "n3") :w+] [(P "m.txt") :e] [(P "m.txt") "data"] [(P "n5") "data"]
   [(P "m.txt") 8r644] [(P "m.txt") :rw 8r644]
   ["127.0.0.1" "1"] ["127.0.0.1" "0"] ["127.0.0.1" "1" :datagram] ["127.0.0.1" "0" :datagram] ["localhost" "1"]
   [["true"]] [["true"] :p] [["true"] :pe {"C18_MARKER_VAR" "1"}] ["true"]
   ["C18_MARKER_VAR"] ["C18_MARKER_VAR" "1"] ["C18_MARKER_VAR" nil]
   [0] [1] [:realtime] [:monotonic] [:cputime]
   [:usr1 noop] [:usr1]
   [(pre :watcher) (P "md") :all] [(pre :watcher)] [(pre :file)] [(pre :file) :all] [(pre :file) "x"]
   [(pre :server)] [(pre :stream)] [(pre :stream) 1] [(pre :proc)] [(pre :chan)] [(pre :chan) (P "m.txt")]
   [noop] [noop (P "m.txt")] ["\xc3"] [:int (P "m.txt")] [(P "m.txt") :int]
   # appended (indices above stay stable): the remaining os/open flag combinations (access mode x create x truncate x
   # excl) and unix-domain socket addresses.  Thorough tier and witness synthesis (`only`): for every binding; quick tier:
   # for the bindings in `extra-bindings` (the ones whose behaviour depends on these arguments).
   [(P "n1") :rc] [(P "n1") :rce] [(P "m.txt") :rt] [(P "n1") :rct] [(P "m.txt") :wt] [(P "n1") :wct] [(P "n1") :rwc]
   [(P "m.txt") :rwt] [(P "n1") :c] [(P "m.txt") :t] [(P "n1") :ct] [(P "n1") :ce] [(P "m.txt") :w] [(P "m.txt") :rw]
   [:unix (P "n2")] [:unix (P "n2") :datagram] [:unix "@c18-abstract"] [:unix (P "n2") noop]
   ["127.0.0.1" "1" :stream "127.0.0.1" "0"] [:unix (P "n2") :stream "127.0.0.1" "0"]])   # net/connect with bindhost / bindport
(def n-extra 20)    # number of appended shapes above
(def extra-bindings {"os/open" true "file/open" true "net/connect" true "net/listen" true "net/address" true "net/server" true})

(def pre-main (if (= mode "same") (make-pre) nil))

# bindings never called, with the reason (reported in the evidence by checks/C18.py)
(def skip
  {"os/exit" "terminates the sweep process"
   "c18/mark" "harness" "c18/flags" "harness" "c18/restore" "harness"
   "repl" "reads the terminal" "debugger" "reads the terminal" "getline" "reads the terminal"
   "debug" "debug signal" "sandbox" "exercised separately (would change the configuration under test)"
   "os/sleep" "blocks the thread" "ev/sleep" "only waits" "os/proc-kill" "could signal an unrelated process (pid reuse)"
   "ffi/call" "raw pointer call" "ffi/free" "raw pointer" "ffi/read" "raw pointer" "ffi/write" "raw pointer"
   "ffi/pointer-buffer" "raw pointer" "ffi/pointer-cfunction" "raw pointer" "ffi/malloc" "raw pointer"
   "ffi/trampoline" "raw pointer"
   # this script's own definitions (the harness evaluates it in the core environment itself); `run-sweep` called from the sweep
   # started a nested sweep that ran until its first event-loop wait
   "run-sweep" "harness" "make-pre" "harness" "make-shapes" "harness" "P" "harness" "noop" "harness"})

(defn run-sweep []
  (def shapes (make-shapes (or pre-main (make-pre))))
  (def base-shapes (- (length shapes) n-extra))
  (def names (sort (seq [k :keys root-env :when (symbol? k)] k)))
  (var id 0)
  (var ncalls 0)
  (def sup (ev/chan 64))
  (each sym names
    (def ent (in root-env sym))
    (def v (if (ent :ref) (in (ent :ref) 0) (ent :value)))
    (def nm (string sym))
    (def wide (or (= level "full") only
                  (some |(string/has-prefix? $ nm) ["os/" "file/" "net/" "ffi/" "filewatch/" "ev/"])
                  (index-of nm ["slurp" "spit" "native" "require" "import*" "dofile" "load-image" "make-image" "file/open"
                                "module/find" "module/expand-path" "run-context" "getline" "stdin" "doc*" "bundle/install"
                                "bundle/list" "bundle/manifest" "sandbox"])))
    # bindings that may wait for the OS are run as their own task; the rest is called directly (no event loop in between)
    (def tasky (or (some |(string/has-prefix? $ nm) ["ev/" "net/" "filewatch/" "os/proc-" "os/posix-"])
                   (index-of nm ["os/execute" "os/spawn" "os/shell" "os/open" "os/pipe" "net/server" "file/read" "file/write"])))
    (when (and (or (function? v) (cfunction? v)) (not (ent :macro)) (not (in skip nm)) (or (nil? only) (in only nm)))
      (eachp [si args] shapes
        (when (and (>= id start) (= shard (% id nshards)) (or wide (< si 2))
                   (or (< si base-shapes) only (= level "full") (in extra-bindings nm)))
          (c18/mark id (string sym " " si " " (if (cfunction? v) "c" "j")))
          (if tasky
            (do
              # own task (async state lives on the root fiber of a task); the supervisor channel tells us when it
              # ended; a task still waiting for the OS after 5 ms is cancelled
              (def fb (ev/go (fn [] (try (v ;args) ([e] nil))) nil sup))
              (ev/deadline 0.005 fb fb)
              (ev/take sup))
            # direct call, in a fiber that traps every signal (error, yield, debug, user)
            (try (resume (fiber/new (fn [] (v ;args)) :a)) ([e] nil)))
          (++ ncalls)
          (c18/restore))
        (++ id))))
  (c18/mark 1000000 (string "END " ncalls " calls flags=" (c18/flags)))
  # leave at once: cancelled tasks, listening sockets and watchers created by the calls above would keep the loop alive
  (os/exit 0 true))

# one task (a top-level form that suspends would let the following forms run early)
(ev/go (fn []
  (c18/mark -3 (string "CONFIG caps=" caps-s " mode=" mode " flags-before=" (c18/flags)))
  (unless (empty? caps) (sandbox ;caps))
  (c18/mark -4 (string "SANDBOXED flags=" (c18/flags)))
  (case mode
    "same" (run-sweep)
    "thread" (ev/thread run-sweep)
    "spawn-thread" (do (def ch (ev/thread-chan 1)) (ev/spawn-thread (run-sweep) (ev/give ch 1)) (ev/take ch))
    (error "bad mode"))))
