/* C12 correspondence harness: runs the REAL peg/compile, peg/match, peg/find, peg/find-all, peg/replace,
 * peg/replace-all of the tree under test, many cases per process, and dumps the compiled bytecode + constants
 * (JanetPeg fields) so that the Lean operational model can execute the very same program.
 *
 * The text is handed to the matcher as a buffer over an exact-size malloc block, so that under ASan any read before
 * the start or past the end of the input is reported.
 *
 * line:    <entry> <grammar source, hex> <text hex|-> <start> <args source hex|-> <subst source hex|->
 * entry:   dump | match | find | findall | replace | replaceall
 * answer:  same canonical format as lean/Driver/C12.lean ; dump -> "B <has_backref> <words,> <consts>" ; "CE" compile error
 */
#include <janet.h>
#include <stdio.h>
#include <stdlib.h>
#include <string.h>

static const char *PRELUDE =
    "(defn f-count [& xs] (length xs))\n"
    "(defn f-cat [& xs] (string ;xs))\n"
    "(defn f-last [& xs] (last xs))\n"
    "(defn f-first [& xs] (first xs))\n"
    "(defn f-true [& xs] true)\n"
    "(defn f-false [& xs] false)\n"
    "(defn f-two [& xs] (>= (length xs) 2))\n"
    "(defn c12-compile [g] (with-dyns [:peg-grammar default-peg-grammar] (peg/compile g)))\n"
    "(defn c12-run [entry peg text start args subst]\n"
    "  (case entry\n"
    "    :match (peg/match peg text start ;args)\n"
    "    :find (peg/find peg text start ;args)\n"
    "    :findall (peg/find-all peg text start ;args)\n"
    "    :replace (peg/replace peg subst text start ;args)\n"
    "    :replaceall (peg/replace-all peg subst text start ;args)))\n";

static int hexval(int c) {
    if (c >= '0' && c <= '9') return c - '0';
    if (c >= 'a' && c <= 'f') return c - 'a' + 10;
    if (c >= 'A' && c <= 'F') return c - 'A' + 10;
    return -1;
}

static size_t unhex(const char *h, uint8_t **out) {
    if (!strcmp(h, "-")) { *out = malloc(1); return 0; }
    size_t n = strlen(h) / 2;
    uint8_t *b = malloc(n ? n : 1);
    for (size_t i = 0; i < n; i++) b[i] = (uint8_t)(hexval(h[2 * i]) * 16 + hexval(h[2 * i + 1]));
    *out = b;
    return n;
}

/* bytes -> hex, with "<array 0x....>" canonicalised to "<array>" */
static void put_hex_canon(FILE *f, const uint8_t *b, int32_t n, const char *empty) {
    if (n == 0) { fputs(empty, f); return; }
    for (int32_t i = 0; i < n;) {
        if (n - i >= 10 && !memcmp(b + i, "<array 0x", 9)) {
            int32_t j = i + 9;
            while (j < n && hexval(b[j]) >= 0) j++;
            if (j < n && b[j] == '>') {
                const char *r = "<array>";
                for (const char *p = r; *p; p++) fprintf(f, "%02x", (unsigned char)*p);
                i = j + 1;
                continue;
            }
        }
        fprintf(f, "%02x", b[i]);
        i++;
    }
}

static void show(FILE *f, Janet x) {
    switch (janet_type(x)) {
        case JANET_NIL: fputs("n", f); break;
        case JANET_BOOLEAN: fputs(janet_unwrap_boolean(x) ? "t" : "f", f); break;
        case JANET_NUMBER: {
            double d = janet_unwrap_number(x);
            if (d == (double)(long long) d && d < 9.1e15 && d > -9.1e15) fprintf(f, "i%lld", (long long) d);
            else fprintf(f, "d%.17g", d);
            break;
        }
        case JANET_STRING: fputs("s", f); put_hex_canon(f, janet_unwrap_string(x), janet_string_length(janet_unwrap_string(x)), ""); break;
        case JANET_KEYWORD: fputs("k", f); put_hex_canon(f, janet_unwrap_keyword(x), janet_string_length(janet_unwrap_keyword(x)), ""); break;
        case JANET_BUFFER: fputs("b", f); put_hex_canon(f, janet_unwrap_buffer(x)->data, janet_unwrap_buffer(x)->count, ""); break;
        case JANET_ARRAY: {
            JanetArray *a = janet_unwrap_array(x);
            fputs("a[", f);
            for (int32_t i = 0; i < a->count; i++) { if (i) fputs(",", f); show(f, a->data[i]); }
            fputs("]", f);
            break;
        }
        case JANET_ABSTRACT: {
            JanetIntType t = janet_is_int(x);
            if (t == JANET_INT_S64) fprintf(f, "l%lld", (long long) janet_unwrap_s64(x));
            else if (t == JANET_INT_U64) fprintf(f, "u%llu", (unsigned long long) janet_unwrap_u64(x));
            else fputs("X", f);
            break;
        }
        case JANET_STRUCT: fputs("S", f); break;
        case JANET_FUNCTION: {
            JanetFunction *fn = janet_unwrap_function(x);
            fprintf(f, "F%s", fn->def->name ? (const char *) fn->def->name : "?");
            break;
        }
        default: fputs("X", f); break;
    }
}

/* constants in the comma-token format the Lean driver parses */
static void show_const(FILE *f, Janet x) {
    switch (janet_type(x)) {
        case JANET_NIL: fputs("n", f); break;
        case JANET_BOOLEAN: fputs(janet_unwrap_boolean(x) ? "t" : "f", f); break;
        case JANET_NUMBER: fprintf(f, "i,%lld", (long long) janet_unwrap_number(x)); break;
        case JANET_STRING: fputs("s,", f); put_hex_canon(f, janet_unwrap_string(x), janet_string_length(janet_unwrap_string(x)), "-"); break;
        case JANET_KEYWORD: fputs("k,", f); put_hex_canon(f, janet_unwrap_keyword(x), janet_string_length(janet_unwrap_keyword(x)), "-"); break;
        case JANET_FUNCTION: {
            JanetFunction *fn = janet_unwrap_function(x);
            fprintf(f, "F,%s", fn->def->name ? (const char *) fn->def->name : "?");
            break;
        }
        case JANET_STRUCT: {
            const JanetKV *st = janet_unwrap_struct(x);
            /* keys sorted by their printed form so that output does not depend on hash order */
            int32_t n = janet_struct_length(st), cap = janet_struct_capacity(st);
            fprintf(f, "S,%d", n);
            /* selection by repeated minimum over (type, value) */
            uint8_t *done = calloc(cap ? cap : 1, 1);
            for (int32_t k = 0; k < n; k++) {
                int32_t best = -1;
                for (int32_t i = 0; i < cap; i++) {
                    if (janet_checktype(st[i].key, JANET_NIL) || done[i]) continue;
                    if (best < 0 || janet_compare(st[i].key, st[best].key) < 0) best = i;
                }
                done[best] = 1;
                fputs(",", f); show_const(f, st[best].key);
                fputs(",", f); show_const(f, st[best].value);
            }
            free(done);
            break;
        }
        default: fputs("X", f); break;
    }
}

static JanetTable *env;
static JanetFunction *fn_compile, *fn_run;

static JanetFunction *getfn(const char *name) {
    Janet out;
    janet_resolve(env, janet_csymbol(name), &out);
    if (!janet_checktype(out, JANET_FUNCTION)) { fprintf(stderr, "prelude: %s missing\n", name); exit(3); }
    return janet_unwrap_function(out);
}

static int eval_src(const char *hex, Janet *out) {
    uint8_t *src; size_t n = unhex(hex, &src);
    /* silence janet's own error printing of a failing dostring */
    int rc = janet_dobytes(env, src, (int32_t) n, "c12", out);
    free(src);
    return rc;
}

static void show_error(Janet err) {
    if (janet_checktype(err, JANET_STRING)) {
        const char *s = (const char *) janet_unwrap_string(err);
        int l, c;
        if (sscanf(s, "match error at line %d, column %d", &l, &c) == 2) { printf("E:match:%d:%d\n", l, c); return; }
        if (!strcmp(s, "peg/match recursed too deeply")) { printf("E:depth\n"); return; }
    }
    printf("E:user:"); show(stdout, err); printf("\n");
}

int main(void) {
    janet_init();
    setvbuf(stdout, NULL, _IOLBF, 1 << 16);
    env = janet_core_env(NULL);
    janet_gcroot(janet_wrap_table(env));
    if (janet_dostring(env, PRELUDE, "prelude", NULL)) return 3;
    fn_compile = getfn("c12-compile");
    fn_run = getfn("c12-run");
    char *line = NULL; size_t cap = 0; ssize_t n;
    char *cached_src = NULL; Janet cached_peg = janet_wrap_nil(); int cached_ok = 0;
    long count = 0;
    while ((n = getline(&line, &cap, stdin)) > 0) {
        while (n > 0 && (line[n - 1] == '\n' || line[n - 1] == '\r' || line[n - 1] == ' ')) line[--n] = 0;
        char *f[6]; int nf = 0;
        for (char *p = strtok(line, " "); p && nf < 6; p = strtok(NULL, " ")) f[nf++] = p;
        if (nf < 6) { printf("bad-op\n"); continue; }
        count++;
        /* compile (cached per grammar source) */
        if (!cached_src || strcmp(cached_src, f[1])) {
            if (cached_ok) janet_gcunroot(cached_peg);
            free(cached_src); cached_src = strdup(f[1]); cached_ok = 0;
            Janet g;
            if (eval_src(f[1], &g) == 0) {
                janet_gcroot(g);
                Janet out; JanetFiber *fib = NULL;
                if (janet_pcall(fn_compile, 1, &g, &out, &fib) == JANET_SIGNAL_OK) {
                    cached_peg = out; cached_ok = 1; janet_gcroot(cached_peg);
                }
                janet_gcunroot(g);
            }
        }
        if (!cached_ok) { printf("CE\n"); continue; }
        if (!strcmp(f[0], "dump")) {
            JanetPeg *peg = janet_unwrap_abstract(cached_peg);
            printf("B %d ", peg->has_backref);
            for (size_t i = 0; i < peg->bytecode_len; i++) printf(i ? ",%u" : "%u", peg->bytecode[i]);
            printf(" %u", peg->num_constants);
            for (uint32_t i = 0; i < peg->num_constants; i++) { fputs(",", stdout); show_const(stdout, peg->constants[i]); }
            printf("\n");
            continue;
        }
        uint8_t *text; size_t tlen = unhex(f[2], &text);
        if (tlen == 0) { free(text); text = malloc(1); /* ASan: zero-length window; base pointer only */ }
        uint8_t *exact = malloc(tlen ? tlen : 1);
        memcpy(exact, text, tlen);
        free(text);
        /* exact-size block: capacity == count == tlen (for tlen == 0 a 1-byte block with count 0) */
        JanetBuffer *tb = janet_pointer_buffer_unsafe(exact, (int32_t)(tlen ? tlen : 1), (int32_t) tlen);
        Janet args = janet_wrap_tuple(janet_tuple_n(NULL, 0)), subst = janet_wrap_nil();
        int bad = 0;
        if (strcmp(f[4], "-") && eval_src(f[4], &args)) bad = 1;
        janet_gcroot(args);
        if (strcmp(f[5], "-") && eval_src(f[5], &subst)) bad = 1;
        janet_gcroot(subst);
        if (bad) { printf("bad-op\n"); }
        else {
            Janet argv[6] = { janet_ckeywordv(f[0]), cached_peg, janet_wrap_buffer(tb), janet_wrap_integer(atoi(f[3])), args, subst };
            Janet out; JanetFiber *fib = NULL;
            JanetSignal sig = janet_pcall(fn_run, 6, argv, &out, &fib);
            if (sig != JANET_SIGNAL_OK) show_error(out);
            else if (!strcmp(f[0], "match")) {
                if (janet_checktype(out, JANET_NIL)) printf("M-\n");
                else {
                    JanetArray *a = janet_unwrap_array(out);
                    printf("M[");
                    for (int32_t i = 0; i < a->count; i++) { if (i) printf(","); show(stdout, a->data[i]); }
                    printf("]\n");
                }
            } else if (!strcmp(f[0], "find")) {
                if (janet_checktype(out, JANET_NIL)) printf("F-\n"); else printf("F%d\n", janet_unwrap_integer(out));
            } else if (!strcmp(f[0], "findall")) {
                JanetArray *a = janet_unwrap_array(out);
                printf("A[");
                for (int32_t i = 0; i < a->count; i++) printf(i ? ",%d" : "%d", janet_unwrap_integer(a->data[i]));
                printf("]\n");
            } else {
                JanetBuffer *b = janet_unwrap_buffer(out);
                printf("R"); put_hex_canon(stdout, b->data, b->count, ""); printf("\n");
            }
        }
        janet_gcunroot(args); janet_gcunroot(subst);
        /* detach before freeing so that a later GC sweep never looks at freed memory */
        tb->data = NULL; tb->count = 0; tb->capacity = 0;
        free(exact);
    }
    fflush(stdout);
    return 0;
}
