"""Writes corpus/C12/targeted.json: hand-made scenarios, one group per fault class the check is meant to catch."""
import json
import os
import sys

HERE = os.path.dirname(os.path.abspath(__file__))
sys.path.insert(0, os.path.dirname(os.path.dirname(HERE)))
sys.path.insert(0, HERE)
from checks.C12 import Case, case_to_json  # noqa: E402

S = lambda b: ('str', b)
CAP = lambda p, t=0: ('capture', t, p)
SEQ = lambda *ps: ('seq', list(ps))
ALT = lambda *ps: ('choice', list(ps))
FAIL = ('bool', False)
POS = ('position', 0)
cases = []


def add(g, texts, starts=(0,), args=(), subst=b"X"):
    for t in texts:
        for st in starts:
            if st <= len(t):
                cases.append(Case(g, t, st, list(args), subst, "targeted"))


# findings on the pinned tree
add(('accumulate', 0, ALT(('lenprefix', S(b"x"), S(b"b")), CAP(S(b"a")))), [b"a", b"ab", b""])
add(('accumulate', 1, SEQ(('atmost', 2, ('lenprefix', ('int', 1), ('int', 1))), POS)), [b"", b"a"])
add(('accumulate', 0, ('number', 16, 0, ('int', 1))), [b"b", b"1", b"a1"])
add(('accumulate', 0, ('number', 0, 0, ('some', ('range', [(48, 57)])))), [b"007", b"12"])
add(SEQ(('accumulate', 0, ('number', 0, 1, ('some', ('range', [(48, 57)])))), ('any', ('backref', 1, 0))), [b"007"])
# a dropped cap_load on a failure path: captures of a failed alternative must vanish (every recovering combinator)
junk = SEQ(CAP(('int', 1), 1), ('constant', 2, b"k"), POS, FAIL)
for rec in (ALT(junk, CAP(('int', 1))), SEQ(('opt', junk), CAP(('int', 1))), SEQ(('any', junk), POS), SEQ(('not', junk), POS),
            ('ifnot', junk, CAP(('int', 1))), SEQ(('between', 0, 2, junk), POS), SEQ(ALT(('to', junk), ('bool', True)), POS),
            SEQ(ALT(('thru', junk), ('bool', True)), POS), ALT(('sub', ('int', 1), junk), POS), ALT(('til', S(b"b"), junk), POS),
            ALT(('split', S(b"b"), junk), POS), ALT(('lenprefix', SEQ(('constant', 0, 1), CAP(('int', 0))), junk), POS)):
    for wrap in (lambda p: p, lambda p: ('accumulate', 0, p), lambda p: ('group', 0, p),
                 lambda p: SEQ(p, ('any', ('backref', 1, 0)), ('any', ('backref', 2, 0)))):
        add(wrap(rec), [b"ab", b"", b"bab"])
# mode not restored: capturing combinators that switch the mode, failing inside accumulate / group
for inner in (('group', 0, junk), ('replace', 0, 7, junk), ('cmt', 0, ('fn', 'f-true'), junk), ('nth', 0, 0, junk),
              ('lenprefix', junk, ('int', 1)), ('error', FAIL), ('accumulate', 1, junk),
              ('cmt', 0, ('fn', 'f-false'), CAP(('int', 1))), ('nth', 3, 0, CAP(('int', 1)))):
    add(('accumulate', 0, SEQ(ALT(inner, ('bool', True)), CAP(('int', 1)), POS)), [b"ab", b"a"])
    add(('group', 0, SEQ(('accumulate', 0, SEQ(ALT(inner, ('bool', True)), CAP(('int', 1)))), CAP(('int', 1)))), [b"ab"])
# window not restored
for inner in (('sub', ('int', 1), S(b"ab")), ('sub', ('int', 1), FAIL), ('til', S(b"b"), S(b"aa")), ('split', S(b","), S(b"aa")),
              ('sub', ('int', 2), ('sub', ('int', 1), FAIL))):
    add(SEQ(ALT(inner, ('bool', True)), CAP(('any', ('int', 1))), POS), [b"ab", b"a,b", b"aab", b"abab"])
add(('sub', ('int', 2), SEQ(CAP(('any', ('int', 1))), ('not', ('int', 1)))), [b"abc", b"ab", b"a"])
add(('sub', ('thru', S(b"b")), ('split', S(b"a"), CAP(('any', ('int', 1))))), [b"babab", b"aab", b""])
add(('split', S(b","), CAP(('any', ('int', 1)))), [b"a,b,,c", b",", b"", b"a,", b",a"])
add(('til', S(b"b"), CAP(('any', ('int', 1)))), [b"aab", b"b", b"aa", b""])
# repetition bounds
for n in range(0, 4):
    for k in ('atleast', 'atmost', 'repeat'):
        add(SEQ((k, n, CAP(S(b"a"))), POS), [b"", b"a", b"aa", b"aaa", b"aaaa"])
    for hi in range(n, 4):
        add(SEQ(('between', n, hi, CAP(S(b"a"))), POS), [b"", b"a", b"aa", b"aaa", b"aaaa"])
add(SEQ(('any', S(b"")), POS), [b"a"])
add(SEQ(('some', ('opt', CAP(S(b"a")))), POS), [b"aab", b"b"])
add(SEQ(('between', 0, 3, ('opt', CAP(S(b"a")))), POS), [b"ab"])
add(SEQ(('opt', CAP(S(b"a"))), ('opt', CAP(S(b"a"))), POS), [b"a", b"aa", b""])
# tag stack
add(SEQ(CAP(S(b"a"), 1), ('unref', 1, SEQ(CAP(S(b"b"), 1), CAP(S(b"c"), 2))), ('backref', 1, 0), ('backref', 2, 0)), [b"abc"])
add(SEQ(CAP(S(b"a"), 1), ('unref', 0, SEQ(CAP(S(b"b"), 1), CAP(S(b"c"), 2))), ('backref', 1, 0), ALT(('backref', 2, 0), POS)), [b"abc"])
add(SEQ(CAP(S(b"a"), 1), ALT(SEQ(CAP(S(b"b"), 1), FAIL), ('bool', True)), ('backref', 1, 0)), [b"ab"])
add(SEQ(CAP(S(b"a"), 1), ('drop', CAP(('int', 1), 1)), ('backref', 1, 0)), [b"ab"])
add(SEQ(CAP(S(b"a"), 1), ('onlytags', CAP(('int', 1), 1)), ('backref', 1, 0)), [b"ab"])
add(SEQ(CAP(S(b"a"), 1), ('group', 2, CAP(('int', 1), 1)), ('backref', 1, 0), ('backref', 2, 0)), [b"ab"])
# backmatch
add(SEQ(CAP(('some', S(b"a")), 1), S(b"b"), ('backmatch', 1), POS), [b"aabaa", b"aaba", b"abaa", b"aabaab"])
add(SEQ(CAP(('int', 2)), ('backmatch', 0), POS), [b"abab", b"aba", b"abac"])
add(SEQ(('constant', 1, 5), ('backmatch', 1)), [b"5"])
add(('sub', ('int', 3), SEQ(CAP(('int', 2), 1), ('backmatch', 1))), [b"abab"])
# to / thru
add(SEQ(('to', S(b"b")), POS, CAP(('any', ('int', 1)))), [b"aab", b"b", b"aa", b""])
add(SEQ(('thru', S(b"b")), POS, CAP(('any', ('int', 1)))), [b"aab", b"b", b"aa", b""])
add(SEQ(('to', ('int', -1)), POS), [b"ab", b""])
add(SEQ(('thru', CAP(S(b"b"), 1)), ('backref', 1, 0)), [b"ab"])
add(SEQ(('to', CAP(S(b"b"), 1)), ALT(('backref', 1, 0), POS)), [b"ab"])
# look
add(SEQ(('int', 1), ('look', -1, CAP(S(b"a"))), POS), [b"ab", b"b"])
add(('look', -1, ('int', 0)), [b"a"], starts=(0, 1))
add(('look', 2, ('int', 0)), [b"a", b"ab"])
add(('sub', ('int', 1), ('look', 1, ('look', 1, ('int', 0)))), [b"ab"])
# integer readers, line/column, arguments, find/replace
for w in (0, 1, 2, 3, 4, 6, 7, 8):
    for sg in (False, True):
        for be in (False, True):
            if not (sg and w == 0):
                add(SEQ(('readint', w, sg, be, 0), POS), [bytes([0xff, 0x80, 1, 2, 3, 0x7f, 0xfe, 0xff, 9]), bytes(w), bytes([0x80] * w)][:3])
add(SEQ(('any', SEQ(('line', 0), ('column', 0), ('int', 1))), ('line', 0), ('column', 0)), [b"a\nb\n\nc", b"\n", b""])
add(('sub', ('int', 2), SEQ(('int', 1), ('line', 0), ('column', 0))), [b"a\nb"])
add(SEQ(('argument', 0, 0), ('argument', 1, 1), ('argument', 5, 0), ('backref', 1, 0)), [b""], args=[3, b"x"])
add(CAP(('any', S(b"b"))), [b"abbc", b"", b"bbb"], starts=(0, 1), subst=('fn', 'f-cat'))
add(S(b""), [b"ab", b""], starts=(0, 1, 2))
add(SEQ(CAP(S(b"a")), ('error', CAP(S(b"b")))), [b"ab", b"aab", b"xab"])
add(ALT(S(b"x"), ('error0',)), [b"a\nb"], starts=(0, 2))
# recursion
BAL = ('grammar', [("main", SEQ(('ref', 'p'), ('not', ('int', 1)))), ("p", ('any', SEQ(S(b"a"), ('ref', 'p'), S(b"b"))))])
add(BAL, [b"", b"ab", b"aabb", b"aabbab", b"aab", b"ba"])
add(('grammar', [("main", ALT(SEQ(CAP(S(b"a")), ('ref', 'main')), POS))]), [b"aaab"])
add(('grammar', [("main", SEQ(S(b"a"), ('grammar', [("main", ALT(SEQ(S(b"b"), ('ref', 'main')), ('ref', 'q')))]))), ("q", CAP(('int', 1)))]), [b"abbc", b"abb"])

# lexical scoping of rule names across nested grammars (seeded mutation C12-1) and the default grammar
R = lambda n: ('ref', n)
G = lambda *rules: ('grammar', list(rules))
add(G(("a", S(b"abc")), ("c", SEQ(R("a"))), ("main", SEQ(R("c"), G(("a", S(b"def")), ("main", SEQ(R("c"), S(b"!")))), ('int', -1)))),
    [b"abcabc!", b"abcdef!", b"abc"])
add(G(("a", S(b"x")), ("c", CAP(('some', R("a")))), ("main", SEQ(G(("a", S(b"y")), ("main", SEQ(R("c"), S(b",")))), CAP(R("a"))))),
    [b"xx,x", b"yy,x", b"yy,y", b"x,x"])
add(G(("open", S(b"(")), ("close", S(b")")), ("paren", SEQ(R("open"), ('any', R("paren")), R("close"))),
      ("main", SEQ(CAP(R("paren")), G(("open", S(b"[")), ("close", S(b"]")), ("main", CAP(R("paren")))), ('int', -1)))),
    [b"(())(()())", b"(())[[][]]", b"()()", b"()[]"])
add(G(("x", S(b"a")), ("c", R("x")), ("main", SEQ(G(("x", S(b"b")), ("main", SEQ(R("x"), CAP(R("c"))))), POS))), [b"ba", b"bb", b"ab"])
add(G(("d", S(b"x")), ("main", CAP(R("d+")))), [b"xx1", b"12"])
add(G(("main", SEQ(CAP(R("d+")), G(("d", S(b"x")), ("main", CAP(R("d+"))))))), [b"12xx", b"1212", b"xx"])
add(G(("a", S(b"1")), ("main", SEQ(CAP(R("a*")), CAP(R("w")), ('opt', CAP(R("A")))))), [b"11a", b"ab", b"1"])
add(SEQ(CAP(R("S+")), R("s"), CAP(R("D*"))), [b"ab 1", b"a\nbc", b" "])

# depth budget: one unit per nesting level, released on every path (seeded C19-4: if-not releasing it twice)
n0 = len(cases)
DEEP = [G(("main", ALT(SEQ(S(b"a"), ('ifnot', S(b"b"), R("main"))), ('int', 0)))),
        G(("main", ALT(SEQ(S(b"a"), ('not', S(b"b")), R("main")), ('int', 0)))),
        G(("main", ALT(SEQ(S(b"a"), ALT(SEQ(S(b"b"), FAIL), R("main"))), ('int', 0)))),
        G(("main", ('opt', SEQ(S(b"a"), ('if', ('int', 0), R("main")))))),
        G(("main", ALT(SEQ(S(b"a"), ('drop', ('opt', FAIL)), ('look', 0, ('int', 0)), R("main")), ('int', 0))))]
for g in DEEP:
    add(g, [b"a" * 1000, b"a" * 1021, b"a" * 1022, b"a" * 1023, b"a" * 1024, b"a" * 1100])
for c in cases[n0:]:
    c.noscan = True

out = os.path.join(os.path.dirname(os.path.dirname(HERE)), "corpus", "C12", "targeted.json")
with open(out, "w") as f:
    json.dump([case_to_json(c) for c in cases], f, indent=0)
print(len(cases), "cases ->", out)
