"""C12: generator of PEG grammars / texts / arguments, and the three encodings of a grammar:
   janet source (for the real peg/compile), token list (for the Lean Spec interpreter), python tuples (reference interpreter).

AST (python tuples), the same node names as the tokens of lean/Driver/C12.lean:
  ('str', bytes) ('int', n) ('bool', b) ('ref', name) ('range', [(lo,hi),..]) ('set', bytes) ('look', off, p)
  ('choice', [p..]) ('seq', [p..]) ('if', c, p) ('ifnot', c, p) ('not', p) ('any', p) ('some', p) ('opt', p)
  ('between', lo, hi, p) ('atleast', n, p) ('atmost', n, p) ('repeat', n, p) ('to', p) ('thru', p)
  ('capture', tag, p) ('accumulate', tag, p) ('group', tag, p) ('drop', p) ('onlytags', p) ('replace', tag, val, p)
  ('cmt', tag, fn, p) ('constant', tag, val) ('argument', n, tag) ('position', tag) ('line', tag) ('column', tag)
  ('backref', search, tag) ('backmatch', tag) ('unref', tag, p) ('nth', n, tag, p) ('error0',) ('error', p)
  ('lenprefix', n, p) ('sub', w, p) ('split', sep, p) ('til', t, p) ('readint', width, signed, be, tag)
  ('number', base, tag, p) ('grammar', [(name, p)..])
tags: 0 = none, 1..3 = :x :y :z.   values: None True False int bytes ('kw', bytes) ('fn', name) ('struct', [(key, val)..])
"""

TAGNAMES = {1: "x", 2: "y", 3: "z"}
FUNCS = ["f-count", "f-cat", "f-last", "f-first", "f-true", "f-false", "f-two"]
ALPHA = b"ab1\n"

DEFAULT_GRAMMAR = [
    ("a", ('range', [(97, 122), (65, 90)])),
    ("d", ('range', [(48, 57)])),
    ("s", ('set', b" \t\r\n\0\f\v")),
    ("w", ('range', [(97, 122), (65, 90), (48, 57)])),
    ("A", ('ifnot', ('ref', 'a'), ('int', 1))),
    ("D", ('ifnot', ('ref', 'd'), ('int', 1))),
    ("S", ('ifnot', ('ref', 's'), ('int', 1))),
    ("a+", ('some', ('ref', 'a'))),
    ("d+", ('some', ('ref', 'd'))),
    ("a*", ('any', ('ref', 'a'))),
    ("d*", ('any', ('ref', 'd'))),
    ("S+", ('some', ('ref', 'S'))),
    ("D*", ('any', ('ref', 'D'))),
]
DEFAULT_NAMES = [n for n, _ in DEFAULT_GRAMMAR]


# ------------------------------------------------------------------------------------------------ janet source
def jstr(b):
    out = ['"']
    for c in b:
        if c == 34 or c == 92:
            out.append("\\" + chr(c))
        elif 32 <= c < 127:
            out.append(chr(c))
        else:
            out.append("\\x%02x" % c)
    out.append('"')
    return "".join(out)


def jval(v, quoted=True):
    """janet source of a value; inside a quasiquote when `quoted` (functions are unquoted with ,)"""
    if v is None:
        return "nil"
    if v is True:
        return "true"
    if v is False:
        return "false"
    if isinstance(v, int):
        return str(v)
    if isinstance(v, bytes):
        return jstr(v)
    if v[0] == 'kw':
        return ":" + v[1].decode()
    if v[0] == 'fn':
        return ("," if quoted else "") + v[1]
    if v[0] == 'struct':
        return "{" + " ".join(jval(k, quoted) + " " + jval(x, quoted) for k, x in v[1]) + "}"
    raise ValueError(v)


def jtag(t):
    return "" if t == 0 else " :" + TAGNAMES[t]


def to_janet(p):
    k = p[0]
    J = to_janet
    if k == 'str':
        return jstr(p[1])
    if k == 'int':
        return str(p[1])
    if k == 'bool':
        return "true" if p[1] else "false"
    if k == 'ref':
        return ":" + p[1]
    if k == 'range':
        return "(range " + " ".join(jstr(bytes([lo, hi])) for lo, hi in p[1]) + ")"
    if k == 'set':
        return "(set " + jstr(p[1]) + ")"
    if k == 'look':
        return "(look %d %s)" % (p[1], J(p[2]))
    if k == 'choice':
        return "(+" + "".join(" " + J(x) for x in p[1]) + ")"
    if k == 'seq':
        return "(*" + "".join(" " + J(x) for x in p[1]) + ")"
    if k == 'if':
        return "(if %s %s)" % (J(p[1]), J(p[2]))
    if k == 'ifnot':
        return "(if-not %s %s)" % (J(p[1]), J(p[2]))
    if k == 'not':
        return "(not %s)" % J(p[1])
    if k in ('any', 'some', 'opt', 'to', 'thru', 'drop'):
        return "(%s %s)" % (k, J(p[1]))
    if k == 'onlytags':
        return "(only-tags %s)" % J(p[1])
    if k == 'between':
        return "(between %d %d %s)" % (p[1], p[2], J(p[3]))
    if k == 'atleast':
        return "(at-least %d %s)" % (p[1], J(p[2]))
    if k == 'atmost':
        return "(at-most %d %s)" % (p[1], J(p[2]))
    if k == 'repeat':
        return "(%d %s)" % (p[1], J(p[2])) if p[1] % 2 else "(repeat %d %s)" % (p[1], J(p[2]))
    if k in ('capture', 'accumulate', 'group', 'unref'):
        name = {'capture': '<-', 'accumulate': '%'}.get(k, k) if p[1] == 0 else k
        return "(%s %s%s)" % (name, J(p[2]), jtag(p[1]))
    if k == 'replace':
        return "(replace %s %s%s)" % (J(p[3]), jval(p[2]), jtag(p[1]))
    if k == 'cmt':
        return "(cmt %s %s%s)" % (J(p[3]), jval(p[2]), jtag(p[1]))
    if k == 'constant':
        return "(constant %s%s)" % (jval(p[2]), jtag(p[1]))
    if k == 'argument':
        return "(argument %d%s)" % (p[1], jtag(p[2]))
    if k in ('position', 'line', 'column'):
        return "(%s%s)" % (k, jtag(p[1]))
    if k == 'backref':
        return "(backref :%s%s)" % (TAGNAMES[p[1]], jtag(p[2]))
    if k == 'backmatch':
        return "(backmatch%s)" % jtag(p[1])
    if k == 'nth':
        return "(nth %d %s%s)" % (p[1], J(p[3]), jtag(p[2]))
    if k == 'error0':
        return "(error)"
    if k == 'error':
        return "(error %s)" % J(p[1])
    if k in ('lenprefix', 'sub', 'split', 'til'):
        return "(%s %s %s)" % (k, J(p[1]), J(p[2]))
    if k == 'readint':
        name = ("int" if p[2] else "uint") + ("-be" if p[3] else "")
        return "(%s %d%s)" % (name, p[1], jtag(p[4]))
    if k == 'number':
        base = "nil" if p[1] == 0 else str(p[1])
        if p[1] == 0 and p[2] == 0:
            return "(number %s)" % J(p[3])
        return "(number %s %s%s)" % (J(p[3]), base, jtag(p[2]))
    if k == 'grammar':
        return "{" + " ".join(":%s %s" % (n, J(x)) for n, x in p[1]) + "}"
    raise ValueError(p)


def janet_source(p):
    return "~" + to_janet(p)


# ------------------------------------------------------------------------------------------------ Lean tokens
def hx(b):
    return b.hex() if b else "-"


def vtok(v):
    if v is None:
        return ["n"]
    if v is True:
        return ["t"]
    if v is False:
        return ["f"]
    if isinstance(v, int):
        return ["i", str(v)]
    if isinstance(v, bytes):
        return ["s", hx(v)]
    if v[0] == 'kw':
        return ["k", hx(v[1])]
    if v[0] == 'fn':
        return ["F", v[1]]
    if v[0] == 'struct':
        # a janet struct drops keys bound to nil; keys in janet_compare order (numbers before strings), the order in
        # which the harness dumps struct constants
        kvs = [(k, x) for k, x in v[1] if x is not None]
        out = ["S", str(len(kvs))]
        for k, x in sorted(kvs, key=lambda kv: (0, kv[0], b"") if isinstance(kv[0], int) else (1, 0, kv[0])):
            out += vtok(k) + vtok(x)
        return out
    raise ValueError(v)


def vals_field(vs):
    out = [str(len(vs))]
    for v in vs:
        out += vtok(v)
    return ",".join(out)


def ptok(p):
    k = p[0]
    T = ptok
    if k == 'str':
        return ["str", hx(p[1])]
    if k == 'int':
        return ["int", str(p[1])]
    if k == 'bool':
        return ["bool", "1" if p[1] else "0"]
    if k == 'ref':
        return ["ref", p[1]]
    if k == 'range':
        out = ["range", str(len(p[1]))]
        for lo, hi in p[1]:
            out += [str(lo), str(hi)]
        return out
    if k == 'set':
        return ["set", hx(p[1])]
    if k == 'look':
        return ["look", str(p[1])] + T(p[2])
    if k in ('choice', 'seq'):
        out = [k, str(len(p[1]))]
        for x in p[1]:
            out += T(x)
        return out
    if k in ('if', 'ifnot', 'lenprefix', 'sub', 'split', 'til'):
        return [k] + T(p[1]) + T(p[2])
    if k in ('not', 'any', 'some', 'opt', 'to', 'thru', 'drop', 'onlytags', 'error'):
        return [k] + T(p[1])
    if k == 'between':
        return ["between", str(p[1]), str(p[2])] + T(p[3])
    if k in ('atleast', 'atmost', 'repeat'):
        return [k, str(p[1])] + T(p[2])
    if k in ('capture', 'accumulate', 'group', 'unref'):
        return [k, str(p[1])] + T(p[2])
    if k in ('replace', 'cmt'):
        return [k, str(p[1])] + vtok(p[2]) + T(p[3])
    if k == 'constant':
        return ["constant", str(p[1])] + vtok(p[2])
    if k == 'argument':
        return ["argument", str(p[1]), str(p[2])]
    if k in ('position', 'line', 'column', 'backmatch'):
        return [k, str(p[1])]
    if k == 'backref':
        return ["backref", str(p[1]), str(p[2])]
    if k == 'nth':
        return ["nth", str(p[1]), str(p[2])] + T(p[3])
    if k == 'error0':
        return ["error0"]
    if k == 'readint':
        return ["readint", str(p[1]), "1" if p[2] else "0", "1" if p[3] else "0", str(p[4])]
    if k == 'number':
        return ["number", str(p[1]), str(p[2])] + T(p[3])
    if k == 'grammar':
        out = ["grammar", str(len(p[1]))]
        for n, x in p[1]:
            out += [n] + T(x)
        return out
    raise ValueError(p)


def spec_field(p):
    """the source grammar inside the default grammar (dyn :peg-grammar) as outermost scope"""
    wrapped = ('grammar', [("main", p)] + DEFAULT_GRAMMAR)
    return ",".join(ptok(wrapped))


def children(p):
    """direct sub-patterns of a node"""
    k = p[0]
    if k in ('choice', 'seq'):
        return list(p[1])
    if k == 'grammar':
        return [x for _, x in p[1]]
    if k in ('if', 'ifnot', 'lenprefix', 'sub', 'split', 'til'):
        return [p[1], p[2]]
    if k in ('not', 'any', 'some', 'opt', 'to', 'thru', 'drop', 'onlytags', 'error'):
        return [p[1]]
    if k in ('look', 'atleast', 'atmost', 'repeat', 'capture', 'accumulate', 'group', 'unref'):
        return [p[2]]
    if k in ('between', 'replace', 'cmt', 'nth', 'number'):
        return [p[3]]
    return []


def kinds(p, acc=None):
    """multiset of node kinds"""
    acc = {} if acc is None else acc
    acc[p[0]] = acc.get(p[0], 0) + 1
    for c in children(p):
        kinds(c, acc)
    return acc


def size(p):
    return 1 + sum(size(c) for c in children(p))




# ------------------------------------------------------------------------------------------------ tag numbering of peg/compile
def canon_tags(g):
    """The grammar with tags renumbered the way peg/compile numbers them (emit_tag: 1, 2, ... in order of first emission while
    compiling), and whether the walk met a recursive rule.  Mirrors the order inside each spec_* function of peg.c."""
    order = {}
    state = {"recursive": False}
    active, done = [], set()

    def tag(t):
        if t and t not in order:
            order[t] = len(order) + 1

    def lookup(scopes, name):
        for i, sc in enumerate(scopes):
            for n, p in sc:
                if n == name:
                    return scopes[i:], p, (id(sc), name)
        for n, p in DEFAULT_GRAMMAR:
            if n == name:
                return scopes, p, (tuple(id(x) for x in scopes), name)
        return None

    def walk(p, scopes):
        k = p[0]
        if k == 'ref':
            r = lookup(scopes, p[1])
            if r is None:
                return
            sc, q, key = r
            if key in active:
                state["recursive"] = True
                return
            if key in done:
                return
            active.append(key)
            walk(q, sc)
            active.pop()
            done.add(key)
        elif k == 'grammar':
            sc = [p[1]] + scopes
            key = (id(p[1]), "main")
            if key in active:
                state["recursive"] = True
                return
            active.append(key)
            walk(dict(p[1])["main"], sc)
            active.pop()
            done.add(key)
        elif k in ('capture', 'accumulate', 'group', 'unref'):
            tag(p[1]); walk(p[2], scopes)
        elif k == 'number':
            tag(p[2]); walk(p[3], scopes)
        elif k == 'nth':
            walk(p[3], scopes); tag(p[2])
        elif k in ('replace', 'cmt'):
            walk(p[3], scopes); tag(p[1])
        elif k == 'backref':
            tag(p[1]); tag(p[2])
        elif k in ('position', 'line', 'column', 'backmatch'):
            tag(p[1])
        elif k == 'argument':
            tag(p[2])
        elif k == 'constant':
            tag(p[1])
        elif k == 'readint':
            tag(p[4])
        else:
            for c in children(p):
                walk(c, scopes)
    walk(g, [])
    nxt = [len(order)]

    def T(t):
        if t == 0:
            return 0
        if t not in order:          # only in unreachable rules: any fresh number
            nxt[0] += 1
            order[t] = nxt[0]
        return order[t]

    def ren(p):
        k = p[0]
        if k in ('capture', 'accumulate', 'group', 'unref'):
            return (k, T(p[1]), ren(p[2]))
        if k == 'number':
            return (k, p[1], T(p[2]), ren(p[3]))
        if k == 'nth':
            return (k, p[1], T(p[2]), ren(p[3]))
        if k in ('replace', 'cmt'):
            return (k, T(p[1]), p[2], ren(p[3]))
        if k == 'backref':
            return (k, T(p[1]), T(p[2]))
        if k in ('position', 'line', 'column', 'backmatch'):
            return (k, T(p[1]))
        if k == 'argument':
            return (k, p[1], T(p[2]))
        if k == 'constant':
            return (k, T(p[1]), p[2])
        if k == 'readint':
            return (k, p[1], p[2], p[3], T(p[4]))
        if k in ('choice', 'seq'):
            return (k, [ren(x) for x in p[1]])
        if k == 'grammar':
            return (k, [(n, ren(x)) for n, x in p[1]])
        if k in ('if', 'ifnot', 'lenprefix', 'sub', 'split', 'til'):
            return (k, ren(p[1]), ren(p[2]))
        if k in ('not', 'any', 'some', 'opt', 'to', 'thru', 'drop', 'onlytags', 'error'):
            return (k, ren(p[1]))
        if k in ('look', 'atleast', 'atmost', 'repeat'):
            return (k, p[1], ren(p[2]))
        if k == 'between':
            return (k, p[1], p[2], ren(p[3]))
        return p
    return ren(g), state["recursive"]


def has_struct(p):
    if p[0] in ('replace', 'cmt', 'constant') and isinstance(p[2], tuple) and p[2] and p[2][0] == 'struct':
        return True
    return any(has_struct(c) for c in children(p))


# ------------------------------------------------------------------------------------------------ generator
class Gen:
    def __init__(self, rng, max_depth=4, features=None):
        self.r = rng
        self.max_depth = max_depth
        self.only = features      # None = everything, else a set of kinds allowed

    def text_for(self, p, maxlen=8):
        """text assembled from the literals / set members of the grammar and alphabet noise: far more matches"""
        r = self.r
        if r.chance(1, 4):
            return self.text(maxlen)
        pieces = []

        def walk(q):
            if q[0] == 'str' and q[1]:
                pieces.append(q[1])
            elif q[0] == 'set' and q[1]:
                pieces.append(bytes([q[1][0]]))
            elif q[0] == 'range':
                pieces.append(bytes([q[1][0][0]]))
            elif q[0] == 'readint':
                pieces.append(bytes([r.choice([0, 1, 2, 3, 255, 128])]) * max(1, q[1]))
            elif q[0] == 'lenprefix':
                pieces.append(bytes([r.choice([0, 1, 2, 49, 50])]))
            for c in children(q):
                walk(c)
        walk(p)
        out = b""
        n = r.choice([0, 1, 2, 2, 3, 3, 4, 5, 6])
        for _ in range(n):
            if pieces and r.chance(2, 3):
                out += r.choice(pieces)
            else:
                out += bytes([ALPHA[r.below(len(ALPHA))]])
        return out[:maxlen + 2]

    def text(self, maxlen=8):
        r = self.r
        n = r.choice([0, 0, 1, 1, 2, 2, 3, 3, 4, 4, 5, 6, 7, maxlen])
        if r.chance(1, 12):
            return bytes(r.choice([0, 1, 2, 3, 127, 128, 255, 97, 10]) for _ in range(n))
        return bytes(ALPHA[r.below(len(ALPHA))] if not r.chance(1, 10) else r.choice(b"c2 ,") for _ in range(n))

    def lit(self, lo=0):
        r = self.r
        n = r.choice([lo, 1, 1, 1, 2, 2]) if lo == 0 else r.choice([1, 1, 1, 2])
        return bytes(ALPHA[r.below(len(ALPHA))] for _ in range(n))

    def tag(self):
        return self.r.choice([0, 0, 0, 1, 1, 2, 3])

    def scalar(self):
        r = self.r
        k = r.below(8)
        if k == 0:
            return None
        if k == 1:
            return r.chance(1, 2)
        if k in (2, 3):
            return r.range(-3, 12)
        if k in (4, 5):
            return self.lit()
        if k == 6:
            return ('kw', r.choice([b"k", b"key", b"ab"]))
        return r.range(0, 3)

    def subst_val(self, for_cmt=False):
        r = self.r
        if for_cmt:
            return ('fn', r.choice(FUNCS))
        k = r.below(6)
        if k <= 1:
            return ('fn', r.choice(FUNCS))
        if k == 2:
            keys = [b"a", b"b", b"ab", b"1", 0, 1, 2, b""]
            r.shuffle(keys)
            seen, kvs = set(), []
            for key in keys[:r.range(1, 4)]:
                kvs.append((key, self.scalar()))
            return ('struct', kvs)
        return self.scalar()

    def guard_atom(self):
        r = self.r
        k = r.below(4)
        if k == 0:
            return ('str', self.lit(1))
        if k == 1:
            return ('range', [(97, 98)]) if r.chance(1, 2) else ('range', [(48, 57), (97, 122)])
        if k == 2:
            return ('set', b"ab1\n"[:r.range(1, 4)])
        return ('int', 1)

    def ok(self, kind):
        return self.only is None or kind in self.only

    def leaf(self, env):
        r = self.r
        for _ in range(20):
            k = r.below(24)
            if k <= 4:
                return ('str', self.lit())
            if k == 5:
                return ('int', r.range(-2, 3))
            if k == 6 and self.ok('bool'):
                return ('bool', r.chance(1, 2))
            if k == 7:
                return r.choice([('range', [(97, 98)]), ('range', [(48, 57)]), ('range', [(97, 122), (48, 50)]), ('range', [(10, 10), (98, 98)])])
            if k == 8:
                return ('set', bytes(sorted(set(ALPHA[r.below(len(ALPHA))] for _ in range(r.range(0, 3))))))
            if k == 9 and self.ok('position'):
                return ('position', self.tag())
            if k == 10 and self.ok('line'):
                return (r.choice(['line', 'column']), self.tag())
            if k in (11, 12) and self.ok('constant'):
                return ('constant', self.tag(), self.scalar())
            if k == 13 and self.ok('argument'):
                return ('argument', r.range(0, 2), self.tag())
            if k in (14, 15) and self.ok('backref') and not env.get('smallint'):
                return ('backref', r.range(1, 3), self.tag())
            if k in (16, 17) and self.ok('backmatch'):
                return ('backmatch', r.choice([0, 1, 1, 2, 3]))
            if k == 18 and self.ok('readint'):
                signed = r.chance(1, 2)
                width = r.choice([0, 1, 1, 2, 2, 3, 4, 6, 7, 8])
                if env.get('smallint'):
                    width = r.choice([0, 1, 1])      # a lenprefix count: keep the repetition count small
                if signed and width == 0:
                    width = 1     # (int 0): shift by 64 in peg_convert_u64_s64 (UBSan); covered by its own corpus case
                return ('readint', width, signed, r.chance(1, 2), self.tag())
            if k in (19, 20, 21) and env['refs'] and self.ok('ref'):
                return ('ref', r.choice(env['refs']))
            if k == 22 and self.ok('ref'):
                dn = r.choice(DEFAULT_NAMES)
                base = dn[0].lower()
                # a default rule body is read in the referencing scope: :d+ uses a user rule :d when there is one,
                # so it is only as safe (left recursion) as a direct reference to that user rule
                if base in env.get('visible', []) and base not in env['refs']:
                    continue
                return ('ref', dn)
            if k == 23 and self.ok('error') and r.chance(1, 6):
                return ('error0',)
        return ('str', self.lit())

    def patt(self, d, env):
        """env: refs = names that may be referenced here without risking left recursion; guarded = names that may be
        referenced once a character has been consumed; acc = inside accumulate (informational)"""
        r = self.r
        if d <= 0 or r.chance(1, 5):
            return self.leaf(env)
        P = lambda e=env: self.patt(d - 1, e)
        for _ in range(30):
            k = r.below(46)
            if k <= 5:
                n = r.range(1, 4) if not r.chance(1, 15) else 0
                items, e = [], env
                for _ in range(n):
                    if e is env and env['guarded'] and r.chance(1, 3):
                        items.append(self.guard_atom())
                        e = dict(env, refs=sorted(set(env['refs']) | set(env['guarded'])))
                    else:
                        items.append(self.patt(d - 1, e))
                return ('seq', items)
            if k <= 9:
                n = r.range(1, 3) if not r.chance(1, 15) else 0
                return ('choice', [P() for _ in range(n)])
            if k == 10:
                return ('any', P())
            if k == 11:
                return ('some', P())
            if k == 12:
                return ('opt', P())
            if k == 13:
                lo = r.range(0, 2)
                return ('between', lo, lo + r.range(0, 2), P())
            if k == 14:
                return ('atleast', r.range(0, 2), P())
            if k == 15:
                return ('atmost', r.range(0, 3), P())
            if k == 16:
                return ('repeat', r.range(0, 3), P())
            if k == 17:
                return ('not', P())
            if k == 18:
                return ('if', P(), P())
            if k == 19:
                return ('ifnot', P(), P())
            if k == 20 and self.ok('look'):
                off = r.choice([0, 0, 1, -1, -1, 2, -2, -3])
                e = env if off >= 0 else dict(env, refs=[n for n in env['refs'] if n in env.get('dag', [])], guarded=[])
                return ('look', off, self.patt(d - 1, e))
            if k == 21:
                return ('to', P())
            if k == 22:
                return ('thru', P())
            if k in (23, 24, 25):
                return ('capture', self.tag(), P())
            if k in (26, 27) and self.ok('accumulate'):
                return ('accumulate', self.tag(), self.patt(d - 1, dict(env, acc=True)))
            if k in (28, 29) and self.ok('group'):
                return ('group', self.tag(), P())
            if k == 30 and self.ok('drop'):
                return ('drop', P())
            if k == 31 and self.ok('onlytags'):
                return ('onlytags', P())
            if k in (32, 33) and self.ok('replace'):
                return ('replace', self.tag(), self.subst_val(), P())
            if k == 34 and self.ok('cmt'):
                return ('cmt', self.tag(), self.subst_val(True), P())
            if k == 35 and self.ok('unref'):
                return ('unref', self.tag(), P())
            if k == 36 and self.ok('nth'):
                return ('nth', r.range(0, 2), self.tag(), P())
            if k == 37 and self.ok('error') and r.chance(1, 3):
                return ('error', P())
            if k in (38, 39) and self.ok('lenprefix'):
                # length pattern: something that captures a small integer first, most of the time
                lp = r.below(5)
                if lp == 0:
                    n = self.patt(d - 1, dict(env, smallint=True))
                elif lp == 1:
                    n = ('readint', 1, False, False, 0)
                elif lp == 2:
                    n = ('number', 0, 0, ('range', [(48, 57)]))
                elif lp == 3:
                    n = ('seq', [P(), ('constant', 0, r.range(-1, 3))])
                else:
                    n = ('constant', self.tag(), r.range(0, 3))
                return ('lenprefix', n, P())
            if k in (40, 41) and self.ok('sub'):
                return ('sub', P(), P())
            if k == 42 and self.ok('split'):
                return ('split', P(), P())
            if k == 43 and self.ok('til'):
                return ('til', P(), P())
            if k == 44 and self.ok('number') and not env.get('smallint'):
                return ('number', r.choice([0, 0, 2, 10, 16]), self.tag(), P())
            if k == 45 and self.ok('grammar') and d >= 2:
                return self.grammar(d - 1, env)
        return self.leaf(env)

    def grammar(self, d, env):
        """nested (or top-level) grammar with named rules; rule i may reference rules j > i freely (a DAG) and any rule
        of this grammar once a character has been consumed"""
        r = self.r
        pool = ["p", "q", "a", "d", "s"]          # a, d, s shadow default-peg-grammar entries
        r.shuffle(pool)
        names = ["main"] + pool[:r.range(0, 3)]
        rules = []
        for i, n in enumerate(names):
            later = names[i + 1:]
            # `main` of an enclosing grammar is shadowed, so only non-main outer names stay visible
            outer_refs = [x for x in env['refs'] if x != "main" and x not in names]
            outer_guarded = [x for x in env['guarded'] if x != "main" and x not in names]
            e = dict(env, refs=sorted(set(later) | set(outer_refs)), guarded=sorted(set(names) | set(outer_guarded)),
                     visible=sorted(set(names) | set(env.get('visible', []))),
                     dag=sorted(set(later) | set(x for x in env.get('dag', []) if x not in names)))
            rules.append((n, self.patt(d, e)))
        return ('grammar', rules)

    def top(self):
        r = self.r
        env = dict(refs=[], guarded=[], acc=False, dag=[])
        d = r.range(1, self.max_depth)
        if r.chance(1, 4) and self.ok('grammar'):
            return self.grammar(d, env)
        return self.patt(d, env)

    # ---- templates: a failing branch, after it made captures, inside a recovering combinator, inside a capture mode
    def failing(self, d, env):
        """a pattern that makes captures (tagged and untagged, scratch) and then fails - or, sometimes, succeeds"""
        r = self.r
        caps = []
        for _ in range(r.range(1, 3)):
            caps.append(r.choice([('capture', self.tag(), ('int', r.range(0, 1))), ('constant', self.tag(), self.scalar()),
                                  ('position', self.tag()), ('group', self.tag(), ('capture', 0, ('int', 0))),
                                  ('accumulate', self.tag(), ('capture', 0, ('int', r.range(0, 1))))]))
        tail = r.choice([('bool', False), ('bool', False), ('str', b"\x00zz"), ('not', ('int', 0)), ('int', 30), ('backmatch', 3),
                         ('bool', True)])
        inner = ('seq', caps + [tail])
        k = r.below(24)
        X = inner
        small = lambda: self.patt(min(d, 1), env)
        if k == 0:
            return ('lenprefix', X, small())
        if k == 1:
            return ('lenprefix', ('seq', [('constant', 0, r.range(0, 2))] + caps), ('seq', [('capture', 0, ('int', 1))] + ([tail] if r.chance(1, 2) else [])))
        if k == 2:
            return ('sub', X, small())
        if k == 3:
            return ('sub', ('any', ('int', 1)) if r.chance(1, 2) else ('int', r.range(0, 2)), X)
        if k == 4:
            return ('til', X, small())
        if k == 5:
            return ('til', r.choice([('str', b"b"), ('int', 1), ('str', b"")]), X)
        if k == 6:
            return ('split', r.choice([('str', b"b"), ('str', b"\n"), ('capture', 1, ('str', b"1"))]), X)
        if k == 7:
            return ('group', self.tag(), X)
        if k == 8:
            return ('accumulate', self.tag(), X)
        if k == 9:
            return ('replace', self.tag(), self.subst_val(), X)
        if k == 10:
            return ('cmt', self.tag(), ('fn', r.choice(["f-false", "f-last", "f-two", "f-true"])), ('seq', caps))
        if k == 11:
            return ('nth', r.range(0, 3), self.tag(), ('seq', caps))
        if k == 12:
            return ('unref', self.tag(), X)
        if k == 13:
            return ('number', r.choice([0, 2, 16]), self.tag(), ('seq', caps + [('any', ('int', 1))]))
        if k == 14:
            return ('look', r.choice([0, 1, -1]), X)
        if k == 15:
            return ('if', ('seq', caps), tail)
        if k == 16:
            return ('between', r.range(0, 2), r.range(2, 3), ('seq', caps + [('int', 1)]))
        if k == 17:
            return ('repeat', r.range(1, 3), ('seq', caps + [('int', 1)]))
        if k == 18:
            return ('to', X)
        if k == 19:
            return ('thru', ('seq', caps + [('str', b"b")]))
        if k == 20:
            return ('drop', X)
        if k == 21:
            return ('onlytags', X)
        if k == 22:
            return ('capture', self.tag(), X)
        return X

    def recover(self, f, d, env):
        """a combinator that goes on after `f` failed"""
        r = self.r
        k = r.below(12)
        if k <= 2:
            return ('choice', [f, self.patt(min(d, 1), env)])
        if k == 3:
            return ('choice', [f, self.failing(d, env), ('bool', True)])
        if k == 4:
            return ('opt', f)
        if k == 5:
            return ('any', f)
        if k == 6:
            return ('not', f)
        if k == 7:
            return ('ifnot', f, self.patt(min(d, 1), env))
        if k == 8:
            return ('atmost', 2, f)
        if k == 9:
            return ('seq', [('to', f) if r.chance(1, 2) else ('thru', f)])
        if k == 10:
            return ('between', 0, 2, f)
        return ('choice', [('seq', [self.patt(min(d, 1), env), f]), ('bool', True)])

    def probe(self):
        """captures that make the state after recovery visible"""
        r = self.r
        k = r.below(8)
        if k <= 2:
            return ('capture', self.tag(), ('int', r.range(0, 1)))
        if k == 3:
            return ('backref', r.range(1, 3), 0)
        if k == 4:
            return ('position', 0)
        if k == 5:
            return ('constant', 0, self.scalar())
        if k == 6:
            return ('backmatch', r.range(0, 3))
        return ('capture', 0, ('any', ('int', 1)))

    def context(self):
        r = self.r
        env = dict(refs=[], guarded=[], acc=False, dag=[])
        body = [self.probe() for _ in range(r.range(0, 1))]
        body.append(self.recover(self.failing(2, env), 2, env))
        body += [self.probe() for _ in range(r.range(1, 2))]
        p = ('seq', body)
        k = r.below(10)
        if k <= 2:
            p = ('accumulate', self.tag(), p)
        elif k == 3:
            p = ('group', self.tag(), p)
        elif k == 4:
            p = ('replace', self.tag(), ('fn', 'f-cat'), p)
        elif k == 5:
            p = ('accumulate', 0, ('seq', [('group', 0, p), self.probe()]))
        elif k == 6:
            p = ('sub', ('any', ('int', 1)), p)
        elif k == 7:
            p = ('group', 0, ('accumulate', self.tag(), p))
        if r.chance(1, 3):
            p = ('seq', [p, self.probe(), ('backref', r.range(1, 3), 0)] if r.chance(1, 2) else [p, self.probe()])
        if r.chance(1, 5):
            p = ('choice', [('seq', [p, ('bool', False)]), p])
        return p

    # ---- templates: nested text windows (sub / til / split inside sub / til / split); after the INNER window is left - by a
    # match or by a failure that an enclosing choice / opt / not recovers from - matching goes on inside the ENCLOSING window
    # with patterns whose result depends on where that window ends
    def window_sensor(self):
        r = self.r
        k = r.below(12)
        if k <= 1:
            return ('capture', 0, ('to', ('int', -1)))
        if k == 2:
            return ('int', -1)
        if k <= 4:
            return ('capture', self.tag(), ('any', ('int', 1)))
        if k == 5:
            return ('capture', 0, ('some', ('int', 1)))
        if k == 6:
            return ('str', self.lit(1) + self.lit(1))          # a literal that may extend past the window
        if k == 7:
            return ('seq', [('any', ('int', 1)), ('position', 0)])
        if k == 8:
            return ('capture', 0, ('thru', ('int', -1)))
        if k == 9:
            return ('seq', [('int', r.range(1, 2)), ('not', ('int', 1))])
        if k == 10:
            return ('capture', 0, ('between', 0, 3, self.guard_atom()))
        return ('seq', [('opt', ('int', 1)), ('int', -1), ('position', 0)])

    def window_bound(self):
        """the pattern that determines a window: (sub BOUND ..) / separator / terminus"""
        r = self.r
        k = r.below(8)
        if k <= 1:
            return ('int', r.range(1, 4))
        if k == 2:
            return ('str', self.lit(1))
        if k == 3:
            return ('to', ('str', self.lit(1)))
        if k == 4:
            return ('thru', ('str', self.lit(1)))
        if k == 5:
            return ('seq', [('int', 1), ('int', 1)])
        if k == 6:
            return ('some', self.guard_atom())
        return ('any', ('int', 1))

    def window_of(self, body, kinds=('sub', 'sub', 'sub', 'til', 'split')):
        r = self.r
        k = r.choice(list(kinds))
        if k == 'sub':
            return ('sub', self.window_bound(), body)
        sep = ('str', r.choice([b"b", b"1", b"\n", b"a", b"b1"])) if r.chance(3, 4) else self.guard_atom()
        return (k, sep, body)

    def windows(self):
        r = self.r
        env = dict(refs=[], guarded=[], acc=False, dag=[])
        # the inner window: usually small; its body matches, fails, or captures
        ib = r.choice([('int', 1), ('int', r.range(0, 2)), ('str', self.lit(1)), ('bool', False), ('capture', 0, ('any', ('int', 1))),
                       ('seq', [('int', 1), ('int', -1)]), ('str', b"\x00x"), self.window_sensor()])
        inner = self.window_of(ib)
        if r.chance(1, 5):                                      # three levels
            inner = self.window_of(('seq', [inner, self.window_sensor()]))
        k = r.below(8)
        if k <= 2:
            mid = [inner]
        elif k == 3:
            mid = [('choice', [inner, ('bool', True)])]
        elif k == 4:
            mid = [('opt', inner)]
        elif k == 5:
            mid = [('not', inner)] if r.chance(1, 2) else [('ifnot', inner, ('bool', True))]
        elif k == 6:
            mid = [('any', inner)] if r.chance(1, 2) else [('between', 0, 2, inner)]
        else:
            mid = [self.probe(), inner]
        body = ('seq', mid + [self.window_sensor() for _ in range(r.range(1, 2))])
        if r.chance(1, 6):
            body = ('choice', [('seq', [inner, ('bool', False)]), self.window_sensor()])
        p = self.window_of(body)
        k = r.below(8)
        if k == 0:
            p = ('accumulate', self.tag(), p)
        elif k == 1:
            p = ('group', 0, p)
        elif k == 2:
            p = ('seq', [p, self.window_sensor()])
        elif k == 3:
            p = ('seq', [('opt', ('int', 1)), p, ('position', 0)])
        elif k == 4:
            p = ('any', p)
        return p

    # ---- templates: a TAGGED capturing combinator nested inside another capture mode (accumulate in accumulate, directly,
    # under repetition, through a named rule ...) and a later back-reference / back-match that reads the tag
    def tagged_nest(self):
        r = self.r
        t = r.range(1, 3)
        atom = lambda: r.choice([('str', self.lit(1)), ('int', 1), ('range', [(97, 122)]), ('range', [(48, 57), (97, 98)]), ('set', b"ab")])
        cap = lambda: ('capture', 0, atom())
        k = r.below(10)
        if k <= 4:
            ib = r.choice([cap(), ('seq', [cap(), cap()]), ('some', cap()), ('seq', [cap(), ('position', 0)]), ('capture', 0, ('some', atom()))])
            inner = ('accumulate', t, ib)
        elif k == 5:
            inner = ('group', t, ('seq', [cap(), cap()]))
        elif k == 6:
            inner = ('capture', t, ('some', atom()))
        elif k == 7:
            inner = ('replace', t, r.choice([('fn', 'f-cat'), b"ab", 7]), cap())
        elif k == 8:
            inner = ('number', 0, t, ('some', ('range', [(48, 57)])))
        else:
            inner = ('accumulate', t, ('accumulate', 0, cap()))
        use_rule = r.chance(1, 5)
        site = ('ref', 'p') if use_rule else inner
        k = r.below(8)
        if k == 0:
            site = ('some', site)
        elif k == 1:
            site = ('opt', site)
        elif k == 2:
            site = ('choice', [('seq', [site, ('bool', False)]), site])
        elif k == 3:
            site = ('seq', [cap(), site])
        elif k == 4:
            site = ('between', 1, 2, site)
        k = r.below(6)
        if k <= 2:
            reader = [('backref', t, self.tag() if r.chance(1, 3) else 0)]
        elif k == 3:
            reader = [('backmatch', t)]
        elif k == 4:
            reader = [('str', self.lit(1)), ('backmatch', t)]
        else:
            reader = [('backref', t, 0), ('backmatch', t)]
        inside = r.chance(2, 3)                                   # reader inside the outer mode, or after it
        body = ('seq', [site] + (reader if inside else []) + ([cap()] if r.chance(1, 3) else []))
        k = r.below(8)
        if k <= 3:
            outer = ('accumulate', self.tag(), body)
        elif k == 4:
            outer = ('accumulate', 0, ('accumulate', 0, body))
        elif k == 5:
            outer = ('group', self.tag(), ('accumulate', 0, body))
        elif k == 6:
            outer = ('accumulate', 0, ('seq', [('group', 0, cap()), body]))
        else:
            outer = ('replace', 0, ('fn', 'f-cat'), ('accumulate', 0, body))
        items = [outer] + ([] if inside else reader)
        if r.chance(1, 4):                                        # an older capture under the same tag (a stale value to pick up)
            items = [('capture', t, atom())] + items
        p = ('seq', items) if len(items) > 1 else outer
        if use_rule:
            return ('grammar', [("main", p), ("p", inner)])
        return p

    # ---- templates: nested grammars, shadowed names, outer rules reached from inner grammars, recursion through them
    def scoping(self):
        r = self.r
        lits = [b"a", b"b", b"1", b"ab", b"\n", b"b1"]
        r.shuffle(lits)
        shadow = r.choice(["x", "a", "d", "s", "x"])          # the name bound in both grammars
        via = r.choice(["c", "p", "w"])                        # outer rule that mentions it
        cap = lambda p: ('capture', 0, p) if r.chance(1, 2) else p
        use = ('ref', shadow)
        if shadow in ("a", "d") and r.chance(1, 2):
            use = ('ref', shadow + r.choice(["+", "*"]))       # through the default grammar: (some :a) ...
        k = r.below(5)
        if k == 0:
            via_body = ('seq', [use])
        elif k == 1:
            via_body = cap(('some', use))
        elif k == 2:                                           # recursive outer rule
            via_body = ('seq', [use, ('any', ('ref', via)), ('ref', "close")])
        elif k == 3:
            via_body = ('choice', [('seq', [use, ('ref', via)]), use])
        else:
            via_body = ('ref', shadow)                         # keyword -> keyword chain
        inner_rules = [("main", r.choice([('seq', [cap(('ref', via)), ('str', lits[2])]), cap(('ref', via)),
                                         ('seq', [('ref', shadow), cap(('ref', via))]),
                                         ('any', ('choice', [cap(('ref', via)), ('ref', shadow)]))])),
                       (shadow, ('str', lits[1]))]
        if k == 2 and r.chance(1, 2):
            inner_rules.append(("close", ('str', lits[3])))
        if r.chance(1, 4):                                     # a third level that shadows again
            inner_rules[0] = ("main", ('seq', [inner_rules[0][1], ('grammar', [("main", ('opt', cap(('ref', via)))), (shadow, ('str', lits[4]))])]))
        inner = ('grammar', inner_rules)
        first = r.below(4)
        if first == 0:
            main = ('seq', [cap(('ref', via)), inner, ('position', 0)])         # outer use first, then through the inner grammar
        elif first == 1:
            main = ('seq', [inner, cap(('ref', shadow)), ('position', 0)])      # reached only through the inner grammar
        elif first == 2:
            main = ('seq', [('opt', inner), ('opt', cap(('ref', via))), ('position', 0)])
        else:
            main = ('choice', [('seq', [inner, ('int', -1)]), ('seq', [cap(('ref', via)), ('position', 0)])])
        rules = [(shadow, ('str', lits[0])), (via, via_body), ("close", ('str', lits[5] if k != 2 else b"b")), ("main", main)]
        r.shuffle(rules)
        return ('grammar', rules)

    def scoping_text(self, g):
        r = self.r
        pieces = []

        def walk(q):
            if q[0] == 'str' and q[1]:
                pieces.append(q[1])
            for c in children(q):
                walk(c)
        walk(g)
        pieces += [b"2", b"0"]
        return b"".join(r.choice(pieces) for _ in range(r.range(0, 5)))[:10]

    def args(self):
        return [self.scalar() for _ in range(self.r.choice([0, 0, 1, 2, 3]))]

    def subst(self):
        r = self.r
        k = r.below(5)
        if k == 0:
            return ('fn', r.choice(["f-cat", "f-count", "f-first", "f-last"]))
        if k == 1:
            return b""
        return r.choice([b"X", b"<>", b"ab", b"1"])
