"""C12: small independent reference PEG interpreter (python) for the core combinators, written from the documented
meaning of each combinator and not from peg.c or the Lean model.  Used as a second oracle so that a mistake shared by
the Lean Spec/Den and Op models cannot mask an implementation bug.

match_at(grammar, text, start, args) -> None | (end, [captures]) ; raises Unsupported for forms outside the core set,
PegError for (error ...), Deep when the recursion limit of the implementation would be exceeded.

Values: None True False int bytes ('kw', b) ('arr', [..])
"""
import sys

from peggen import DEFAULT_GRAMMAR

sys.setrecursionlimit(20000)


class Unsupported(Exception):
    pass


class PegError(Exception):
    def __init__(self, value):
        self.value = value


class Deep(Exception):
    pass


def tostr(v):
    if v is None:
        return b""
    if v is True:
        return b"true"
    if v is False:
        return b"false"
    if isinstance(v, int):
        return str(v).encode()
    if isinstance(v, bytes):
        return v
    if v[0] == 'kw':
        return v[1]
    if v[0] == 'arr':
        return b"<array>"
    raise Unsupported("tostr")


class Out:
    """what a successful sub-match produced: captures (normal mode) or text (accumulate mode), plus tagged captures"""
    __slots__ = ("caps", "acc", "tags")

    def __init__(self, caps=(), acc=b"", tags=()):
        self.caps, self.acc, self.tags = list(caps), acc, list(tags)

    def __add__(self, o):
        return Out(self.caps + o.caps, self.acc + o.acc, self.tags + o.tags)


def emit(mode_acc, v, tag):
    return Out([] if mode_acc else [v], tostr(v) if mode_acc else b"", [(tag, v)])


class Ref:
    def __init__(self, text, args):
        self.text, self.args = text, args
        self.steps = 0

    def lookup(self, scopes, name):
        # user rules: lexical scope - the body is read in the grammar that defines the name (and its enclosing ones)
        for i, sc in enumerate(scopes):
            for n, p in sc:
                if n == name:
                    return scopes[i:], p
        # default-peg-grammar entries: observed - read in the scope of the reference
        for n, p in DEFAULT_GRAMMAR:
            if n == name:
                return scopes, p
        raise Unsupported("unknown rule " + name)

    def m(self, p, pos, end, acc, tags, scopes, depth):
        """match p at pos in window [.., end); acc = accumulate mode; tags = tagged captures so far (list of (tag, v)).
        Returns None or (newpos, Out)."""
        self.steps += 1
        if self.steps > 200000 or depth > 900:
            raise Deep()
        t = self.text
        k = p[0]
        M = lambda q, ps=pos, e=end, a=acc, tg=tags, d=depth + 1: self.m(q, ps, e, a, tg, scopes, d)
        if k == 'str':
            s = p[1]
            return (pos + len(s), Out()) if pos + len(s) <= end and t[pos:pos + len(s)] == s else None
        if k == 'int':
            n = p[1]
            if n >= 0:
                return (pos + n, Out()) if pos + n <= end else None
            return (pos, Out()) if pos + (-n) > end else None
        if k == 'bool':
            return (pos, Out()) if p[1] else None
        if k == 'range':
            return (pos + 1, Out()) if pos < end and any(lo <= t[pos] <= hi for lo, hi in p[1]) else None
        if k == 'set':
            return (pos + 1, Out()) if pos < end and t[pos] in p[1] else None
        if k == 'ref':
            sc, q = self.lookup(scopes, p[1])
            return self.m(q, pos, end, acc, tags, sc, depth + 1)
        if k == 'grammar':
            sc = [p[1]] + scopes
            return self.m(dict(p[1])["main"], pos, end, acc, tags, sc, depth + 1)
        if k == 'seq':
            out, cur = Out(), pos
            for q in p[1]:
                r = M(q, cur, tg=tags + out.tags)
                if r is None:
                    return None
                cur, o = r
                out = out + o
            return cur, out
        if k == 'choice':
            for q in p[1]:
                r = M(q)
                if r is not None:
                    return r
            return None
        if k in ('any', 'some', 'opt', 'between', 'atleast', 'atmost', 'repeat'):
            INF = None
            if k == 'any':
                lo, hi, q = 0, INF, p[1]
            elif k == 'some':
                lo, hi, q = 1, INF, p[1]
            elif k == 'opt':
                lo, hi, q = 0, 1, p[1]
            elif k == 'between':
                lo, hi, q = p[1], p[2], p[3]
            elif k == 'atleast':
                lo, hi, q = p[1], INF, p[2]
            elif k == 'atmost':
                lo, hi, q = 0, p[1], p[2]
            else:
                lo, hi, q = p[1], p[1], p[2]
            out, cur, n = Out(), pos, 0
            while hi is None or n < hi:
                r = M(q, cur, tg=tags + out.tags)
                if r is None:
                    break
                if r[0] == cur and hi is None:
                    break             # unbounded repetition stops at an empty iteration (and drops its captures)
                cur, o = r
                out = out + o
                n += 1
            return (cur, out) if n >= lo else None
        if k == 'not':
            return (pos, Out()) if M(p[1]) is None else None
        if k == 'if':
            r = M(p[1])
            if r is None:
                return None
            r2 = M(p[2], tg=tags + r[1].tags)
            return None if r2 is None else (r2[0], r[1] + r2[1])    # observed: captures of the condition are kept
        if k == 'ifnot':
            return M(p[2]) if M(p[1]) is None else None
        if k == 'look':
            at = pos + p[1]
            if at < 0 or at > end:
                return None
            r = M(p[2], at)
            return None if r is None else (pos, r[1])
        if k in ('to', 'thru'):
            cur = pos
            while cur <= end:
                r = M(p[1], cur)
                if r is not None:
                    return (cur, Out()) if k == 'to' else r
                cur += 1
            return None
        if k == 'capture':
            r = M(p[2])
            if r is None:
                return None
            return r[0], r[1] + emit(acc, t[pos:r[0]], p[1])
        if k == 'position':
            return pos, emit(acc, pos, p[1])
        if k == 'constant':
            v = p[2]
            if isinstance(v, tuple) and v[0] not in ('kw',):
                raise Unsupported("constant kind")
            return pos, emit(acc, v, p[1])
        if k == 'argument':
            return pos, emit(acc, self.args[p[1]] if p[1] < len(self.args) else None, p[2])
        if k == 'group':
            r = M(p[2], a=False)
            if r is None:
                return None
            return r[0], Out(tags=r[1].tags) + emit(acc, ('arr', r[1].caps), p[1])
        if k == 'accumulate':
            if acc and p[1] == 0:
                return M(p[2])
            r = M(p[2], a=True)
            if r is None:
                return None
            return r[0], Out(tags=r[1].tags) + emit(acc, r[1].acc, p[1])
        if k == 'drop':
            r = M(p[1])
            return None if r is None else (r[0], Out())
        if k == 'backref':
            for tg, v in reversed(tags):
                if tg == p[1]:
                    return pos, emit(acc, v, p[2])
            return None
        if k == 'backmatch':
            for tg, v in reversed(tags):
                if tg == p[1]:
                    if not isinstance(v, bytes):
                        return None
                    return (pos + len(v), Out()) if pos + len(v) <= end and t[pos:pos + len(v)] == v else None
            return None
        if k == 'sub':
            r = M(p[1])
            if r is None:
                return None
            r2 = M(p[2], pos, e=r[0], tg=tags + r[1].tags)
            return None if r2 is None else (r[0], r[1] + r2[1])
        if k == 'error0':
            raise PegError(('match', pos))
        raise Unsupported(k)


CORE = {'str', 'int', 'bool', 'range', 'set', 'ref', 'grammar', 'seq', 'choice', 'any', 'some', 'opt', 'between', 'atleast',
        'atmost', 'repeat', 'not', 'if', 'ifnot', 'look', 'to', 'thru', 'capture', 'position', 'constant', 'argument', 'group',
        'accumulate', 'drop', 'backref', 'backmatch', 'sub'}


def match_at(p, text, start, args):
    ref = Ref(text, list(args))
    r = ref.m(p, start, len(text), False, [], [], 0)
    if r is None:
        return None
    return r[0], r[1].caps


def show(v):
    if v is None:
        return "n"
    if v is True:
        return "t"
    if v is False:
        return "f"
    if isinstance(v, int):
        return "i%d" % v
    if isinstance(v, bytes):
        return "s" + v.hex()
    if v[0] == 'kw':
        return "k" + v[1].hex()
    if v[0] == 'arr':
        return "a[" + ",".join(show(x) for x in v[1]) + "]"
    raise Unsupported("show")
