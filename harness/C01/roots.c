/* C01 — op-history correspondence harness for gc.c's root-set protocol, suspension and collection decision.
 *
 * Reads one op per line on stdin, executes it with the REAL functions of the library under test (janet_gcroot,
 * janet_gcunroot, janet_gcunrootall, janet_gclock, janet_gcunlock, janet_gcpressure, janet_collect, maybe_collect (through
 * the wrapper TU w_vm.c), janet_smalloc, janet_sfree, janet_string / janet_array for allocation) and prints
 *     m <model op>      what the Lean driver jm_c01 must replay (values as <JanetType>:<payload>, sizes by the documented
 *                       allocation formulas, NOT read back from next_collection)
 *     st <state>        janet_vm after the op: return value, root_count, root_capacity, gc_suspend, gc_mark_phase,
 *                       next_collection, gc_interval, block_count, scratch array, number of collections that ran
 *                       (midpoint hook), the WHOLE roots array in order, and which created objects are still allocated
 * checks/C01.py diffs the `st` lines with the driver's.  Only janet_init() is run: no core environment, no fiber, so the
 * roots array is exactly what the ops make it (plus what janet_init roots, printed as the initial state).
 *
 * ops:  news <len> | newa <k>... | root <v> | unroot <v> | unrootall <v> | lock | unlock <handle-index> | unlockv <int> |
 *       pressure <n> | setinterval <n> | collect | maybe | maybef | smalloc <n> | sfree <k>
 * v:    o<k> created object | n<int> number | nil | t | f | p<int> raw pointer
 */
#include <janet.h>
#include "state.h"
#include "gc.h"
#include <stdio.h>
#include <stdlib.h>
#include <string.h>
#include <stdint.h>

extern void (*janet_verif_gc_midpoint)(void);
extern int (*janet_verif_gc_safepoint)(void);
void c01_maybe_collect(void);          /* w_vm.c: the maybe_collect() macro of vm.c */

#define MAXO 200000
static Janet objs[MAXO];
static void *heads[MAXO];
static char dead[MAXO];
static int nobj = 0;
static void *ext[4096];
static int next_ext = 0;
static int handles[MAXO];
static int nhandles = 0;
static void *scr[MAXO];
static int nscr = 0;
static long ncoll = 0;
static int force = 0;

static void midpoint(void) { ncoll++; }
static int safepoint(void) { return force; }

static void *head_of(Janet x) {
    switch (janet_type(x)) {
        case JANET_STRING: case JANET_SYMBOL: case JANET_KEYWORD: return janet_string_head(janet_unwrap_string(x));
        case JANET_TUPLE: return janet_tuple_head(janet_unwrap_tuple(x));
        case JANET_STRUCT: return janet_struct_head(janet_unwrap_struct(x));
        case JANET_ABSTRACT: return janet_abstract_head(janet_unwrap_abstract(x));
        default: return janet_unwrap_pointer(x);
    }
}

static long payload(Janet x) {
    switch (janet_type(x)) {
        case JANET_NIL: return 0;
        case JANET_BOOLEAN: return janet_unwrap_boolean(x);
        case JANET_NUMBER: { double d = janet_unwrap_number(x); return (d == (double)(long) d && d >= 0) ? (long) d : 0; }
        case JANET_POINTER: case JANET_CFUNCTION: return (long)(intptr_t) janet_unwrap_pointer(x);
        default: break;
    }
    void *h = head_of(x);
    for (int k = nobj - 1; k >= 0; k--) if (!dead[k] && heads[k] == h) return k;
    for (int j = 0; j < next_ext; j++) if (ext[j] == h) return 900000 + j;
    ext[next_ext] = h;
    return 900000 + next_ext++;
}

static int parse_val(const char *t, Janet *out) {
    if (t[0] == 'o') { int k = atoi(t + 1); if (k < 0 || k >= nobj || dead[k]) return 0; *out = objs[k]; return 1; }
    if (t[0] == 'n' && t[1] != 'i') { *out = janet_wrap_number((double) atol(t + 1)); return 1; }
    if (!strcmp(t, "nil")) { *out = janet_wrap_nil(); return 1; }
    if (!strcmp(t, "t")) { *out = janet_wrap_true(); return 1; }
    if (!strcmp(t, "f")) { *out = janet_wrap_false(); return 1; }
    if (t[0] == 'p') { *out = janet_wrap_pointer((void *)(intptr_t) atol(t + 1)); return 1; }
    return 0;
}

static void refresh_dead(void) {
    /* a created object is allocated iff its head is on one of the block lists */
    static void **set = NULL; static size_t cap = 0; size_t n = 0;
    for (int pass = 0; pass < 2; pass++)
        for (JanetGCObject *b = pass ? janet_vm.weak_blocks : janet_vm.blocks; b; b = b->data.next) {
            if (n == cap) { cap = cap ? 2 * cap : 1024; set = realloc(set, cap * sizeof(void *)); }
            set[n++] = b;
        }
    for (int k = 0; k < nobj; k++) {
        if (dead[k]) continue;
        int found = 0;
        for (size_t i = 0; i < n; i++) if (set[i] == heads[k]) { found = 1; break; }
        if (!found) dead[k] = 1;
    }
}

static void state(long ret) {
    refresh_dead();
    printf("st ret=%ld rc=%zu cap=%zu susp=%d mp=%d next=%zu intv=%zu bc=%zu ncoll=%ld scr=", ret, janet_vm.root_count,
           janet_vm.root_capacity, janet_vm.gc_suspend, janet_vm.gc_mark_phase, janet_vm.next_collection, janet_vm.gc_interval,
           janet_vm.block_count, ncoll);
    for (size_t i = 0; i < janet_vm.scratch_len; i++) {
        int id = -1;
        for (int k = 0; k < nscr; k++) if (scr[k] && (void *) janet_vm.scratch_mem[i]->mem == scr[k]) id = k;
        printf("%s%d", i ? "," : "", id);
    }
    printf(" roots=");
    for (size_t i = 0; i < janet_vm.root_count; i++)
        printf("%s%d:%ld", i ? "," : "", (int) janet_type(janet_vm.roots[i]), payload(janet_vm.roots[i]));
    printf(" live=");
    int first = 1;
    for (int k = 0; k < nobj; k++) if (!dead[k]) { printf("%s%d", first ? "" : ",", k); first = 0; }
    printf("\n");
}

int main(void) {
    char line[1 << 16];
    janet_init();
    janet_verif_gc_midpoint = midpoint;
    janet_verif_gc_safepoint = safepoint;
    printf("m sizeof gcobject=%zu janet=%zu\n", sizeof(JanetGCObject), sizeof(Janet));
    printf("m init cap=%zu susp=%d next=%zu intv=%zu bc=%zu roots=", janet_vm.root_capacity, janet_vm.gc_suspend,
           janet_vm.next_collection, janet_vm.gc_interval, janet_vm.block_count);
    for (size_t i = 0; i < janet_vm.root_count; i++)
        printf("%s%d:%ld", i ? "," : "", (int) janet_type(janet_vm.roots[i]), payload(janet_vm.roots[i]));
    printf("\n");
    state(0);
    while (fgets(line, sizeof line, stdin)) {
        char *tok[4096]; int nt = 0;
        for (char *p = strtok(line, " \t\r\n"); p && nt < 4096; p = strtok(NULL, " \t\r\n")) tok[nt++] = p;
        if (!nt || tok[0][0] == '#') continue;
        Janet v;
        long ret = 0;
        if (!strcmp(tok[0], "news") && nt == 2 && nobj < MAXO) {
            int len = atoi(tok[1]);
            uint8_t *buf = janet_string_begin(len);
            memset(buf, 'x', len);
            objs[nobj] = janet_wrap_string(janet_string_end(buf));
            heads[nobj] = head_of(objs[nobj]);
            printf("m new leaf %d size=%zu\n", (int) JANET_MEMORY_STRING, sizeof(JanetStringHead) + (size_t) len + 1);
            nobj++;
        } else if (!strcmp(tok[0], "newa") && nobj < MAXO) {
            int n = nt - 1;
            JanetArray *a = janet_array(n);
            printf("m new array size=%zu", sizeof(JanetArray));
            for (int i = 0; i < n; i++) {
                int k = atoi(tok[1 + i]);
                int ok = k >= 0 && k < nobj && !dead[k];
                a->data[i] = ok ? objs[k] : janet_wrap_nil();
                printf(" %d", ok ? k : -1);
            }
            a->count = n;
            printf("\n");
            if (n > 0) printf("m pressure %zu\n", (size_t) n * sizeof(Janet));
            objs[nobj] = janet_wrap_array(a);
            heads[nobj] = a;
            nobj++;
        } else if (!strcmp(tok[0], "root") && nt == 2 && parse_val(tok[1], &v)) {
            printf("m root %d:%ld\n", (int) janet_type(v), payload(v));
            janet_gcroot(v);
        } else if (!strcmp(tok[0], "unroot") && nt == 2 && parse_val(tok[1], &v)) {
            printf("m unroot %d:%ld\n", (int) janet_type(v), payload(v));
            ret = janet_gcunroot(v);
        } else if (!strcmp(tok[0], "unrootall") && nt == 2 && parse_val(tok[1], &v)) {
            printf("m unrootall %d:%ld\n", (int) janet_type(v), payload(v));
            ret = janet_gcunrootall(v);
        } else if (!strcmp(tok[0], "lock")) {
            printf("m lock\n");
            ret = janet_gclock();
            if (nhandles < MAXO) handles[nhandles++] = (int) ret;
        } else if (!strcmp(tok[0], "unlock") && nt == 2) {
            int j = atoi(tok[1]);
            int h = (j >= 0 && j < nhandles) ? handles[j] : 0;
            printf("m unlock %d\n", h);
            janet_gcunlock(h);
        } else if (!strcmp(tok[0], "unlockv") && nt == 2) {
            int h = atoi(tok[1]);
            printf("m unlock %d\n", h);
            janet_gcunlock(h);
        } else if (!strcmp(tok[0], "pressure") && nt == 2) {
            size_t n = (size_t) atol(tok[1]);
            printf("m pressure %zu\n", n);
            janet_gcpressure(n);
        } else if (!strcmp(tok[0], "setinterval") && nt == 2) {
            size_t n = (size_t) atol(tok[1]);
            printf("m setinterval %zu\n", n);
            janet_vm.gc_interval = n;      /* what corelib.c janet_core_gcsetinterval does */
        } else if (!strcmp(tok[0], "collect")) {
            size_t cap0 = janet_vm.root_capacity;
            printf("m collect\n");
            janet_collect();
            /* the mark phase spills through janet_gcroot and may have grown the array (not modelled: the driver checks
             * that the new capacity is on the growth orbit of the old one and resynchronises) */
            if (janet_vm.root_capacity != cap0) printf("m capgrew %zu %zu\n", cap0, janet_vm.root_capacity);
        } else if (!strcmp(tok[0], "maybe") || !strcmp(tok[0], "maybef")) {
            force = tok[0][5] == 'f';
            size_t cap0 = janet_vm.root_capacity;
            printf("m safepoint %d\n", force);
            c01_maybe_collect();
            if (janet_vm.root_capacity != cap0) printf("m capgrew %zu %zu\n", cap0, janet_vm.root_capacity);
            force = 0;
        } else if (!strcmp(tok[0], "smalloc") && nt == 2 && nscr < MAXO) {
            printf("m smalloc %d\n", nscr);
            scr[nscr] = janet_smalloc((size_t) atol(tok[1]));
            nscr++;
        } else if (!strcmp(tok[0], "sfree") && nt == 2) {
            int k = atoi(tok[1]);
            /* only ids that are still in the scratch array (an invalid janet_sfree exits the process) */
            int present = 0;
            if (k >= 0 && k < nscr && scr[k])
                for (size_t i = 0; i < janet_vm.scratch_len; i++) if ((void *) janet_vm.scratch_mem[i]->mem == scr[k]) present = 1;
            if (!present) { printf("m nop -2\n"); state(-2); continue; }
            printf("m sfree %d\n", k);
            janet_sfree(scr[k]);
            scr[k] = NULL;
        } else {
            printf("m nop -3\n");
            state(-3);
            continue;
        }
        /* scratch ids released by a collection are gone */
        if (janet_vm.scratch_len == 0) for (int k = 0; k < nscr; k++) scr[k] = NULL;
        state(ret);
    }
    fflush(stdout);
    return 0;
}
