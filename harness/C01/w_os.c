/* wrapper TU: os.c verbatim + accessor for the private JanetProc */
#include "os.c"
typedef void (*c01_edge_fn)(void *u, Janet v, const char *label);
int c01_os_abstract(const JanetAbstractType *t, void *p, c01_edge_fn fn, void *u) {
#ifndef JANET_NO_PROCESSES
    if (t == &ProcAT) {
        JanetProc *proc = p;
        if (proc->in) fn(u, janet_wrap_abstract(proc->in), "proc.in");
        if (proc->out) fn(u, janet_wrap_abstract(proc->out), "proc.out");
        if (proc->err) fn(u, janet_wrap_abstract(proc->err), "proc.err");
        return 1;
    }
#endif
    (void) t; (void) p; (void) fn; (void) u;
    return 0;
}
