/* wrapper TU: filewatch.c verbatim + accessors for the private watcher */
#include "filewatch.c"
typedef void (*c01_edge_fn)(void *u, Janet v, const char *label);
int c01_fw_abstract(const JanetAbstractType *t, void *p, c01_edge_fn fn, void *u) {
#ifdef JANET_FILEWATCH
    if (t == &janet_filewatch_at) {
        JanetWatcher *w = p;
        if (w->channel == NULL) return 1;
        if (w->stream) fn(u, janet_wrap_abstract(w->stream), "watcher.stream");
        fn(u, janet_wrap_abstract(w->channel), "watcher.channel");
        if (w->watch_descriptors) fn(u, janet_wrap_table(w->watch_descriptors), "watcher.watch_descriptors");
        return 1;
    }
#endif
    (void) t; (void) p; (void) fn; (void) u;
    return 0;
}
int c01_fw_fiber_state(JanetFiber *f, c01_edge_fn fn, void *u) {
#ifdef JANET_FILEWATCH
    if (f->ev_callback == watcher_callback_read) {
        /* linux: the callback marks the watcher itself, which is the fiber's ev_state?  see filewatch.c:143 */
        JanetStream *stream = f->ev_stream;
        JanetWatcher *watcher = *((JanetWatcher **) f->ev_state);
        (void) stream;
        if (watcher) fn(u, janet_wrap_abstract(watcher), "fiber.ev_state.watcher");
        return 1;
    }
#endif
    (void) f; (void) fn; (void) u;
    return 0;
}
