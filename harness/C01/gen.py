"""Generator of janet programs for the C01 schedule comparison.

Every program is deterministic, prints only canonical text (no addresses, no hash order of reference keys, no
collector statistics, no weak containers) and keeps a pool of variables whose object graph is mutated by random
statements: containers (incl. cycles), closures, generator fibers, dead fibers with escaped closures, channels and
tasks, timers, marshalling, parser and PEG objects, streams (pipes), sort with callbacks (C re-entering the VM),
deep nesting, string/buffer churn, dropped references.
"""

PRELUDE = r'''
(defn summ [x &opt d]
  (default d 4)
  (def t (type x))
  (cond
    (<= d 0) (string "<" t ">")
    (or (= t :array) (= t :tuple)) (string (if (= t :array) "@" "") "[" (string/join (map |(summ $ (dec d)) (slice x 0 (min 6 (length x)))) " ") (if (> (length x) 6) (string " ..+" (- (length x) 6)) "") "]")
    (or (= t :table) (= t :struct))
    (do
      (def ks (sort (filter |(or (keyword? $) (number? $) (string? $)) (keys x)) (fn [a b] (< (string a) (string b)))))
      (string (if (= t :table) "@" "") "{" (string/join (map |(string (summ $ 1) " " (summ (in x $) (dec d))) (slice ks 0 (min 6 (length ks)))) " ") " #" (length x) "}"))
    (= t :buffer) (string "@\"" (string/slice x 0 (min 24 (length x))) "\"#" (length x))
    (= t :string) (string "\"" (string/slice x 0 (min 24 (length x))) "\"#" (length x))
    (= t :function) "<fn>"
    (= t :fiber) (string "<fiber " (fiber/status x) ">")
    (= t :core/channel) (string "<chan " (ev/count x) ">")
    (or (= t :number) (= t :keyword) (= t :symbol) (= t :boolean) (= t :nil)) (string/format "%j" x)
    (string "<" t ">")))
(defn show [tag x] (print tag " " (summ x)))
(defn ok? [x] (or (array? x) (tuple? x)))
'''

ATOMS = [":a", ":b", ":k1", ":k2", "1", "2", "42", "-7", "3.5", "\"s\"", "\"longer string value\"", "true", "nil", "'sym"]


class Gen:
    def __init__(self, rng, nvars=8, nstmts=40, light=False, sympool=None):
        self.light = light
        self.sympool = sympool or {}      # hash-low-bits class -> names (from harness/C01/symnames.c, the tree's own string hash)
        self.r = rng
        self.nv = nvars
        self.ns = nstmts
        self.tag = 0
        self.kinds = {}

    def v(self):
        return "v%d" % self.r.below(self.nv)

    def atom(self):
        return self.r.choice(ATOMS)

    def val(self, depth=2):
        """an expression that builds a fresh value, possibly referencing pool variables"""
        r = self.r
        k = r.below(12)
        if depth <= 0 or k < 3:
            return self.atom() if r.chance(1, 2) else self.v()
        if k == 3:
            return "@[" + " ".join(self.val(depth - 1) for _ in range(r.range(0, 4))) + "]"
        if k == 4:
            return "[" + " ".join(self.val(depth - 1) for _ in range(r.range(0, 4))) + "]"
        if k == 5:
            return "@{" + " ".join("%s %s" % (r.choice([":a", ":b", ":c", "1", "2", "\"k\""]), self.val(depth - 1)) for _ in range(r.range(0, 3))) + "}"
        if k == 6:
            return "{" + " ".join("%s %s" % (k2, self.val(depth - 1)) for k2 in r.choice([[":a"], [":a", ":b"], [":x", ":y", ":z"], []])) + "}"
        if k == 7:
            return "(buffer %s \"-%d\")" % (self.atom(), r.below(100))
        if k == 8:
            return "(string \"s\" %d (length (string %s)))" % (r.below(1000), self.v())
        if k == 9:
            return "(array/concat @[] (range %d))" % r.range(0, 9)
        if k == 10:
            return "(table/setproto @{:own %s} @{:inherited %s})" % (self.val(depth - 1), self.val(depth - 1))
        return "(struct/with-proto {:p %s} :q %s)" % (self.val(depth - 1), self.val(depth - 1))

    def note(self, k):
        self.kinds[k] = self.kinds.get(k, 0) + 1

    def stmt(self):
        r = self.r
        self.tag += 1
        t = "t%d" % self.tag
        a, b, c = self.v(), self.v(), self.v()
        k = r.below(48)
        if k >= 47:
            # a worker thread (own VM and heap; the schedule applies there too) that allocates, collects and sends a result
            # back through a thread channel; only atoms travel into the thread
            self.note("worker-thread")
            n = r.range(3, 40)
            return ("(do (def tc (ev/thread-chan 4)) (ev/thread (fn [&] (def acc (seq [i :range [0 %d]] @[i (string \"%s-\" i) (keyword \"wk\" i) %s])) "
                    "(def tb (tabseq [x :in acc] (x 2) (x 1))) %s (ev/give tc [(length acc) ((acc %d) 1) (tb :wk%d) (length (string/join (map |($ 1) acc)))])) nil :n) "
                    "(def junk (seq [j :range [0 %d]] @[j])) (show \"%s\" (ev/take tc)))"
                    % (n, t, self.atom(), r.choice(["(gccollect)", ""]), r.below(n), r.below(n), r.range(1, 30), t))
        if k >= 45:
            # buffered channel driven round its item ring: gives and takes interleaved so that the read position ends up
            # numerically above the write position, items built inside a helper (reachable only through the ring),
            # collections / allocation while they are buffered; what is left stays in the channel held by a pool variable
            self.note("chan-ring")
            lim = r.range(2, 7)
            ops, cnt, nxt = [], 0, 0
            for _ in range(r.range(5, 16)):
                c2 = r.below(10)
                if c2 < 5 and cnt < lim:
                    ops.append("(fill %d)" % nxt)
                    nxt += 1
                    cnt += 1
                elif c2 < 8 and cnt > 0:
                    ops.append("(drain)")
                    cnt -= 1
                elif c2 == 8:
                    ops.append("(gccollect)")
                else:
                    ops.append("(def junk (seq [j :range [0 %d]] @[j (string \"jk\" j)]))" % r.range(1, 40))
            return ("(do (def ch (ev/chan %d)) (defn fill [i] (ev/give ch @[(string \"%s-\" i) i @{:k (string \"in-\" i)} %s]) nil) "
                    "(defn drain [] (show \"%s\" (ev/take ch))) %s (set %s ch) (show \"%s-left\" (ev/count ch)))"
                    % (lim, t, b, t, " ".join(ops), a, t))
        if k >= 42 and self.sympool:
            # symbol-cache probe chains: keywords / symbols whose hashes collide at a chosen bucket (last bucket: the chain
            # wraps to bucket 0; bucket 0; last-but-one; an arbitrary one), some garbage, some referenced; allocation /
            # collection; then every name is interned again and compared with the referenced objects
            self.note("symcache-collide")
            cls = r.choice(sorted(self.sympool))
            pool = self.sympool[cls]
            n = min(len(pool), r.range(2, 6))
            start = r.below(len(pool) - n + 1)
            names = pool[start:start + n]
            mk = r.choice(["keyword", "keyword", "symbol"])
            steps = []
            kept = []
            for i, nm in enumerate(names):
                if i == 0 and r.chance(2, 3) or i > 0 and r.chance(1, 4):
                    steps.append("(drop \"%s\")" % nm)
                else:
                    steps.append("(array/push kept (%s \"%s\"))" % (mk, nm))
                    kept.append(nm)
            grow = 0 if self.light else r.choice([0, 0, 0, 300])
            return ("(do (defn drop [n] (%s n) nil) (def kept @[]) %s %s (def tab (tabseq [q :in kept] q (string \"v-\" q))) %s "
                    "(def junk (seq [j :range [0 %d]] (string \"sj-\" j))) "
                    "(each n [%s] (def again (%s n)) (print \"%s \" n \" \" (not (nil? (index-of again kept))) \" \" (get tab again))) (set %s kept))"
                    % (mk, ("(def fl (seq [j :range [0 %d]] (keyword \"%s-f-\" j)))" % (grow, t)) if grow else "", " ".join(steps),
                       r.choice(["(gccollect)", "", ""]), r.range(1, 60), " ".join("\"%s\"" % x for x in names), mk, t, a))
        if k >= 40:
            # one duplex connection with a reader and a writer fiber suspended on it at once; every reference is dropped
            self.note("duplex-two-ops")
            n = r.choice([300000, 700000, 1500000])
            return ("(do (def path (string \"/tmp/c01-sock-\" (os/getpid) \"-%s\")) (if (os/stat path) (os/rm path)) (def listener (net/listen :unix path)) (def client (net/connect :unix path)) "
                    "(def rd (ev/chan 1)) "
                    "(defn setup [] (def conn (net/accept listener)) (def payload (buffer/new-filled %d (chr \"x\"))) "
                    "(ev/go (fn [] (ev/write conn payload) (ev/close conn))) (ev/go (fn [] (ev/give rd (string (ev/read conn 4))))) nil) "
                    "(setup) (ev/sleep 0) (ev/sleep 0) (def junk (seq [j :range [0 %d]] @[j])) (ev/write client \"ping\") (show \"%s-r\" (ev/take rd)) (ev/sleep 0) "
                    "(def junk2 (seq [j :range [0 %d]] @[j %s])) (var total 0) (def buf @\"\") (while (ev/read client 65536 (buffer/clear buf) 30) (+= total (length buf))) "
                    "(ev/close client) (ev/close listener) (os/rm path) (show \"%s\" total))"
                    % (t, n, r.range(1, 30), t, r.range(1, 60), b, t))
        if k >= 38:
            # parser driven through consume / eof / error / flush with allocation in between
            self.note("parser-eof-error")
            src = r.choice(['(defn f [x] (print \\"abc', '(a [b {c @(d @[e', '[1 2 3 (4 5 {:a :b', '((((((((', '(1 2 @[3 }', '{:a 1 :b ]', '\\"open string', '@{:k [1 2'])
            ops = []
            for _ in range(r.range(1, 3)):
                ops.append(r.choice(["(def junk (seq [j :range [0 %d]] (string \"s-\" j (string/repeat \"q\" (%% j 40)))))" % r.range(20, 200),
                                     "(def junk (seq [j :range [0 %d]] @[j]))" % r.range(1, 40)]))
            return ("(do (def p (parser/new)) (parser/consume p \"%s\") %s (try (parser/eof p) ([err] nil)) (def st (parser/status p)) (set %s p) %s "
                    "(def e (parser/error p)) (print \"%s \" st \" \" e) %s (parser/flush p) (show \"%s-b\" (parser/status p)))"
                    % (src, r.choice(["", "(parser/eof p)"]) if False else "", a, " ".join(ops), t, ops[0], t))
        if k >= 36:
            # a fiber suspended in a resumable status that created closures over its locals; frame and closures both
            # mutate the captured variable after each resume and read the other side's writes
            self.note("suspended-closure")
            sig, mask = r.choice([(":yield", ":y"), (":debug", ":d"), (":user5", ":5"), (":user6", ":6"), (":user7", ":7"),
                                  (":debug", ":dy"), (":yield", ":yd5")])
            n = r.range(1, 3)
            return ("(do (var getter nil) (var setter nil) "
                    "(def fib (fiber/new (fn [] (var x 0) (def held @[%s]) (set getter (fn [] [x (length held)])) "
                    "(set setter (fn [v] (array/push held v) (set x v))) "
                    "(for i 0 %d (signal %s i) (set x (+ x 100)) (def junk @[x held])) (setter (+ x 1000)) [x (length held)]) %s)) "
                    "(def out @[]) (for i 0 %d (array/push out (resume fib) (fiber/status fib) (getter)) (def junk (seq [j :range [0 %d]] @[j])) (setter (+ i 5))) "
                    "(array/push out (resume fib) (fiber/status fib) (getter)) (set %s getter) (show \"%s\" out))"
                    % (b, n, sig, mask, n, r.range(1, 12), a, t))
        if k >= 34:
            self.note("operator-method")
            op = r.choice(["+", "-", "*", "/", "%", "mod", "div"])
            form = r.choice(["(%s obj %d)" % (op, r.range(1, 9)), "(%s obj k)" % op, "(%s %d obj)" % (op, r.range(1, 9)), "(%s obj (mk 3))" % op])
            return ("(do (def proto @{:%s (fn [a b] (def tmp @[a b %s]) (table/setproto @{:x [(a :x) (if (table? b) (b :x) b)] :held tmp} (table/getproto a))) "
                    ":r%s (fn [a b] (table/setproto @{:x [:r (a :x) b]} (table/getproto a)))}) (defn mk [x] (table/setproto @{:x x} proto)) "
                    "(def obj (mk %s)) (def k %d) (var acc nil) (for i 0 %d (set acc %s)) (set %s acc) (show \"%s\" (acc :x)))"
                    % (op, b, op, self.val(1), r.range(1, 9), r.range(1, 6), form, a, t))
        if k < 4:
            self.note("assign")
            return "(set %s %s)" % (a, self.val(3))
        if k == 4:
            self.note("push-cycle")
            return "(if (array? %s) (array/push %s %s))" % (a, a, b)
        if k == 5:
            self.note("put")
            return "(if (table? %s) (put %s %s %s))" % (a, a, r.choice([":a", ":b", ":link", "7"]), b)
        if k == 6:
            self.note("drop")
            return "(set %s nil)" % a
        if k == 7:
            self.note("show")
            return "(show \"%s\" %s)" % (t, a)
        if k == 8:
            self.note("closure")
            return "(set %s (let [p %s q %s] (fn [&opt x] (if (array? p) (array/push p x)) [p q x])))" % (a, b, self.val(2))
        if k == 9:
            self.note("call")
            return "(if (function? %s) (show \"%s\" (try (%s %s) ([e] [:err (string e)]))))" % (a, t, a, self.atom())
        if k == 10:
            self.note("generator")
            return ("(set %s (fiber/new (fn [] (var acc %s) (for i 0 %d (set acc @[acc i %s]) (yield acc)) acc)))"
                    % (a, self.val(1), r.range(1, 5), b))
        if k == 11:
            self.note("resume")
            return "(if (and (fiber? %s) (index-of (fiber/status %s) [:new :pending])) (show \"%s\" (try (resume %s) ([e] [:err (string e)]))))" % (a, a, t, a)
        if k == 12:
            self.note("dead-fiber-env")
            return ("(do (var esc nil) (resume (fiber/new (fn [] (def cap %s) (def cap2 @[cap %s]) (set esc (fn [] (array/push cap2 1) [cap (length cap2)])) (%s)) :e%s)) (set %s esc))"
                    % (self.val(2), b, r.choice(["error \"x\"", "yield 1", "identity 1"]), "y", a))
        if k == 13:
            self.note("chan-buffered")
            return "(do (def ch (ev/chan 3)) (ev/give ch %s) (ev/give ch %s) (set %s ch))" % (self.val(2), b, a)
        if k == 14:
            self.note("chan-take")
            return "(if (and (= (type %s) :core/channel) (> (ev/count %s) 0)) (show \"%s\" (ev/take %s)))" % (a, a, t, a)
        if k == 15:
            self.note("task-rendezvous")
            return ("(do (def ch (ev/chan)) (ev/spawn (def got (ev/take ch)) (show \"%s-got\" got)) (ev/sleep 0) (ev/give ch %s) (ev/sleep 0))"
                    % (t, self.val(2)))
        if k == 16:
            self.note("task-sleep")
            return ("(do (def done (ev/chan)) (ev/spawn (def held %s) (ev/sleep 0.001) (show \"%s-woke\" held) (ev/give done held)) (ev/sleep 0) (def junk (seq [i :range [0 %d]] @[i])) (show \"%s-done\" (ev/take done)))"
                    % (self.val(2), t, r.range(1, 20), t))
        if k == 17:
            self.note("marshal")
            return "(show \"%s\" (try (unmarshal (marshal %s)) ([e] [:merr])))" % (t, self.val(3))
        if k == 18:
            self.note("marshal-closure")
            return ("(if (function? %s) (show \"%s\" (try (do (def f2 (unmarshal (marshal %s (invert (env-lookup root-env))) (env-lookup root-env))) (f2 1)) ([e] [:merr]))))"
                    % (a, t, a))
        if k == 19:
            self.note("parser")
            return ("(do (def p (parser/new)) (parser/consume p \"[1 @[2 \\\"in flight\\\" {:k @\\\"b\\\"}] \") (set %s p) (def junk (seq [i :range [0 %d]] @[i])) (parser/consume p \" 3]\\n\") (show \"%s\" (parser/produce p)))"
                    % (a, r.range(1, 30), t))
        if k == 20:
            self.note("peg")
            return ("(do (def pg (peg/compile ~(* (constant ,%s) (<- (some (range \"az\"))) (cmt (<- :d) ,(fn [d] @[d %s])))))  (set %s pg) (show \"%s\" (peg/match pg \"abc7\")))"
                    % (self.val(2), b, a, t))
        if k == 21:
            self.note("peg-reuse")
            return "(if (= (type %s) :core/peg) (show \"%s\" (peg/match %s \"zz9\")))" % (a, t, a)
        if k == 22:
            self.note("sort-callback")
            return ("(show \"%s\" (sort-by (fn [x] (def tmp @[x x]) (- (length tmp) x)) (array/concat @[] (range %d))))" % (t, r.range(2, 12)))
        if k == 23:
            self.note("string-churn")
            return "(show \"%s\" (length (string/join (seq [i :range [0 %d]] (string \"item-\" i \"-\" (length (string %s)))) \",\")))" % (t, r.range(1, 40), a)
        if k == 24:
            self.note("deep-nest")
            n = r.choice([50, 300] if self.light else [50, 600, 1100, 1500])
            return "(do (var d %s) (repeat %d (set d @[d])) (set %s d) (var n 0) (var w d) (while (and (array? w) (= 1 (length w))) (set w (w 0)) (++ n)) (show \"%s\" n))" % (self.val(1), n, a, t)
        if k == 25:
            self.note("pipe")
            return ("(do (def [rd wr] (os/pipe)) (def done (ev/chan)) (ev/spawn (def got (ev/read rd 64)) (show \"%s-read\" (string got)) (ev/give done 1)) (ev/sleep 0) (def junk (seq [i :range [0 %d]] @[i])) (ev/write wr \"pipe-data-%d\") (ev/take done) (ev/close wr) (ev/close rd))"
                    % (t, r.range(1, 20), r.below(100)))
        if k == 26:
            self.note("nested-fibers")
            return ("(show \"%s\" (do (defn nest [n x] (if (zero? n) (do (ev/sleep 0) @[x]) (resume (fiber/new (fn [] @[(nest (dec n) x)]) :e)))) (nest %d %s)))"
                    % (t, r.range(1, 5), self.val(1)))
        if k == 27:
            self.note("map-reduce")
            return "(show \"%s\" (reduce (fn [acc x] (array/push acc @[x (length acc)])) @[] (map |(tuple $ %s) (range %d))))" % (t, self.atom(), r.range(1, 8))
        if k == 28:
            self.note("varargs-apply")
            return "(show \"%s\" (apply array (map |(string \"a\" $) (range %d))))" % (t, r.range(0, 30))
        if k == 29:
            self.note("fiber-env")
            return "(do (def f (fiber/new (fn [] (yield (dyn :held)) (dyn :held)))) (fiber/setenv f @{:held %s}) (set %s f))" % (self.val(2), a)
        if k == 30:
            self.note("supervisor")
            return ("(do (def sup (ev/chan 4)) (ev/go (fn [] (ev/give-supervisor :note %s) :fin) nil sup) (ev/sleep 0) (show \"%s\" (ev/take sup)) (show \"%s-b\" (first (ev/take sup))))"
                    % (self.val(2), t, t))
        if k == 31:
            self.note("error-unwind")
            return ("(show \"%s\" (try (do (defn thrower [n acc] (if (zero? n) (error acc) (thrower (dec n) @[acc n]))) (thrower %d %s)) ([e f] [(fiber/status f) e])))"
                    % (t, r.range(1, 20), self.val(1)))
        if k == 32:
            self.note("buffer-grow")
            return "(do (def bb @\"\") (for i 0 %d (buffer/push bb (string i \",\"))) (set %s bb) (show \"%s\" bb))" % (r.range(1, 200), a, t)
        if k == 33:
            # C functions as the callbacks of a PEG (cmt / replace constants, peg/replace substitution): peg_rule and
            # janet_text_substitution call them directly, while the match state lives in C locals only; the pool contains the
            # C function that collects
            self.note("peg-cfun-callback")
            cf = r.choice(["gccollect", "string", "type", "gccollect", "array", "keyword", "tuple", "gccollect"])
            op = r.below(4)
            text = "".join(r.choice("abcxyz7 ") for _ in range(r.range(3, 60)))
            if op == 0:
                e = "(peg/match ~(any (+ (cmt (<- (range \"az\")) ,%s) (<- 1))) \"%s\")" % (cf, text)
            elif op == 1:
                e = "(peg/match ~(any (+ (* (constant ,%s) (replace (<- (range \"az\")) ,%s)) 1)) \"%s\")" % (self.val(1), cf, text)
            elif op == 2:
                e = "(peg/find-all ~(+ (cmt (<- (range \"ac\")) ,%s) \"x\") \"%s\")" % (cf, text)
            else:
                e = "(%s ~(<- (range \"az\")) %s \"%s\")" % (r.choice(["peg/replace-all", "peg/replace"]), cf, text)
            return "(show \"%s\" (try %s ([e] [:perr e])))" % (t, e)
        self.note("closure-chain")
        return "(do (var f (fn [] %s)) (repeat %d (set f (let [g f] (fn [] (g))))) (set %s f) (show \"%s\" (f)))" % (self.val(1), r.range(1, 60), a, t)

    def program(self):
        lines = [PRELUDE]
        for i in range(self.nv):
            lines.append("(var v%d nil)" % i)
        for i in range(self.nv):
            lines.append("(set v%d %s)" % (i, self.val(2)))
        body = [self.stmt() for _ in range(self.ns)]
        # half of the statements at top level (one fiber per form), the rest inside one function (slots of one frame)
        cut = self.r.range(0, len(body))
        lines += body[:cut]
        lines.append("(defn main-body []\n  " + "\n  ".join(body[cut:]) + "\n  nil)")
        lines.append("(main-body)")
        for i in range(self.nv):
            lines.append("(show \"final-v%d\" v%d)" % (i, i))
        return "\n".join(lines) + "\n"


def generate(rng, nstmts=40, light=False, sympool=None):
    g = Gen(rng, nvars=rng.range(4, 9), nstmts=nstmts, light=light, sympool=sympool)
    return g.program(), g.kinds
