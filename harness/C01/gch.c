/* C01 embedding harness: the real janet client (src/mainclient/shell.c, included verbatim with main renamed) plus
 *   - a GC schedule installed through janet_verif_gc_safepoint   (C01_SCHED = never | always | p<den> ; C01_SEED)
 *   - a graph-level oracle installed through janet_verif_gc_midpoint (C01_GRAPH=1):
 *       walk janet_vm.blocks / weak_blocks / threaded_abstracts, enumerate every block's outgoing references with an
 *       INDEPENDENT edge enumerator written from the struct definitions (no call to janet_mark_* / gcmark callbacks),
 *       enumerate the roots independently, compute reachability, compare with the collector's mark bits,
 *       then run the real janet_sweep() and compare the surviving block lists with the marked set
 *       (freed == unmarked, no weak entry left pointing at a freed block).
 *   - optional dumps of the graph for the Lean model driver jm_c01 (C01_DUMP=<file>, C01_DUMP_EVERY / _OFF / _MAX)
 *   - optional per-edge-label criticality ("how many objects are reachable ONLY through edges with this label")
 *     (C01_CRIT=1), used to validate the scenario catalogue.
 * Findings go to the file named by C01_REPORT (never to stdout/stderr: those are compared across schedules).
 */
#define main shell_main
#include <shell.c>
#undef main

#include "state.h"
#include "gc.h"
#include "fiber.h"
#include <stdint.h>
#include <stdarg.h>

extern void (*janet_verif_gc_midpoint)(void);
extern int (*janet_verif_gc_safepoint)(void);

/* accessors provided by the wrapper TUs (w_ev.c, w_net.c, w_os.c, w_filewatch.c) */
typedef void (*c01_edge_fn)(void *u, Janet v, const char *label);
int c01_ev_fiber_state(JanetFiber *f, c01_edge_fn fn, void *u);   /* 1 if f->ev_callback is one of ev.c's */
void c01_chan_edges(void *chan, c01_edge_fn fn, void *u);
int c01_net_fiber_state(JanetFiber *f, c01_edge_fn fn, void *u);
int c01_os_abstract(const JanetAbstractType *t, void *p, c01_edge_fn fn, void *u);
int c01_fw_abstract(const JanetAbstractType *t, void *p, c01_edge_fn fn, void *u);
int c01_ffi_abstract(const JanetAbstractType *t, void *p, c01_edge_fn fn, void *u);
int c01_fw_fiber_state(JanetFiber *f, c01_edge_fn fn, void *u);
void c01_chan_rings(void *chan, int32_t out[12]);
const uint8_t *c01_sym_deleted(void);                              /* w_symcache.c: the tombstone sentinel */

/* ------------------------------------------------------------------ configuration */
static int sched_kind = 0;          /* 0 never, 1 always, 2 probability 1/den */
static uint64_t sched_den = 1, rng_state = 1;
static int opt_graph = 0, opt_crit = 0, opt_sweepcheck = 1;
static FILE *report = NULL;
static const char *dump_path = NULL;
static long dump_every = 1, dump_off = 0, dump_max = 0, dumps_done = 0;
static __thread long n_collect = 0;      /* per VM (= per thread) */
static long n_user_safepoints = 0, sched_cap = 0;
static long n_forced = 0, n_safepoints = 0, n_checked = 0, max_nodes = 0, n_findings = 0, n_opaque_coll = 0;
/* worker threads (ev/thread, ev/do-thread): each has its own VM and heap.  The same schedule is applied to their safepoints
 * (own PRNG stream) and the same graph oracle runs at their collections; the oracle's tables are shared, so the midpoint
 * hook is serialised by a mutex.  Counters of worker collections are kept apart. */
static long w_collect = 0, w_forced = 0, w_safepoints = 0, w_checked = 0, w_findings = 0, w_threads = 0;
static long n_envmode = 0, n_pending_streams = 0;
static long tot_nodes = 0, tot_edges = 0, tot_freed = 0, tot_weak_cleared = 0;
static long sym_probes = 0, sym_wrapped = 0, sym_through_tomb = 0, sym_last_freed = 0, sym_last_freed_chain = 0, sym_freed = 0, sym_cap_max = 0, sym_count_max = 0, sym_skipped = 0;

static uint64_t sm64(void) {
    uint64_t z = (rng_state += 0x9E3779B97F4A7C15ULL);
    z = (z ^ (z >> 30)) * 0xBF58476D1CE4E5B9ULL;
    z = (z ^ (z >> 27)) * 0x94D049BB133111EBULL;
    return z ^ (z >> 31);
}

#include <pthread.h>
#include <sys/resource.h>
#include <execinfo.h>
static pthread_t main_thread;
static pthread_mutex_t hook_mu = PTHREAD_MUTEX_INITIALIZER;
static int opt_workers = 1;           /* C01_WORKERS=0: worker threads keep the default schedule and are not checked */
static __thread uint64_t w_rng = 0;
static __thread int w_known = 0;
static uint64_t w_sm64(void) {
    uint64_t z = (w_rng += 0x9E3779B97F4A7C15ULL);
    z = (z ^ (z >> 30)) * 0xBF58476D1CE4E5B9ULL;
    z = (z ^ (z >> 27)) * 0x94D049BB133111EBULL;
    return z ^ (z >> 31);
}
/* is the function on top of the current fiber's stack part of the program under test (source other than boot.janet)? */
static int in_user_code(void) {
    JanetFiber *f = janet_vm.fiber;
    if (f && f->frame > 0) {
        JanetFunction *fn = janet_fiber_frame(f)->func;
        const uint8_t *src = (fn && fn->def) ? fn->def->source : NULL;
        return !(src && janet_string_length(src) == 10 && !memcmp(src, "boot.janet", 10));
    }
    return 0;
}

static int safepoint_hook(void) {
    if (!pthread_equal(pthread_self(), main_thread)) {
        if (!opt_workers) return 0;
        if (!w_known) {
            w_known = 1;
            long ord = __atomic_add_fetch(&w_threads, 1, __ATOMIC_RELAXED);
            w_rng = rng_state * 0x2545F4914F6CDD1DULL + (uint64_t) ord;
        }
        __atomic_add_fetch(&w_safepoints, 1, __ATOMIC_RELAXED);
        int r = 0;
        if (sched_kind == 1) r = 1;
        else if (sched_kind == 2) r = (w_sm64() % sched_den) == 0;
        else if (sched_kind == 3) r = in_user_code() || (w_sm64() % sched_den) == 0;
        if (r && !janet_vm.gc_suspend) __atomic_add_fetch(&w_forced, 1, __ATOMIC_RELAXED);
        return r;
    }
    n_safepoints++;
    int r = 0;
    if (sched_kind == 1) r = 1;
    else if (sched_kind == 2) r = (sm64() % sched_den) == 0;
    else if (sched_kind == 3) {
        /* stratified schedule `uN`: EVERY safepoint reached while a function of the program under test is running (its
         * funcdef's source is not boot.janet), one in N of the safepoints inside the core library's own janet code
         * (compiler, macro expansion, the repl loop: the same for every program, so sampling them loses nothing a
         * run of another program does not see) */
        int user = in_user_code();
        if (user) {
            n_user_safepoints++;
            /* optional cap `uNcK`: beyond the first K safepoints in the program's own code (long loops) one in 4 */
            r = (!sched_cap || n_user_safepoints <= sched_cap) ? 1 : (sm64() % 4) == 0;
        } else r = (sm64() % sched_den) == 0;
    }
    if (r && !janet_vm.gc_suspend) n_forced++;
    return r;
}

static void rep(const char *fmt, ...) {
    if (!report) return;
    va_list ap;
    va_start(ap, fmt);
    vfprintf(report, fmt, ap);
    va_end(ap);
    fflush(report);
}

/* ------------------------------------------------------------------ node table */
typedef struct {
    JanetGCObject *p;
    uint8_t kind;      /* JanetMemoryType */
    uint8_t marked;    /* collector's mark bit (threaded abstracts: visited flag in janet_vm.threaded_abstracts) */
    uint8_t disabled;
    uint8_t reach;     /* oracle */
    uint8_t opaque;    /* abstract type with a gcmark callback this harness does not know */
    uint8_t threaded;
    int32_t parent;    /* BFS tree: node index, -1 = root */
    const char *plabel;
} Node;

static Node *nodes = NULL;
static size_t nnodes = 0, capnodes = 0;
static uintptr_t *hkeys = NULL;
static int32_t *hvals = NULL;
static size_t hcap = 0;

static void node_add(JanetGCObject *p, int threaded, int tmarked) {
    if (nnodes == capnodes) {
        capnodes = capnodes ? capnodes * 2 : 4096;
        nodes = realloc(nodes, capnodes * sizeof(Node));
    }
    Node *n = &nodes[nnodes++];
    memset(n, 0, sizeof(*n));
    n->p = p;
    n->kind = (uint8_t)(p->flags & JANET_MEM_TYPEBITS);
    n->threaded = (uint8_t) threaded;
    n->marked = threaded ? (uint8_t) tmarked : (uint8_t)((p->flags & JANET_MEM_REACHABLE) != 0);
    n->disabled = threaded ? 0 : (uint8_t)((p->flags & JANET_MEM_DISABLED) != 0);
    n->parent = -2;
}

static void hash_build(void) {
    size_t want = 16;
    while (want < nnodes * 2 + 8) want *= 2;
    if (want != hcap) {
        free(hkeys);
        free(hvals);
        hcap = want;
        hkeys = malloc(hcap * sizeof(uintptr_t));
        hvals = malloc(hcap * sizeof(int32_t));
    }
    memset(hkeys, 0, hcap * sizeof(uintptr_t));
    for (size_t i = 0; i < nnodes; i++) {
        uintptr_t k = (uintptr_t) nodes[i].p;
        size_t h = (size_t)((k >> 4) * 0x9E3779B97F4A7C15ULL) & (hcap - 1);
        while (hkeys[h]) h = (h + 1) & (hcap - 1);
        hkeys[h] = k;
        hvals[h] = (int32_t) i;
    }
}

static int32_t node_find(const void *p) {
    uintptr_t k = (uintptr_t) p;
    if (!k || !hcap) return -1;
    size_t h = (size_t)((k >> 4) * 0x9E3779B97F4A7C15ULL) & (hcap - 1);
    while (hkeys[h]) {
        if (hkeys[h] == k) return hvals[h];
        h = (h + 1) & (hcap - 1);
    }
    return -1;
}

/* the heap block a value refers to (NULL: immediate / C pointer) -- from the value representation, not from gc.c */
static JanetGCObject *val_block(Janet v) {
    switch (janet_type(v)) {
        case JANET_STRING:
        case JANET_SYMBOL:
        case JANET_KEYWORD:
            return &janet_string_head(janet_unwrap_string(v))->gc;
        case JANET_TUPLE:
            return &janet_tuple_head(janet_unwrap_tuple(v))->gc;
        case JANET_STRUCT:
            return &janet_struct_head(janet_unwrap_struct(v))->gc;
        case JANET_ABSTRACT:
            return &janet_abstract_head(janet_unwrap_abstract(v))->gc;
        case JANET_ARRAY:
        case JANET_TABLE:
        case JANET_BUFFER:
        case JANET_FUNCTION:
        case JANET_FIBER:
            return (JanetGCObject *) janet_unwrap_pointer(v);
        default:
            return NULL;
    }
}

/* ------------------------------------------------------------------ independent edge enumeration
 * sink(u, block, cls, label): cls 0 = strong, reached through a Janet value (janet_mark: depth counter decremented)
 *                             cls 1 = strong, reached through a typed C pointer (no depth decrement in the collector)
 *                             cls 2 = weak key, 3 = weak value / weak array item                                         */
typedef void (*sink_fn)(void *u, JanetGCObject *blk, int cls, const char *label);
typedef struct { sink_fn sink; void *u; } ValSink;

static void val_edge(void *vs_, Janet v, const char *label) {
    ValSink *vs = vs_;
    JanetGCObject *b = val_block(v);
    if (b) vs->sink(vs->u, b, 0, label);
}

static void vals(const Janet *p, int64_t n, int cls, const char *label, sink_fn sink, void *u) {
    if (!p) return;
    for (int64_t i = 0; i < n; i++) {
        JanetGCObject *b = val_block(p[i]);
        if (b) sink(u, b, cls, label);
    }
}

static void ptr(const void *p, const char *label, sink_fn sink, void *u) {
    if (p) sink(u, (JanetGCObject *) p, 1, label);
}

static void fiber_edges(JanetFiber *f, Node *n, sink_fn sink, void *u) {
    ValSink vs = { sink, u };
    vals(&f->last_value, 1, 0, "fiber.last_value", sink, u);
    /* frames, innermost first; a frame at index fr owns slots [fr, top) where top is the start of the next
     * frame's header, or stackstart's header for the innermost one; [stackstart, stacktop) are pushed arguments */
    int32_t top = f->stackstart - JANET_FRAME_SIZE;
    for (int32_t fr = f->frame; fr > 0;) {
        JanetStackFrame *sf = (JanetStackFrame *)(f->data + fr) - 1;
        ptr(sf->func, "fiber.frame.func", sink, u);
        ptr(sf->env, "fiber.frame.env", sink, u);
        vals(f->data + fr, (int64_t) top - fr, 0, "fiber.slot", sink, u);
        top = fr - JANET_FRAME_SIZE;
        fr = sf->prevframe;
    }
    vals(f->data + f->stackstart, (int64_t) f->stacktop - f->stackstart, 0, "fiber.args", sink, u);
    ptr(f->env, "fiber.env", sink, u);
    ptr(f->child, "fiber.child", sink, u);
#ifdef JANET_EV
    if (f->supervisor_channel) ptr(janet_abstract_head(f->supervisor_channel), "fiber.supervisor_channel", sink, u);
    if (f->ev_stream) ptr(janet_abstract_head(f->ev_stream), "fiber.ev_stream", sink, u);
    if (f->ev_callback) {
        if (!c01_ev_fiber_state(f, val_edge, &vs) && !c01_net_fiber_state(f, val_edge, &vs) &&
                !c01_fw_fiber_state(f, val_edge, &vs))
            n->opaque = 1;
    }
#endif
}

static void abstract_edges(JanetAbstractHead *h, Node *n, sink_fn sink, void *u) {
    ValSink vs = { sink, u };
    const JanetAbstractType *t = h->type;
    void *p = h->data;
    if (t == &janet_stream_type) {
        JanetStream *s = p;
        if (s->read_fiber) sink(u, &s->read_fiber->gc, 0, "stream.read_fiber");
        if (s->write_fiber) sink(u, &s->write_fiber->gc, 0, "stream.write_fiber");
    } else if (t == &janet_channel_type) {
        c01_chan_edges(p, val_edge, &vs);
    } else if (t == &janet_parser_type) {
        JanetParser *ps = p;
        vals(ps->args, (int64_t) ps->argcount, 0, "parser.args", sink, u);
        /* parser->error is either a static C string or the data of a janet string allocated by delim_error.  The
         * collector decides by a flag bit; this enumerator decides by the pointer itself: if it is the payload of a
         * listed string block, the parser references that block. */
        if (ps->error) {
            JanetGCObject *sb = &janet_string_head((const uint8_t *) ps->error)->gc;
            int32_t j = node_find(sb);
            if (j >= 0 && nodes[j].kind == JANET_MEMORY_STRING) sink(u, sb, 0, "parser.error");
        }
    } else if (t == &janet_peg_type) {
        JanetPeg *pg = p;
        vals(pg->constants, pg->num_constants, 0, "peg.constants", sink, u);
    } else if (c01_os_abstract(t, p, val_edge, &vs)) {
    } else if (c01_fw_abstract(t, p, val_edge, &vs)) {
    } else if (c01_ffi_abstract(t, p, val_edge, &vs)) {
    } else if (t->gcmark) {
        n->opaque = 1;
    }
}

static void node_edges(Node *n, sink_fn sink, void *u) {
    JanetGCObject *b = n->p;
    switch (n->kind) {
        default:
            break;
        case JANET_MEMORY_ARRAY: {
            JanetArray *a = (JanetArray *) b;
            vals(a->data, a->count, 0, "array.item", sink, u);
            break;
        }
        case JANET_MEMORY_ARRAY_WEAK: {
            JanetArray *a = (JanetArray *) b;
            vals(a->data, a->count, 3, "weakarray.item", sink, u);
            break;
        }
        case JANET_MEMORY_TUPLE: {
            JanetTupleHead *t = (JanetTupleHead *) b;
            vals(t->data, t->length, 0, "tuple.item", sink, u);
            break;
        }
        case JANET_MEMORY_STRUCT: {
            JanetStructHead *s = (JanetStructHead *) b;
            for (int32_t i = 0; i < s->capacity; i++) {
                vals(&s->data[i].key, 1, 0, "struct.key", sink, u);
                vals(&s->data[i].value, 1, 0, "struct.value", sink, u);
            }
            if (s->proto) ptr(janet_struct_head(s->proto), "struct.proto", sink, u);
            break;
        }
        case JANET_MEMORY_TABLE:
        case JANET_MEMORY_TABLE_WEAKK:
        case JANET_MEMORY_TABLE_WEAKV:
        case JANET_MEMORY_TABLE_WEAKKV: {
            JanetTable *t = (JanetTable *) b;
            int wk = n->kind == JANET_MEMORY_TABLE_WEAKK || n->kind == JANET_MEMORY_TABLE_WEAKKV;
            int wv = n->kind == JANET_MEMORY_TABLE_WEAKV || n->kind == JANET_MEMORY_TABLE_WEAKKV;
            if (t->data)
                for (int32_t i = 0; i < t->capacity; i++) {
                    vals(&t->data[i].key, 1, wk ? 2 : 0, wk ? "weaktable.key" : "table.key", sink, u);
                    vals(&t->data[i].value, 1, wv ? 3 : 0, wv ? "weaktable.value" : "table.value", sink, u);
                }
            ptr(t->proto, "table.proto", sink, u);
            break;
        }
        case JANET_MEMORY_FIBER:
            fiber_edges((JanetFiber *) b, n, sink, u);
            break;
        case JANET_MEMORY_FUNCTION: {
            JanetFunction *f = (JanetFunction *) b;
            if (f->def) {
                ptr(f->def, "function.def", sink, u);
                for (int32_t i = 0; i < f->def->environments_length; i++)
                    ptr(f->envs[i], "function.env", sink, u);
            }
            break;
        }
        case JANET_MEMORY_FUNCENV: {
            JanetFuncEnv *e = (JanetFuncEnv *) b;
            if (e->offset > 0 && e->as.fiber) sink(u, &e->as.fiber->gc, 0, "funcenv.fiber");
            else if (e->offset == 0) vals(e->as.values, e->length, 0, "funcenv.value", sink, u);
            break;
        }
        case JANET_MEMORY_FUNCDEF: {
            JanetFuncDef *d = (JanetFuncDef *) b;
            vals(d->constants, d->constants_length, 0, "funcdef.constant", sink, u);
            for (int32_t i = 0; i < d->defs_length; i++) ptr(d->defs[i], "funcdef.def", sink, u);
            if (d->source) ptr(janet_string_head(d->source), "funcdef.source", sink, u);
            if (d->name) ptr(janet_string_head(d->name), "funcdef.name", sink, u);
            if (d->symbolmap)
                for (int32_t i = 0; i < d->symbolmap_length; i++)
                    if (d->symbolmap[i].symbol) ptr(janet_string_head(d->symbolmap[i].symbol), "funcdef.symbolmap", sink, u);
            break;
        }
        case JANET_MEMORY_ABSTRACT:
            abstract_edges((JanetAbstractHead *) b, n, sink, u);
            break;
    }
}

typedef void (*root_fn)(void *u, JanetGCObject *blk, const char *label);
static void roots_enum(root_fn fn, void *u) {
    if (janet_vm.root_fiber) fn(u, &janet_vm.root_fiber->gc, "root.root_fiber");
    for (size_t i = 0; i < janet_vm.root_count; i++) {
        JanetGCObject *b = val_block(janet_vm.roots[i]);
        if (b) fn(u, b, "root.explicit");
    }
#ifdef JANET_EV
    {
        JanetQueue *q = &janet_vm.spawn;
        /* JanetTask {JanetFiber *fiber; Janet value; JanetSignal sig; uint32_t expected_sched_id;} is private to ev.c:
         * its stride is taken from the accessor in w_ev.c */
        extern size_t c01_task_stride(void);
        extern JanetFiber *c01_task_fiber(void *task);
        extern Janet c01_task_value(void *task);
        char *d = q->data;
        size_t st = c01_task_stride();
        for (int32_t i = q->head; i != q->tail; i = (i + 1 == q->capacity) ? 0 : i + 1) {
            JanetFiber *tf = c01_task_fiber(d + st * (size_t) i);
            if (tf) fn(u, &tf->gc, "root.spawn.fiber");
            JanetGCObject *b = val_block(c01_task_value(d + st * (size_t) i));
            if (b) fn(u, b, "root.spawn.value");
        }
        for (size_t i = 0; i < janet_vm.tq_count; i++) {
            if (janet_vm.tq[i].fiber) fn(u, &janet_vm.tq[i].fiber->gc, "root.timeout.fiber");
            if (janet_vm.tq[i].curr_fiber) fn(u, &janet_vm.tq[i].curr_fiber->gc, "root.timeout.curr_fiber");
        }
    }
#endif
}

/* ------------------------------------------------------------------ reachability */
static int32_t *work = NULL;
static size_t nwork = 0, capwork = 0;
static const char *skip_label = NULL;  /* criticality: pretend edges with this label do not exist */
static int skip_id = -1;
static long n_dangling = 0;
static int32_t cur_src = -1;
static long edge_count = 0;

static void push_work(int32_t i) {
    if (nwork == capwork) {
        capwork = capwork ? capwork * 2 : 4096;
        work = realloc(work, capwork * sizeof(int32_t));
    }
    work[nwork++] = i;
}

#define MAXLABELS 96
static const char *labels[MAXLABELS];
static long label_edges[MAXLABELS], label_crit[MAXLABELS], label_crit_max[MAXLABELS];
static int nlabels = 0;
static const char *lcache_k[512];
static int lcache_v[512];
static int label_id(const char *l) {
    size_t h = ((uintptr_t) l * 0x9E3779B97F4A7C15ULL) >> 55;
    while (lcache_k[h]) {
        if (lcache_k[h] == l) return lcache_v[h];
        h = (h + 1) & 511;
    }
    int id = -1;
    for (int i = 0; i < nlabels; i++) if (!strcmp(labels[i], l)) { id = i; break; }
    if (id < 0) {
        if (nlabels < MAXLABELS) { labels[nlabels] = l; id = nlabels++; }
        else id = MAXLABELS - 1;
    }
    lcache_k[h] = l;
    lcache_v[h] = id;
    return id;
}

static const char *kindname(int k) {
    static const char *names[] = {"none", "string", "symbol", "array", "tuple", "table", "struct", "fiber", "buffer", "function",
                                  "abstract", "funcenv", "funcdef", "threaded-abstract", "table-weakk", "table-weakv", "table-weakkv", "array-weak"
                                 };
    return (k >= 0 && k < 18) ? names[k] : "?";
}

static void describe(FILE *f, int32_t i) {
    Node *n = &nodes[i];
    fprintf(f, "%s", kindname(n->kind));
    if (n->kind == JANET_MEMORY_ABSTRACT) fprintf(f, "<%s>", ((JanetAbstractHead *) n->p)->type->name);
    if (n->kind == JANET_MEMORY_STRING || n->kind == JANET_MEMORY_SYMBOL) {
        JanetStringHead *s = (JanetStringHead *) n->p;
        fprintf(f, "\"%.*s\"", s->length > 40 ? 40 : s->length, s->data);
    }
    if (n->kind == JANET_MEMORY_FUNCTION && ((JanetFunction *) n->p)->def && ((JanetFunction *) n->p)->def->name)
        fprintf(f, "<%s>", ((JanetFunction *) n->p)->def->name);
}

static void path_to(FILE *f, int32_t i) {
    /* print the BFS tree path root -> i */
    int32_t stack[64];
    int sp = 0;
    while (i >= 0 && sp < 64) { stack[sp++] = i; i = nodes[i].parent; }
    for (int k = sp - 1; k >= 0; k--) {
        fprintf(f, " -[%s]-> ", nodes[stack[k]].plabel ? nodes[stack[k]].plabel : "?");
        describe(f, stack[k]);
    }
}

static void reach_edge(void *u, JanetGCObject *blk, int cls, const char *label) {
    (void) u;
    edge_count++;
    if (cls >= 2) return;
    if (skip_label && label_id(label) == skip_id) return;
    int32_t j = node_find(blk);
    if (j < 0) {
        if (!skip_label) {
            n_dangling++;
            n_findings++;
            if (report) {
                fprintf(report, "FINDING dangling-edge collection=%ld label=%s target=%p kind-bits=? from:", n_collect, label, (void *) blk);
                if (cur_src >= 0) path_to(report, cur_src);
                fprintf(report, "\n");
                fflush(report);
            }
        }
        return;
    }
    if (!skip_label) label_edges[label_id(label)]++;
    if (!nodes[j].reach) {
        nodes[j].reach = 1;
        nodes[j].parent = cur_src;
        nodes[j].plabel = label;
        push_work(j);
    }
}

static void reach_root(void *u, JanetGCObject *blk, const char *label) {
    cur_src = -1;
    reach_edge(u, blk, 0, label);
}

static long compute_reach(void) {
    for (size_t i = 0; i < nnodes; i++) { nodes[i].reach = 0; nodes[i].parent = -2; }
    nwork = 0;
    roots_enum(reach_root, NULL);
    long cnt = 0;
    while (nwork) {
        int32_t i = work[--nwork];
        cnt++;
        cur_src = i;
        node_edges(&nodes[i], reach_edge, NULL);
    }
    return cnt;
}

/* ------------------------------------------------------------------ dump for the Lean model driver */
static FILE *dumpf = NULL;
static void dump_edge(void *u, JanetGCObject *blk, int cls, const char *label) {
    (void) u;
    int32_t j = node_find(blk);
    /* unknown target: printed as an out-of-range id so that the model sees the dangling edge too */
    /* 'q' = typed pointer to a nested funcdef (janet_mark_funcdef takes a marking level for it while one is left) */
    fprintf(dumpf, " %c%ld", (cls == 1 && !strcmp(label, "funcdef.def")) ? 'q' : "vpkw"[cls], j < 0 ? (long) nnodes : (long) j);
}
static void dump_root(void *u, JanetGCObject *blk, const char *label) {
    (void) u;
    int32_t j = node_find(blk);
    /* the root fiber is reached through a typed pointer (janet_mark_fiber), every other root through janet_mark */
    fprintf(dumpf, " %c%ld", !strcmp(label, "root.root_fiber") ? 'p' : 'v', j < 0 ? (long) nnodes : (long) j);
}

static void dump_ref(Janet v) {
    JanetGCObject *b = val_block(v);
    if (!b) { fputc('-', dumpf); return; }
    int32_t j = node_find(b);
    fprintf(dumpf, "%ld", j < 0 ? (long) nnodes : (long) j);
}

/* one slot value for the model's SVal: n nil, f false, i other immediate, <id> heap block */
static void dump_sval(Janet v) {
    if (janet_checktype(v, JANET_NIL)) { fputc('n', dumpf); return; }
    if (janet_checktype(v, JANET_BOOLEAN) && !janet_unwrap_boolean(v)) { fputc('f', dumpf); return; }
    JanetGCObject *b = val_block(v);
    if (!b) { fputc('i', dumpf); return; }
    int32_t j = node_find(b);
    fprintf(dumpf, "%ld", j < 0 ? (long) nnodes : (long) j);
}

/* `w`/`wa` line: id kind count deleted slots... (tables: key|value per slot of data[0..capacity); arrays: data[0..count)) */
static void dump_weak_slots(const char *tag, size_t i) {
    Node *n = &nodes[i];
    if (n->kind == JANET_MEMORY_ARRAY_WEAK) {
        JanetArray *a = (JanetArray *) n->p;
        fprintf(dumpf, "%s %zu %d %d 0", tag, i, n->kind, (int) a->count);
        for (int32_t k = 0; k < a->count; k++) { fputc(' ', dumpf); dump_sval(a->data[k]); }
        fputc('\n', dumpf);
    } else if (n->kind == JANET_MEMORY_TABLE_WEAKK || n->kind == JANET_MEMORY_TABLE_WEAKV || n->kind == JANET_MEMORY_TABLE_WEAKKV) {
        JanetTable *t = (JanetTable *) n->p;
        fprintf(dumpf, "%s %zu %d %d %d", tag, i, n->kind, (int) t->count, (int) t->deleted);
        if (t->data)
            for (int32_t k = 0; k < t->capacity; k++) {
                fputc(' ', dumpf); dump_sval(t->data[k].key); fputc('|', dumpf); dump_sval(t->data[k].value);
            }
        fputc('\n', dumpf);
    }
}

/* `sc` / `sca` line: the symbol cache before / after the real sweep, for the model's sweepCache (GC/SymSweep.lean):
 *   <tag> <capacity> <cache_count> <cache_deleted> then one token per non-NULL bucket: <bucket>:D (tombstone) or
 *   <bucket>:<node id in this snapshot>:<bytes in hex>   (node id = position on the block list = order of the sweep) */
static int sym_dump_wanted(void) {
    for (size_t i = 0; i < nnodes; i++)
        if (nodes[i].kind == JANET_MEMORY_SYMBOL && !nodes[i].threaded && !nodes[i].marked && !nodes[i].disabled) return 1;
    return 0;
}
static void dump_symcache(const char *tag) {
    const uint8_t *tomb = c01_sym_deleted();
    fprintf(dumpf, "%s %u %u %u", tag, janet_vm.cache_capacity, janet_vm.cache_count, janet_vm.cache_deleted);
    for (uint32_t i = 0; janet_vm.cache && i < janet_vm.cache_capacity; i++) {
        const uint8_t *e = janet_vm.cache[i];
        if (!e) continue;
        if (e == tomb) { fprintf(dumpf, " %u:D", i); continue; }
        int32_t j = node_find(&janet_string_head(e)->gc);
        fprintf(dumpf, " %u:%ld:", i, j < 0 ? (long) nnodes : (long) j);
        if (j >= 0 && (tag[2] != 'a' || nodes[j].reach == 2)) {      /* after the sweep: never read a freed block */
            JanetStringHead *h = janet_string_head(e);
            for (int32_t k = 0; k < h->length; k++) fprintf(dumpf, "%02x", h->data[k]);
            if (!h->length) fputc('-', dumpf);
        } else fputc('?', dumpf);
    }
    fputc('\n', dumpf);
}
static int sym_dumped = 0;

static void dump_graph(void) {
    dumpf = fopen(dump_path, "a");
    if (!dumpf) return;
    fprintf(dumpf, "heap %zu %ld\n", nnodes, n_collect);
    for (size_t i = 0; i < nnodes; i++) {
        Node *n = &nodes[i];
        /* id kind flags edges...   flags: m marked, d disabled, t threaded, o opaque ; edges only for nodes the collector or the
         * oracle visited (the fields of other blocks are never read by anyone).
         * edge tokens: v<id> through a value, p<id> through a typed pointer; weak containers: one token s:<key>:<value> per slot
         * (`-` = immediate) */
        fprintf(dumpf, "o %zu %d %s%s%s%s-", i, n->kind, n->marked ? "m" : "", n->disabled ? "d" : "", n->threaded ? "t" : "", n->opaque ? "o" : "");
        if (n->marked || n->reach) {
            if (n->kind == JANET_MEMORY_ARRAY_WEAK) {
                JanetArray *a = (JanetArray *) n->p;
                for (int32_t k = 0; k < a->count; k++) { fputs(" s:", dumpf); dump_ref(a->data[k]); fputs(":-", dumpf); }
            } else if (n->kind == JANET_MEMORY_TABLE_WEAKK || n->kind == JANET_MEMORY_TABLE_WEAKV || n->kind == JANET_MEMORY_TABLE_WEAKKV) {
                JanetTable *t = (JanetTable *) n->p;
                if (t->data)
                    for (int32_t k = 0; k < t->capacity; k++) {
                        if (!val_block(t->data[k].key) && !val_block(t->data[k].value)) continue;
                        fputs(" s:", dumpf); dump_ref(t->data[k].key); fputc(':', dumpf); dump_ref(t->data[k].value);
                    }
                if (t->proto) { int32_t j = node_find(t->proto); fprintf(dumpf, " p%ld", j < 0 ? (long) nnodes : (long) j); }
            } else {
                node_edges(n, dump_edge, NULL);
            }
            /* environment mode / fiber status for the model's envModeAfterMark */
            if (n->kind == JANET_MEMORY_FUNCENV) {
                JanetFuncEnv *e = (JanetFuncEnv *) n->p;
                if (e->offset > 0 && e->as.fiber) fprintf(dumpf, " E%d", (int) janet_fiber_status(e->as.fiber));
            } else if (n->kind == JANET_MEMORY_FIBER) {
                JanetFiber *f = (JanetFiber *) n->p;
                fprintf(dumpf, " S%d", (int) janet_fiber_status(f));
                for (int32_t fr = f->frame; fr > 0;) {
                    JanetStackFrame *sf = (JanetStackFrame *)(f->data + fr) - 1;
                    if (sf->env) {
                        int32_t j = node_find(sf->env);
                        int on = sf->env->offset == fr && sf->env->as.fiber == f;
                        if (j >= 0 && nodes[j].marked) fprintf(dumpf, " %c%ld", on ? 'F' : 'X', (long) j);
                    }
                    fr = sf->prevframe;
                }
            }
        }
        fprintf(dumpf, "\n");
    }
    fprintf(dumpf, "roots");
    roots_enum(dump_root, NULL);
    fprintf(dumpf, "\n");
    /* slot arrays of the weak blocks the first pass of janet_sweep will look at (REACHABLE | DISABLED), before the sweep */
    for (size_t i = 0; i < nnodes; i++) if (nodes[i].marked || nodes[i].disabled) dump_weak_slots("w", i);
    /* the ring buffers the mark phase walks: `rq <which> <head> <tail> <capacity> <occupied slots>` for the run queue and for
     * the three rings of every marked channel; the model driver runs the REGENERATED loops of janet_ev_mark /
     * janet_chanat_mark_fq / janet_chanat_mark on these numbers */
#ifdef JANET_EV
    fprintf(dumpf, "rq spawn %d %d %d %d\n", janet_vm.spawn.head, janet_vm.spawn.tail, janet_vm.spawn.capacity,
            janet_vm.spawn.head > janet_vm.spawn.tail ? janet_vm.spawn.tail + janet_vm.spawn.capacity - janet_vm.spawn.head : janet_vm.spawn.tail - janet_vm.spawn.head);
    for (size_t i = 0; i < nnodes; i++) {
        Node *n = &nodes[i];
        if (n->kind == JANET_MEMORY_ABSTRACT && n->marked && !n->threaded && ((JanetAbstractHead *) n->p)->type == &janet_channel_type) {
            int32_t r[12];
            c01_chan_rings(((JanetAbstractHead *) n->p)->data, r);
            fprintf(dumpf, "rq items %d %d %d %d\nrq pending %d %d %d %d\nrq pending %d %d %d %d\n", r[0], r[1], r[2], r[3], r[4], r[5], r[6], r[7], r[8], r[9], r[10], r[11]);
        }
    }
#endif
    /* the symbol cache, when this sweep is going to free at least one symbol */
    sym_dumped = sym_dump_wanted();
    if (sym_dumped) dump_symcache("sc");
}

/* ------------------------------------------------------------------ the midpoint oracle */
static void weak_residual_edge(void *u, JanetGCObject *blk, int cls, const char *label) {
    long *bad = u;
    if (cls < 2) return;
    int32_t j = node_find(blk);
    if (j < 0 || !(nodes[j].marked || nodes[j].disabled)) {
        (*bad)++;
        n_findings++;
        rep("FINDING weak-entry-to-freed-block collection=%ld label=%s\n", n_collect, label);
    }
}

/* ------------------------------------------------------------------ symbol cache after the sweep
 * Freeing a symbol/keyword block has a side effect outside the heap graph: janet_symbol_deinit removes it from the
 * interning cache (symcache.c).  "Collection is transparent" includes that side effect: after the sweep
 *   (a) every cache entry is NULL, the tombstone, or the payload of a SURVIVING symbol block (no pointer to freed memory),
 *   (b) cache_count == number of such entries == number of surviving symbol blocks,
 *   (c) every surviving symbol is found from its bytes by the probe sequence janet_symcache_findmem follows
 *       (start at hash & (capacity-1), step +1, wrap from the last bucket to bucket 0, stop at the first NULL, step over
 *       tombstones), and no OTHER entry with the same bytes precedes it - otherwise the next (keyword name) / parse of that
 *       name interns a second object and identity of a reachable keyword depends on the collection schedule.
 * The probe below is written from that description; it does not call symcache.c (whose lookup also MOVES entries). */
static const uint8_t *sym_pre_last = NULL;   /* entry of the last bucket before the sweep */
static uint32_t sym_pre_cap = 0;

static void symcache_presweep(void) {
    sym_pre_cap = janet_vm.cache_capacity;
    sym_pre_last = (janet_vm.cache && sym_pre_cap) ? janet_vm.cache[sym_pre_cap - 1] : NULL;
}

static void symcache_check(void) {
    const uint8_t **cache = janet_vm.cache;
    uint32_t cap = janet_vm.cache_capacity;
    const uint8_t *tomb = c01_sym_deleted();
    if (!cache || !cap) return;
    if (cap & (cap - 1)) { n_findings++; rep("FINDING symcache-capacity-not-power-of-two collection=%ld capacity=%u\n", n_collect, cap); return; }
    long live = 0, tombs = 0, bad = 0;
    /* the sweep touches the cache only through janet_symbol_deinit of a freed symbol: nothing to re-verify when it freed none
     * and the counters are what they were after the previous verification */
    {
        static __thread uint32_t last_cap = 0, last_count = 0, last_deleted = 0;
        long freed_syms = 0;
        for (size_t k = 0; k < nnodes; k++)
            if (nodes[k].kind == JANET_MEMORY_SYMBOL && !nodes[k].threaded && nodes[k].reach != 2) freed_syms++;
        int unchanged = last_cap == cap && last_count == janet_vm.cache_count && last_deleted == janet_vm.cache_deleted;
        last_cap = cap; last_count = janet_vm.cache_count; last_deleted = janet_vm.cache_deleted;
        if (!freed_syms && unchanged) { sym_skipped++; return; }
    }
    if ((long) cap > sym_cap_max) sym_cap_max = (long) cap;
    if ((long) janet_vm.cache_count > sym_count_max) sym_count_max = (long) janet_vm.cache_count;
    for (uint32_t i = 0; i < cap; i++) {
        const uint8_t *e = cache[i];
        if (!e) continue;
        if (e == tomb) { tombs++; continue; }
        live++;
        int32_t j = node_find(&janet_string_head(e)->gc);
        if (j < 0 || nodes[j].reach != 2 || nodes[j].kind != JANET_MEMORY_SYMBOL) {
            n_findings++;
            if (++bad <= 5) rep("FINDING symcache-entry-points-to-freed-block collection=%ld bucket=%u capacity=%u\n", n_collect, i, cap);
        }
    }
    if ((long) janet_vm.cache_count != live) {
        n_findings++;
        rep("FINDING symcache-count-mismatch collection=%ld cache_count=%u live-entries=%ld\n", n_collect, janet_vm.cache_count, live);
    }
    if (tombs > (long) janet_vm.cache_deleted) {
        n_findings++;
        rep("FINDING symcache-deleted-undercount collection=%ld cache_deleted=%u tombstones=%ld\n", n_collect, janet_vm.cache_deleted, tombs);
    }
    /* was the symbol in the LAST bucket freed by this sweep (the probe sequences that wrap run through it)? */
    int last_freed = 0;
    if (sym_pre_cap == cap && sym_pre_last && sym_pre_last != tomb) {
        int32_t j = node_find(&janet_string_head(sym_pre_last)->gc);
        if (j >= 0 && nodes[j].reach != 2) { last_freed = 1; sym_last_freed++; }
    }
    long nsym = 0, unfound = 0, chain_last = 0;
    for (size_t k = 0; k < nnodes; k++) {
        Node *n = &nodes[k];
        if (n->kind != JANET_MEMORY_SYMBOL || n->threaded) continue;
        if (n->reach != 2) { sym_freed++; continue; }
        JanetStringHead *h = (JanetStringHead *) n->p;
        const uint8_t *me = h->data;
        uint32_t home = (uint32_t) h->hash & (cap - 1);
        int found = 0, wrapped = 0, tomb_seen = 0;
        nsym++;
        sym_probes++;
        for (uint32_t step = 0, i = home; step < cap; step++, i = (i + 1 == cap) ? 0 : i + 1) {
            const uint8_t *e = cache[i];
            if (step && i == 0) wrapped = 1;
            if (!e) break;
            if (e == tomb) { tomb_seen = 1; continue; }
            if (e == me) { found = 1; break; }
            int32_t oj = node_find(&janet_string_head(e)->gc);
            if (oj < 0 || nodes[oj].reach != 2) continue;             /* entry points to freed memory (reported above): do not read it */
            JanetStringHead *o = janet_string_head(e);
            if (o->length == h->length && o->hash == h->hash && !memcmp(o->data, me, (size_t) h->length)) { found = 2; break; }
        }
        if (wrapped) { sym_wrapped++; if (found == 1) chain_last++; }
        if (tomb_seen) sym_through_tomb++;
        if (found != 1) {
            n_findings++;
            if (++unfound <= 5)
                rep("FINDING symcache-live-symbol-%s collection=%ld symbol=\"%.*s\" home-bucket=%u capacity=%u reachable=%d\n",
                    found ? "shadowed-by-duplicate" : "not-findable", n_collect, h->length > 48 ? 48 : h->length, me, home, cap, (int) n->marked);
        }
    }
    if (last_freed && (chain_last || unfound)) sym_last_freed_chain++;
    if (nsym != live && !bad) {
        n_findings++;
        rep("FINDING symcache-entries-vs-symbol-blocks collection=%ld live-entries=%ld surviving-symbol-blocks=%ld\n", n_collect, live, nsym);
    }
}

static void midpoint_body(int worker);

/* The C call stack at this collection (return addresses; resolved to function names by the check with the executable's
 * symbol table).  Dynamic tie of the static call-graph certificate (tools/gen/gcroot.py, Props/C01 nocollect_sound): every
 * library function found on the stack while janet_collect runs must be one the regenerated graph says can reach
 * janet_collect.  Distinct stacks only. */
#define MAX_STACKS 1024
static uint64_t stack_hashes[MAX_STACKS];
static int n_stacks = 0;
static long n_stack_samples = 0, n_stack_overflow = 0;
static void record_stack(void) {
    void *buf[200];
    int n = backtrace(buf, 200);
    uint64_t h = 1469598103934665603ULL;
    for (int i = 0; i < n; i++) h = (h ^ (uint64_t)(uintptr_t) buf[i]) * 1099511628211ULL;
    n_stack_samples++;
    for (int i = 0; i < n_stacks; i++) if (stack_hashes[i] == h) return;
    if (n_stacks == MAX_STACKS) { n_stack_overflow++; return; }
    stack_hashes[n_stacks++] = h;
    if (!report) return;
    fprintf(report, "STACK collect=%p", (void *)(uintptr_t) &janet_collect);
    for (int i = 0; i < n; i++) fprintf(report, " %p", buf[i]);
    fprintf(report, "\n");
    fflush(report);
}

static void midpoint_hook(void) {
    int worker = !pthread_equal(pthread_self(), main_thread);
    if (worker && !opt_workers) return;
    n_collect++;
    if (worker) __atomic_add_fetch(&w_collect, 1, __ATOMIC_RELAXED);
    if (!opt_graph) return;
    pthread_mutex_lock(&hook_mu);
    record_stack();
    long f0 = n_findings;
    midpoint_body(worker);
    if (worker) { w_checked++; w_findings += n_findings - f0; }
    pthread_mutex_unlock(&hook_mu);
}

static void midpoint_body(int worker) {
    /* 1. snapshot the block lists */
    nnodes = 0;
    for (JanetGCObject *b = janet_vm.blocks; b; b = b->data.next) node_add(b, 0, 0);
    for (JanetGCObject *b = janet_vm.weak_blocks; b; b = b->data.next) node_add(b, 0, 0);
#ifdef JANET_EV
    for (int32_t i = 0; i < janet_vm.threaded_abstracts.capacity; i++) {
        JanetKV *kv = janet_vm.threaded_abstracts.data + i;
        if (janet_checktype(kv->key, JANET_ABSTRACT))
            node_add(&janet_abstract_head(janet_unwrap_abstract(kv->key))->gc, 1, janet_truthy(kv->value));
    }
#endif
    hash_build();
    if ((long) nnodes > max_nodes) max_nodes = (long) nnodes;
    /* 2. independent reachability */
    skip_label = NULL;
    edge_count = 0;
    long nreach = compute_reach();
    tot_nodes += (long) nnodes;
    tot_edges += edge_count;
    /* 3. compare with the mark bits */
    int opaque = 0;
    long nmarked = 0, missing = 0, extra = 0;
    for (size_t i = 0; i < nnodes; i++) {
        if (nodes[i].opaque && (nodes[i].reach || nodes[i].marked)) opaque = 1;
        if (nodes[i].marked) nmarked++;
    }
    for (size_t i = 0; i < nnodes; i++) {
        Node *n = &nodes[i];
        if (n->reach && !n->marked) {
            missing++;
            n_findings++;
            if (report && missing <= 5) {
                fprintf(report, "FINDING reachable-not-marked collection=%ld%s path: ROOT", n_collect, n->disabled ? " (disabled block)" : "");
                path_to(report, (int32_t) i);
                fprintf(report, "\n");
                fflush(report);
            }
        } else if (n->marked && !n->reach && !opaque) {
            extra++;
            n_findings++;
            if (report && extra <= 5) {
                fprintf(report, "FINDING marked-not-reachable collection=%ld block: ", n_collect);
                describe(report, (int32_t) i);
                fprintf(report, "\n");
                fflush(report);
            }
        }
    }
    /* 3b. the mark phase may copy a closure environment off a fiber's stack (janet_env_maybe_detach) only when the
     * fiber is finished.  For every other marked fiber each frame's environment must still be on that stack, at that
     * frame: otherwise the frame and its closures no longer share the captured locals. */
    for (size_t i = 0; i < nnodes; i++) {
        Node *n = &nodes[i];
        if (n->kind != JANET_MEMORY_FIBER || !n->marked) continue;
        JanetFiber *f = (JanetFiber *) n->p;
        JanetFiberStatus st = janet_fiber_status(f);
        int finished = st == JANET_STATUS_DEAD || st == JANET_STATUS_ERROR || (st >= JANET_STATUS_USER0 && st <= JANET_STATUS_USER4);
        if (finished) continue;
        for (int32_t fr = f->frame; fr > 0;) {
            JanetStackFrame *sf = (JanetStackFrame *)(f->data + fr) - 1;
            JanetFuncEnv *e = sf->env;
            if (e && node_find(e) >= 0 && nodes[node_find(e)].marked && !(e->offset == fr && e->as.fiber == f)) {
                n_findings++;
                n_envmode++;
                rep("FINDING env-detached-from-live-frame collection=%ld fiber-status=%d env-offset=%d frame=%d\n", n_collect, (int) st, e->offset, fr);
            }
            fr = sf->prevframe;
        }
    }
    /* 3c. objects the event loop still owes a wake-up must be rooted: a stream with a pending read and/or write is
     * gc-rooted once per pending operation (janet_async_start_fiber roots, janet_async_end unroots), and a fiber
     * suspended in an async operation is reachable (through its stream).  Checked on ALL listed blocks, marked or not. */
    for (size_t i = 0; i < nnodes; i++) {
        Node *n = &nodes[i];
        if (n->threaded) continue;
        if (n->kind == JANET_MEMORY_ABSTRACT && ((JanetAbstractHead *) n->p)->type == &janet_stream_type) {
            JanetStream *st = (JanetStream *)((JanetAbstractHead *) n->p)->data;
            long pending = 0;
            if (st->read_fiber) pending++;
            if (st->write_fiber && st->write_fiber != st->read_fiber) pending++;
            if (!pending) continue;
            long rooted = 0;
            for (size_t r = 0; r < janet_vm.root_count; r++)
                if (janet_checktype(janet_vm.roots[r], JANET_ABSTRACT) && janet_unwrap_abstract(janet_vm.roots[r]) == (void *) st) rooted++;
            n_pending_streams++;
            if (!n->reach) {
                n_findings++;
                rep("FINDING pending-op-object-unrooted collection=%ld object=stream pending-ops=%ld gcroots=%ld marked=%d\n", n_collect, pending, rooted, n->marked);
            } else if (rooted < pending) {
                n_findings++;
                rep("FINDING pending-op-root-count collection=%ld stream has %ld pending operation(s) but %ld gc root(s)\n", n_collect, pending, rooted);
            }
        } else if (n->kind == JANET_MEMORY_FIBER) {
            JanetFiber *f = (JanetFiber *) n->p;
            if (f->ev_callback && f->ev_stream && !n->reach) {
                n_findings++;
                rep("FINDING pending-op-object-unrooted collection=%ld object=fiber-suspended-in-async-op marked=%d\n", n_collect, n->marked);
            }
        }
    }
    if (opaque) n_opaque_coll++;
    if (!worker) n_checked++;
    /* 4. dump for the model */
    if (!worker && dump_path && dumps_done < dump_max && dump_every > 0 && (n_collect % dump_every) == dump_off % dump_every) {
        dump_graph();
    }
    /* 5. criticality of edge labels (catalogue validation) */
    if (opt_crit && !worker) {
        int nl = nlabels;
        for (int l = 0; l < nl; l++) {
            skip_label = labels[l];
            skip_id = l;
            long r = compute_reach();
            label_crit[l] = nreach - r;
            if (label_crit[l] > label_crit_max[l]) label_crit_max[l] = label_crit[l];
        }
        skip_label = NULL;
        compute_reach();
        if (report) {
            fprintf(report, "CRIT collection=%ld", n_collect);
            for (int l = 0; l < nl; l++) if (label_crit[l]) fprintf(report, " %s=%ld", labels[l], label_crit[l]);
            fprintf(report, "\n");
            fflush(report);
        }
    }
    /* 6. run the real sweep now and compare the surviving lists with the marked set.  janet_collect will call
     * janet_sweep() again right after this hook returns; to make that second sweep a no-op every survivor is
     * re-marked here (and every surviving threaded abstract flagged visited). */
    if (opt_sweepcheck) {
        symcache_presweep();
        janet_sweep();
        long survivors = 0, bad = 0, weakbad = 0;
        for (int pass = 0; pass < 2; pass++)
            for (JanetGCObject *b = pass ? janet_vm.weak_blocks : janet_vm.blocks; b; b = b->data.next) {
                int32_t j = node_find(b);
                survivors++;
                if (j < 0 || !(nodes[j].marked || nodes[j].disabled)) {
                    bad++;
                    n_findings++;
                    rep("FINDING unmarked-block-survived-sweep collection=%ld\n", n_collect);
                } else {
                    nodes[j].reach = 2; /* seen after sweep */
                    if (b->flags & JANET_MEM_REACHABLE) {
                        bad++;
                        n_findings++;
                        rep("FINDING mark-bit-not-cleared collection=%ld\n", n_collect);
                    }
                }
            }
#ifdef JANET_EV
        /* threaded abstracts are not on the block lists: a survivor is one still registered in janet_vm.threaded_abstracts */
        for (int32_t i = 0; i < janet_vm.threaded_abstracts.capacity; i++) {
            JanetKV *kv = janet_vm.threaded_abstracts.data + i;
            if (janet_checktype(kv->key, JANET_ABSTRACT)) {
                int32_t j = node_find(&janet_abstract_head(janet_unwrap_abstract(kv->key))->gc);
                if (j >= 0 && nodes[j].threaded) {
                    if (!nodes[j].marked) {
                        bad++;
                        n_findings++;
                        rep("FINDING unvisited-threaded-abstract-survived-sweep collection=%ld\n", n_collect);
                    }
                    nodes[j].reach = 2;
                }
            }
        }
#endif
        long should = 0;
        for (size_t i = 0; i < nnodes; i++) {
            Node *n = &nodes[i];
            if (n->threaded) {
                if (n->marked && n->reach != 2) {
                    bad++;
                    n_findings++;
                    rep("FINDING visited-threaded-abstract-dropped-by-sweep collection=%ld\n", n_collect);
                }
                continue;
            }
            if (n->marked || n->disabled) {
                should++;
                if (n->reach != 2) {
                    bad++;
                    n_findings++;
                    rep("FINDING marked-block-freed-by-sweep collection=%ld kind=%s\n", n_collect, kindname(n->kind));
                }
            }
        }
        tot_freed += (long) nnodes - should;
        /* weak containers that survived must not mention freed blocks */
        for (JanetGCObject *b = janet_vm.weak_blocks; b; b = b->data.next) {
            int32_t j = node_find(b);
            if (j >= 0) node_edges(&nodes[j], weak_residual_edge, &weakbad);
        }
        /* table bookkeeping of weak tables: count == number of non-nil keys */
        for (JanetGCObject *b = janet_vm.weak_blocks; b; b = b->data.next) {
            int k = b->flags & JANET_MEM_TYPEBITS;
            if (k == JANET_MEMORY_TABLE_WEAKK || k == JANET_MEMORY_TABLE_WEAKV || k == JANET_MEMORY_TABLE_WEAKKV) {
                JanetTable *t = (JanetTable *) b;
                int32_t live = 0;
                if (t->data) for (int32_t i = 0; i < t->capacity; i++) if (!janet_checktype(t->data[i].key, JANET_NIL)) live++;
                if (live != t->count) {
                    n_findings++;
                    rep("FINDING weak-table-count-mismatch collection=%ld count=%d live=%d\n", n_collect, t->count, live);
                }
            }
        }
        (void) survivors;
        symcache_check();
        /* make the second sweep a no-op */
        for (JanetGCObject *b = janet_vm.blocks; b; b = b->data.next) b->flags |= JANET_MEM_REACHABLE;
        for (JanetGCObject *b = janet_vm.weak_blocks; b; b = b->data.next) b->flags |= JANET_MEM_REACHABLE;
#ifdef JANET_EV
        for (int32_t i = 0; i < janet_vm.threaded_abstracts.capacity; i++) {
            JanetKV *kv = janet_vm.threaded_abstracts.data + i;
            if (janet_checktype(kv->key, JANET_ABSTRACT)) kv->value = janet_wrap_true();
        }
#endif
    }
    if (dump_path && dumpf) {
        /* the weak blocks' slot arrays after the REAL sweep */
        if (opt_sweepcheck)
            for (size_t i = 0; i < nnodes; i++) if (nodes[i].reach == 2 && !nodes[i].threaded) dump_weak_slots("wa", i);
        if (opt_sweepcheck && sym_dumped) dump_symcache("sca");
        sym_dumped = 0;
        /* survivors after the real sweep, as ids of the pre-sweep snapshot */
        fprintf(dumpf, "after");
        if (opt_sweepcheck)
            for (size_t i = 0; i < nnodes; i++) if (nodes[i].reach == 2) fprintf(dumpf, " %zu", i);
        fprintf(dumpf, "\ncheck\n");
        fclose(dumpf);
        dumpf = NULL;
        dumps_done++;
    }
}

static void at_exit_report(void) {
    if (!report) return;
    {
        /* CPU cost of this execution (user + system, all threads): the check adds it up per job class, so that the
         * quick tier's budget is measured in CPU time and not in wall time, which depends on the load of the box */
        struct rusage ru;
        long ms = 0;
        if (!getrusage(RUSAGE_SELF, &ru))
            ms = (long)(ru.ru_utime.tv_sec + ru.ru_stime.tv_sec) * 1000 + (long)(ru.ru_utime.tv_usec + ru.ru_stime.tv_usec) / 1000;
        fprintf(report, "SUMMARY cpu_ms=%ld user_safepoints=%ld stack_samples=%ld stacks_distinct=%d stacks_dropped=%ld\n", ms, n_user_safepoints, n_stack_samples, n_stacks, n_stack_overflow);
    }
    fprintf(report, "SUMMARY collections=%ld forced=%ld safepoints=%ld checked=%ld max_nodes=%ld nodes=%ld edges=%ld freed=%ld findings=%ld opaque_collections=%ld dumps=%ld pending_streams=%ld"
            " sym_probes=%ld sym_wrapped=%ld sym_through_tomb=%ld sym_freed=%ld sym_last_freed=%ld sym_last_freed_chain=%ld sym_cap_max=%ld sym_count_max=%ld sym_skipped=%ld"
            " worker_threads=%ld worker_safepoints=%ld worker_forced=%ld worker_collections=%ld worker_checked=%ld worker_findings=%ld\n",
            n_collect, n_forced, n_safepoints, n_checked, max_nodes, tot_nodes, tot_edges, tot_freed, n_findings, n_opaque_coll, dumps_done, n_pending_streams,
            sym_probes, sym_wrapped, sym_through_tomb, sym_freed, sym_last_freed, sym_last_freed_chain, sym_cap_max, sym_count_max, sym_skipped,
            w_threads, w_safepoints, w_forced, w_collect, w_checked, w_findings);
    fprintf(report, "LABELS");
    for (int l = 0; l < nlabels; l++) fprintf(report, " %s=%ld/%ld", labels[l], label_edges[l], label_crit_max[l]);
    fprintf(report, "\n");
    fflush(report);
}

int main(int argc, char **argv) {
    const char *s = getenv("C01_SCHED");
    if (s) {
        if (!strcmp(s, "always")) sched_kind = 1;
        else if (s[0] == 'u') {
            char *e = NULL;
            sched_kind = 3;
            sched_den = strtoull(s + 1, &e, 10);
            if (!sched_den) sched_den = 1;
            if (e && *e == 'c') sched_cap = strtol(e + 1, NULL, 10);
        }
        else if (s[0] == 'p') { sched_kind = 2; sched_den = strtoull(s + 1, NULL, 10); if (!sched_den) sched_den = 1; }
    }
    if ((s = getenv("C01_SEED"))) rng_state = strtoull(s, NULL, 10);
    if ((s = getenv("C01_GRAPH"))) opt_graph = atoi(s);
    if ((s = getenv("C01_CRIT"))) opt_crit = atoi(s);
    if ((s = getenv("C01_SWEEPCHECK"))) opt_sweepcheck = atoi(s);
    if ((s = getenv("C01_WORKERS"))) opt_workers = atoi(s);
    if ((s = getenv("C01_REPORT"))) report = fopen(s, "a");
    if ((s = getenv("C01_DUMP"))) dump_path = s;
    if ((s = getenv("C01_DUMP_EVERY"))) dump_every = atol(s);
    if ((s = getenv("C01_DUMP_OFF"))) dump_off = atol(s);
    if ((s = getenv("C01_DUMP_MAX"))) dump_max = atol(s);
    main_thread = pthread_self();
    janet_verif_gc_safepoint = safepoint_hook;
    janet_verif_gc_midpoint = midpoint_hook;
    atexit(at_exit_report);
    return shell_main(argc, argv);
}
