/* wrapper TU: net.c verbatim + accessor for the private accept state */
#include "net.c"
typedef void (*c01_edge_fn)(void *u, Janet v, const char *label);
int c01_net_fiber_state(JanetFiber *f, c01_edge_fn fn, void *u) {
#ifdef JANET_NET
    if (f->ev_callback == net_callback_accept) {
        NetStateAccept *st = f->ev_state;
        if (st && st->function) fn(u, janet_wrap_function(st->function), "fiber.ev_state.accept.function");
        return 1;
    }
    if (f->ev_callback == net_callback_connect) return 1;
#endif
    (void) f; (void) fn; (void) u;
    return 0;
}
