/* C01 helper: names whose string hash (the REAL janet_string_calchash of the tree under test) has given low bits, so that a
 * generated program can place keywords at chosen buckets of the symbol cache for every capacity up to 2^bits.
 * usage: c01symnames <bits> <count> <prefix> <target>...      target: hex value of the low <bits> bits
 * prints one line per target:  <target-hex> name name ...  */
#include <janet.h>
#include <stdio.h>
#include <stdlib.h>
#include <string.h>

int32_t janet_string_calchash(const uint8_t *str, int32_t len);   /* util.c */

int main(int argc, char **argv) {
    if (argc < 5) return 2;
    int bits = atoi(argv[1]);
    int count = atoi(argv[2]);
    const char *prefix = argv[3];
    uint32_t mask = bits >= 32 ? 0xFFFFFFFFu : ((1u << bits) - 1);
    for (int a = 4; a < argc; a++) {
        uint32_t target = (uint32_t) strtoul(argv[a], NULL, 16) & mask;
        printf("%x", target);
        int found = 0;
        char buf[64];
        for (unsigned long i = 0; found < count && i < 400000000ul; i++) {
            int n = snprintf(buf, sizeof buf, "%s%lu", prefix, i);
            uint32_t h = (uint32_t) janet_string_calchash((const uint8_t *) buf, n);
            if ((h & mask) == target) { printf(" %s", buf); found++; }
        }
        printf("\n");
    }
    return 0;
}
