/* wrapper TU: the repo's ev.c verbatim + read-only accessors for its private structs (replaces ev.o at link time) */
#include "ev.c"

typedef void (*c01_edge_fn)(void *u, Janet v, const char *label);

size_t c01_task_stride(void) { return sizeof(JanetTask); }
JanetFiber *c01_task_fiber(void *task) { return ((JanetTask *) task)->fiber; }
Janet c01_task_value(void *task) { return ((JanetTask *) task)->value; }

/* what a fiber's pending stream operation owns (StateRead / StateWrite are private to ev.c) */
int c01_ev_fiber_state(JanetFiber *f, c01_edge_fn fn, void *u) {
    if (f->ev_callback == ev_callback_read) {
        StateRead *st = f->ev_state;
        if (st && st->buf) fn(u, janet_wrap_buffer(st->buf), "fiber.ev_state.read.buf");
        return 1;
    }
    if (f->ev_callback == ev_callback_write) {
        StateWrite *st = f->ev_state;
        if (st) {
            if (st->is_buffer) { if (st->src.buf) fn(u, janet_wrap_buffer(st->src.buf), "fiber.ev_state.write.buf"); }
            else if (st->src.str) fn(u, janet_wrap_string(st->src.str), "fiber.ev_state.write.str");
            if (st->mode == JANET_ASYNC_WRITEMODE_SENDTO && st->dest_abst)
                fn(u, janet_wrap_abstract(st->dest_abst), "fiber.ev_state.write.dest");
        }
        return 1;
    }
    return 0;
}

static void c01_q_fibers(JanetQueue *q, c01_edge_fn fn, void *u, const char *label) {
    JanetChannelPending *p = q->data;
    int32_t n = janet_q_count(q);
    for (int32_t k = 0, i = q->head; k < n; k++, i = (i + 1 == q->capacity) ? 0 : i + 1)
        if (p[i].fiber) fn(u, janet_wrap_fiber(p[i].fiber), label);
}

void c01_chan_edges(void *chan, c01_edge_fn fn, void *u) {
    JanetChannel *c = chan;
    c01_q_fibers(&c->read_pending, fn, u, "channel.read_pending");
    c01_q_fibers(&c->write_pending, fn, u, "channel.write_pending");
    Janet *d = c->items.data;
    int32_t n = janet_q_count(&c->items);
    /* items stored below the read position belong to the part of the ring that has wrapped round */
    for (int32_t k = 0, i = c->items.head; k < n; k++, i = (i + 1 == c->items.capacity) ? 0 : i + 1)
        fn(u, d[i], i < c->items.head ? "channel.item.wrapped" : "channel.item");
}

/* (head, tail, capacity, number of occupied slots) of a channel's three rings, for the model's ring-walk interpreter */
void c01_chan_rings(void *chan, int32_t out[12]) {
    JanetChannel *c = chan;
    JanetQueue *qs[3] = { &c->items, &c->read_pending, &c->write_pending };
    for (int k = 0; k < 3; k++) {
        out[4 * k] = qs[k]->head; out[4 * k + 1] = qs[k]->tail; out[4 * k + 2] = qs[k]->capacity; out[4 * k + 3] = janet_q_count(qs[k]);
    }
}
