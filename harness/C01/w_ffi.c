/* wrapper TU: ffi.c verbatim + accessor for the private JanetFFIStruct / JanetFFISignature (nested struct types are
 * abstracts held through `type.st`; the enumerator lists them from the field / argument arrays, independent of
 * struct_mark / signature_mark) */
#include "ffi.c"
typedef void (*c01_edge_fn)(void *u, Janet v, const char *label);
int c01_ffi_abstract(const JanetAbstractType *t, void *p, c01_edge_fn fn, void *u) {
#ifdef JANET_FFI
    if (t == &janet_struct_type) {
        JanetFFIStruct *st = p;
        for (uint32_t i = 0; i < st->field_count; i++)
            if (st->fields[i].type.prim == JANET_FFI_TYPE_STRUCT && st->fields[i].type.st)
                fn(u, janet_wrap_abstract(st->fields[i].type.st), "ffistruct.field");
        return 1;
    }
    if (t == &janet_signature_type) {
        JanetFFISignature *sig = p;
        for (uint32_t i = 0; i < sig->arg_count; i++)
            if (sig->args[i].type.prim == JANET_FFI_TYPE_STRUCT && sig->args[i].type.st)
                fn(u, janet_wrap_abstract(sig->args[i].type.st), "ffisignature.arg");
        /* NOTE: the return type (sig->ret.type) can be a struct too; signature_mark does not mark it — listed here under its
         * own label so that the graph oracle reports it if it is ever the only reference */
        if (sig->ret.type.prim == JANET_FFI_TYPE_STRUCT && sig->ret.type.st)
            fn(u, janet_wrap_abstract(sig->ret.type.st), "ffisignature.ret");
        return 1;
    }
#endif
    (void) t; (void) p; (void) fn; (void) u;
    return 0;
}
