"""C01 — generator and independent reference for root-protocol op histories (harness/C01/roots.c).

generate(rng, n)  ->  list of op lines.  The mix is biased towards what the protocol has to get right: the same value
rooted several times (also in adjacent top slots), id-equal immediates (numbers / booleans / nil are one class each),
raw pointers (compared but never marked), values never rooted, LIFO and non-LIFO lock handles, pressure around the
interval, collections inside and outside suspended regions, objects held only by the harness (C locals) across them.

Reference (independent of the Lean model, plain Python): the roots array as a MULTISET of janet_gc_idequals classes,
reachability over the arrays the history built, "a block reachable from the roots array is never freed", "no collection
while gc_suspend != 0".
"""

ALWAYS_EQ = (0, 1, 2)          # JANET_NUMBER, JANET_NIL, JANET_BOOLEAN  (checked against the translator by checks/C01.py)


def generate(rng, n):
    ops, nobj, nlock, nscr = [], 0, 0, 0
    vals = ["n1", "n2", "nil", "t", "f", "p77", "p78"]

    def val():
        r = rng.below(10)
        if r < 6 and nobj:
            # few distinct objects => many duplicates
            return "o%d" % (nobj - 1 - rng.below(min(nobj, 4)) if rng.below(3) else rng.below(nobj))
        return vals[rng.below(len(vals))]

    for _ in range(n):
        r = rng.below(100)
        if r < 14 or nobj == 0:
            if rng.below(2) or nobj == 0:
                ops.append("news %d" % rng.below(40))
            else:
                k = rng.below(4)
                ops.append("newa " + " ".join(str(rng.below(nobj)) for _ in range(k)))
            nobj += 1
        elif r < 40:
            v = val()
            ops.append("root " + v)
            if rng.below(3) == 0:
                ops.append("root " + v)        # adjacent duplicates
        elif r < 55:
            ops.append("unroot " + val())
        elif r < 62:
            ops.append("unrootall " + val())
        elif r < 68:
            ops.append("lock")
            nlock += 1
        elif r < 74:
            if nlock and rng.below(4):
                ops.append("unlock %d" % (nlock - 1 - rng.below(min(nlock, 3))))
            else:
                ops.append("unlockv %d" % rng.below(3))
        elif r < 79:
            ops.append("pressure %d" % (rng.below(200) if rng.below(2) else rng.below(5000000)))
        elif r < 82:
            ops.append("setinterval %d" % (rng.below(300) if rng.below(3) else 4194304))
        elif r < 88:
            ops.append("collect")
        elif r < 93:
            ops.append("maybe")
        elif r < 95:
            ops.append("maybef")
        elif r < 98:
            ops.append("smalloc %d" % (1 + rng.below(64)))
            nscr += 1
        else:
            ops.append("sfree %d" % rng.below(nscr + 1))
    ops += ["unlockv 0", "collect"]
    return ops


def parse_state(line):
    kv = dict(x.split("=", 1) for x in line.split()[1:])
    roots = [tuple(int(y) for y in t.split(":")) for t in kv["roots"].split(",")] if kv["roots"] else []
    live = set(int(x) for x in kv["live"].split(",")) if kv["live"] else set()
    return kv, roots, live


def cls(v):
    return (v[0], 0) if v[0] in ALWAYS_EQ else v


def multiset(vs):
    m = {}
    for v in vs:
        m[cls(v)] = m.get(cls(v), 0) + 1
    return m


REF_TYPES = (3, 4, 5, 6, 7, 8, 9, 10, 11, 12, 14)    # the case labels of janet_mark's switch, by number


def reference(mlines, states, rescans):
    """Replay the model-op lines (`m …`, the ops as the harness executed them) against the `st` lines of the
    IMPLEMENTATION with plain-Python semantics.  Returns (violations, contract_findings, stats)."""
    viol, contract = [], []
    stats = dict(ops=0, roots=0, unroots=0, unroot_hits=0, unrootalls=0, unrootall_multi=0, locks=0, collects_run=0,
                 collects_suppressed=0, max_roots=0, max_susp=0, objects=0, freed=0, idequal_imm_hits=0)
    arrays = {}          # id -> list of child ids (leaf: [])
    expect = None        # multiset
    si = 0
    prev = None
    pending = None
    nobj = 0
    for ml in mlines:
        if ml == "show":
            kv, roots, live = parse_state(states[si])
            si += 1
            if expect is None:
                expect = multiset(roots)
            got = multiset(roots)
            stats["max_roots"] = max(stats["max_roots"], len(roots))
            stats["max_susp"] = max(stats["max_susp"], int(kv["susp"]))
            if got != expect:
                if pending and pending[0] == "unrootall":
                    c = cls(pending[1])
                    rest_ok = {k: v for k, v in got.items() if k != c} == {k: v for k, v in expect.items() if k != c}
                    if rest_ok and got.get(c, 0) > 0 and expect.get(c, 0) == 0:
                        contract.append("state %d: janet_gcunrootall(%d:%d) left %d id-equal root(s)" % (si - 1, pending[1][0], pending[1][1], got[c]))
                        expect = got
                    else:
                        viol.append("multiset-differs|state %d: roots multiset after %s differs: expected %s, implementation %s" % (si - 1, pending, sorted(expect.items()), sorted(got.items())))
                        expect = got
                else:
                    viol.append("multiset-differs|state %d: roots multiset after %s differs: expected %s, implementation %s" % (si - 1, pending, sorted(expect.items()), sorted(got.items())))
                    expect = got
            # reachable from the roots array => allocated
            seen, stack = set(), [p for (t, p) in roots if t in REF_TYPES and p < 900000]
            while stack:
                x = stack.pop()
                if x in seen:
                    continue
                seen.add(x)
                stack.extend(arrays.get(x, []))
            lost = sorted(seen - live)
            if lost:
                viol.append("rooted-block-freed|state %d: block(s) %s reachable from janet_vm.roots are no longer allocated" % (si - 1, lost[:5]))
            if prev is not None:
                ran = int(kv["ncoll"]) - int(prev[0]["ncoll"])
                if ran and int(prev[0]["susp"]) != 0:
                    viol.append("collection-while-suspended|state %d: a collection ran while gc_suspend was %s" % (si - 1, prev[0]["susp"]))
                if pending and pending[0] in ("collect", "safepoint"):
                    if ran:
                        stats["collects_run"] += 1
                        stats["freed"] += len(prev[2] - live)
                        floating = sorted((live - seen))
                        # every created block not reachable from the array must be gone after a collection that ran
                        if floating:
                            viol.append("unreachable-block-survived|state %d: unreachable block(s) %s survived a collection" % (si - 1, floating[:5]))
                    elif int(prev[0]["susp"]) != 0:
                        stats["collects_suppressed"] += 1
                if not ran and prev[2] - live:
                    viol.append("freed-without-collection|state %d: block(s) %s freed without a collection" % (si - 1, sorted(prev[2] - live)[:5]))
            prev = (kv, roots, live)
            pending = None
            continue
        t = ml.split()
        stats["ops"] += 1
        pending = None
        if t[1] == "new":
            kids = [int(x) for x in t[3:] if not x.startswith("size=") and x != "-1"] if t[2] == "array" else []
            arrays[nobj] = kids
            nobj += 1
            stats["objects"] += 1
        elif t[1] in ("root", "unroot", "unrootall"):
            v = tuple(int(y) for y in t[2].split(":"))
            c = cls(v)
            pending = (t[1], v)
            if expect is None:
                continue
            if t[1] == "root":
                stats["roots"] += 1
                expect = dict(expect)
                expect[c] = expect.get(c, 0) + 1
            elif t[1] == "unroot":
                stats["unroots"] += 1
                if expect.get(c, 0):
                    stats["unroot_hits"] += 1
                    if v[0] in ALWAYS_EQ:
                        stats["idequal_imm_hits"] += 1
                    expect = dict(expect)
                    expect[c] -= 1
                    if not expect[c]:
                        del expect[c]
            else:
                stats["unrootalls"] += 1
                if expect.get(c, 0) > 1:
                    stats["unrootall_multi"] += 1
                expect = {k: n for k, n in expect.items() if k != c}
        elif t[1] == "lock":
            stats["locks"] += 1
        elif t[1] in ("collect", "safepoint"):
            pending = (t[1],)
    return viol, contract, stats
