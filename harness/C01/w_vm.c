/* wrapper TU: vm.c verbatim + the maybe_collect() macro as a callable function (it is a macro private to vm.c) */
#include "vm.c"
void c01_maybe_collect(void) {
    maybe_collect();
}
