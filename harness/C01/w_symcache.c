/* wrapper TU: the repo's symcache.c verbatim + read-only accessor for the tombstone sentinel (replaces symcache.o at link time) */
#include "symcache.c"

const uint8_t *c01_sym_deleted(void) { return JANET_SYMCACHE_DELETED; }
