/* C04 correspondence harness: runs operation histories on real janet tables / structs / arrays / buffers
 * (wrapper TU around table.c so that its static helpers are the ones under test; everything else comes from
 * libjanet.a of the variant) and prints, after EVERY op, the result and the raw state of every register
 * (capacity / count / deleted / digest of the slot array, prototype link; count / capacity / digest of sequences).
 * Same line protocol as lean/Driver/C04.lean.  See harness/C04/PROTOCOL.md. */
#include "table.c"   /* current working-tree source, via -iquote <tree>/src/core; must come first (features.h) */
#include "array.c"
#include "buffer.c"
#include <stdio.h>
#include <stdlib.h>
#include <string.h>
#include <inttypes.h>
#include <signal.h>
#include <unistd.h>

#define NT 4
#define NS 2
#define NA 3
#define NB 3
#define MAXTOK 64

/* ------------------------------------------------------------------ key pool */
typedef struct { Janet k; uint32_t hash; int rank; int kind; } PoolKey;
static PoolKey *pool; static int npool;
/* reverse map bits -> index (own open hash map; independent of janet tables) */
static uint64_t *rk; static int *rv; static size_t rcap;
static uint64_t bits_of(Janet x) { uint64_t u; memcpy(&u, &x, sizeof u); return u; }
static void rev_put(uint64_t b, int idx) {
    size_t i = (size_t)((b * 0x9E3779B97F4A7C15ull) >> 20) % rcap;
    while (rv[i] >= 0) i = (i + 1) % rcap;
    rk[i] = b; rv[i] = idx;
}
static int rev_get(uint64_t b) {
    size_t i = (size_t)((b * 0x9E3779B97F4A7C15ull) >> 20) % rcap;
    while (rv[i] >= 0) { if (rk[i] == b) return rv[i]; i = (i + 1) % rcap; }
    return -1;
}
static Janet mk_candidate(long i) {
    long q = i / 6;
    char b[64];
    switch (i % 6) {
        case 0: return janet_wrap_number((double) q);
        case 1: return janet_wrap_number((double) q + 0.5);
        case 2: snprintf(b, sizeof b, "s%ld", q); return janet_cstringv(b);
        case 3: snprintf(b, sizeof b, "k%ld", q); return janet_ckeywordv(b);
        case 4: snprintf(b, sizeof b, "y%ld", q); return janet_csymbolv(b);
        default: { Janet t[2]; t[0] = janet_wrap_number((double) q); t[1] = janet_ckeywordv("t"); return janet_wrap_tuple(janet_tuple_n(t, 2)); }
    }
}
static int cmp_pool(const void *a, const void *b) {
    const PoolKey *x = *(const PoolKey * const *) a, *y = *(const PoolKey * const *) b;
    return janet_compare(x->k, y->k);
}
static void build_pool(int per_home) {
    static const uint32_t homes[] = {0, 1, 2, 1023, 1022, 511, 512, 255};
    int nh = (int)(sizeof homes / sizeof homes[0]);
    int *cnt = calloc(nh, sizeof(int));
    int want = nh * per_home + 2;
    pool = calloc(want, sizeof(PoolKey));
    /* two booleans: hash 0 and 1, tiny hashes */
    pool[npool].kind = 6; pool[npool++].k = janet_wrap_true();
    pool[npool].kind = 6; pool[npool++].k = janet_wrap_false();
    int filled = 0;
    for (long i = 0; filled < nh && i < 40000000; i++) {
        Janet c = mk_candidate(i);
        uint32_t h = (uint32_t) janet_hash(c);
        for (int j = 0; j < nh; j++) {
            if ((h & 1023u) == homes[j] && cnt[j] < per_home) {
                pool[npool].kind = (int)(i % 6);   /* 0,1 number  2 string  3 keyword  4 symbol  5 tuple */
                pool[npool++].k = c;
                janet_gcroot(c);
                if (++cnt[j] == per_home) filled++;
                break;
            }
        }
    }
    for (int i = 0; i < npool; i++) pool[i].hash = (uint32_t) janet_hash(pool[i].k);
    PoolKey **srt = malloc(npool * sizeof *srt);
    for (int i = 0; i < npool; i++) srt[i] = &pool[i];
    qsort(srt, npool, sizeof *srt, cmp_pool);
    for (int i = 0; i < npool; i++) srt[i]->rank = i;
    free(srt);
    rcap = 4 * (size_t) npool + 16;
    rk = calloc(rcap, sizeof *rk); rv = malloc(rcap * sizeof *rv);
    for (size_t i = 0; i < rcap; i++) rv[i] = -1;
    for (int i = 0; i < npool; i++) rev_put(bits_of(pool[i].k), i);
    free(cnt);
}

/* ------------------------------------------------------------------ registers */
static JanetTable *T[NT]; static const JanetKV *S[NS]; static JanetArray *A[NA]; static JanetBuffer *B[NB];
static JanetTable *core_env;

static void root(Janet x) { janet_gcroot(x); }
static void unroot(Janet x) { janet_gcunroot(x); }
static void set_T(int i, JanetTable *t) { root(janet_wrap_table(t)); if (T[i]) unroot(janet_wrap_table(T[i])); T[i] = t; }
static void set_S(int i, const JanetKV *s) { root(janet_wrap_struct(s)); if (S[i]) unroot(janet_wrap_struct(S[i])); S[i] = s; }
static void set_A(int i, JanetArray *a) { root(janet_wrap_array(a)); if (A[i]) unroot(janet_wrap_array(A[i])); A[i] = a; }
static void set_B(int i, JanetBuffer *b) { root(janet_wrap_buffer(b)); if (B[i]) unroot(janet_wrap_buffer(B[i])); B[i] = b; }

/* ------------------------------------------------------------------ value / key coding */
static Janet val_of(long v) { return v == 0 ? janet_wrap_nil() : v == 1 ? janet_wrap_false() : v == 2 ? janet_wrap_true() : janet_wrap_number((double) v); }
static uint64_t valcode(Janet x) {
    if (janet_checktype(x, JANET_NIL)) return 0;
    if (janet_checktype(x, JANET_BOOLEAN)) return janet_unwrap_boolean(x) ? 2 : 1;
    if (janet_checkint(x) && janet_unwrap_integer(x) >= 3 && janet_unwrap_integer(x) < 1000000) return (uint64_t) janet_unwrap_integer(x);
    return 0xFFFFE;
}
static uint64_t keycode(Janet x) {
    if (janet_checktype(x, JANET_NIL)) return 0;
    int i = rev_get(bits_of(x));
    if (i < 0 && (janet_checktype(x, JANET_TUPLE) || janet_checktype(x, JANET_STRING))) {
        /* an equal but not identical key (freeze rebuilds tuple keys): keys are compared with janet_equals */
        for (int j = 0; j < npool; j++) if (janet_equals(pool[j].k, x)) { i = j; break; }
    }
    return i < 0 ? 0xFFFFF : (uint64_t)(i + 1);
}
static void pr_val(char *o, Janet x) {
    uint64_t c = valcode(x);
    if (c == 0) strcpy(o, "nil"); else if (c == 1) strcpy(o, "false"); else if (c == 2) strcpy(o, "true");
    else if (c == 0xFFFFE) {
        if (janet_checktype(x, JANET_NUMBER)) snprintf(o, 64, "num:%.17g", janet_unwrap_number(x)); else snprintf(o, 64, "other:%d", (int) janet_type(x));
    } else snprintf(o, 64, "%" PRIu64, c);
}
static int is_buf_res = 0;   /* result of get/in/geti on a buffer: a byte, printed as a plain integer */
static void pr_res(char *o, Janet x) {
    if (is_buf_res && janet_checkint(x)) snprintf(o, 64, "%d", janet_unwrap_integer(x)); else pr_val(o, x);
}
static void pr_key(char *o, Janet x) {
    uint64_t c = keycode(x);
    if (c == 0) strcpy(o, "nil"); else if (c == 0xFFFFF) { if (janet_checkint(x)) snprintf(o, 64, "i%d", janet_unwrap_integer(x)); else snprintf(o, 64, "other:%d", (int) janet_type(x)); }
    else snprintf(o, 64, "K%" PRIu64, c - 1);
}
/* argument token -> Janet.  K<i> pool key, nil, nan, integer literal (as number), f<double>, s<text> string, v<n> value id,
 * T<i>/S<i>/A<i>/B<i> register, [a,b,...] tuple of value ids */
static int parse_arg(const char *t, Janet *out) {
    if (!strcmp(t, "nil") || !strcmp(t, "/")) { *out = janet_wrap_nil(); return 1; }
    if (!strcmp(t, "nan")) { *out = janet_wrap_number(0.0 / 0.0); return 1; }
    if (!strcmp(t, "true")) { *out = janet_wrap_true(); return 1; }
    if (!strcmp(t, "false")) { *out = janet_wrap_false(); return 1; }
    if (t[0] == 'K') { int i = atoi(t + 1); if (i < 0 || i >= npool) return 0; *out = pool[i].k; return 1; }
    if (t[0] == 'v') { *out = val_of(atol(t + 1)); return 1; }
    if (t[0] == 'f') { *out = janet_wrap_number(strtod(t + 1, NULL)); return 1; }
    if (t[0] == 's') { *out = janet_cstringv(t + 1); return 1; }
    if (t[0] == ':') { *out = janet_ckeywordv(t + 1); return 1; }
    if (t[0] == 'T') { int i = atoi(t + 1); if (i < 0 || i >= NT) return 0; *out = janet_wrap_table(T[i]); return 1; }
    if (t[0] == 'S') { int i = atoi(t + 1); if (i < 0 || i >= NS) return 0; *out = janet_wrap_struct(S[i]); return 1; }
    if (t[0] == 'A') { int i = atoi(t + 1); if (i < 0 || i >= NA) return 0; *out = janet_wrap_array(A[i]); return 1; }
    if (t[0] == 'B') { int i = atoi(t + 1); if (i < 0 || i >= NB) return 0; *out = janet_wrap_buffer(B[i]); return 1; }
    if (t[0] == '[') {
        Janet tmp[32]; int n = 0; const char *p = t + 1;
        while (*p && *p != ']' && n < 32) { tmp[n++] = val_of(strtol(p, (char **) &p, 10)); if (*p == ',') p++; }
        *out = janet_wrap_tuple(janet_tuple_n(tmp, n)); return 1;
    }
    if ((t[0] >= '0' && t[0] <= '9') || t[0] == '-') { *out = janet_wrap_number((double) strtoll(t, NULL, 10)); return 1; }
    return 0;
}

/* ------------------------------------------------------------------ state digests */
static uint64_t dg(uint64_t d, uint64_t c) { return d * 1000003ull + c + 1; }
static uint64_t kv_digest(const JanetKV *kvs, int32_t cap) {
    uint64_t d = 0;
    for (int32_t i = 0; i < cap; i++) d = dg(d, keycode(kvs[i].key) * 1048576ull + valcode(kvs[i].value));
    return d;
}
static int full_dump = 0;
static void pr_state(void) {
    char kb[64], vb[64];
    for (int i = 0; i < NT; i++) {
        JanetTable *t = T[i];
        int p = -2;
        for (int j = NT - 1; j >= 0; j--) if (t->proto == T[j]) p = j;
        printf(" T%d:%d,%d,%d,%" PRIx64 ",%d", i, t->capacity, t->count, t->deleted, kv_digest(t->data, t->capacity), t->proto ? p : -1);
        if (full_dump) { printf("{"); for (int32_t j = 0; j < t->capacity; j++) { pr_key(kb, t->data[j].key); pr_val(vb, t->data[j].value); printf("%s=%s ", kb, vb); } printf("}"); }
    }
    for (int i = 0; i < NS; i++) {
        const JanetKV *s = S[i];
        int p = -2;
        for (int j = NS - 1; j >= 0; j--) if (janet_struct_proto(s) == S[j]) p = j;
        printf(" S%d:%d,%d,%" PRIx64 ",%d", i, janet_struct_capacity(s), janet_struct_length(s), kv_digest(s, janet_struct_capacity(s)), janet_struct_proto(s) ? p : -1);
        if (full_dump) { printf("{"); for (int32_t j = 0; j < janet_struct_capacity(s); j++) { pr_key(kb, s[j].key); pr_val(vb, s[j].value); printf("%s=%s ", kb, vb); } printf("}"); }
    }
    for (int i = 0; i < NA; i++) {
        JanetArray *a = A[i];
        uint64_t d = 0;
        for (int32_t j = 0; j < a->count; j++) d = dg(d, valcode(a->data[j]));
        printf(" A%d:%d,%d,%" PRIx64, i, a->count, a->capacity, d);
        if (full_dump) { printf("{"); for (int32_t j = 0; j < a->count && j < 4000; j++) { pr_val(vb, a->data[j]); printf("%s ", vb); } printf("}"); }
    }
    for (int i = 0; i < NB; i++) {
        JanetBuffer *b = B[i];
        uint64_t d = 0;
        for (int32_t j = 0; j < b->count; j++) d = dg(d, b->data[j]);
        printf(" B%d:%d,%d,%" PRIx64, i, b->count, b->capacity, d);
        if (full_dump) { printf("{"); for (int32_t j = 0; j < b->count && j < 4000; j++) printf("%02x", b->data[j]); printf("}"); }
    }
    printf("\n");
}

/* ------------------------------------------------------------------ protected calls */
static Janet resolve(const char *name) {
    Janet out = janet_wrap_nil();
    janet_resolve(core_env, janet_csymbol(name), &out);
    return out;
}
/* call a core function by name; returns 1 ok / 0 error */
static int call(const char *name, int32_t argc, Janet *argv, Janet *out) {
    Janet f = resolve(name);
    if (janet_checktype(f, JANET_CFUNCTION)) {
        JanetTryState ts;
        volatile int ok = 0;
        Janet r = janet_wrap_nil();
        if (janet_try(&ts) == JANET_SIGNAL_OK) { r = janet_unwrap_cfunction(f)(argc, argv); ok = 1; }
        janet_restore(&ts);
        *out = r;
        return ok;
    } else if (janet_checktype(f, JANET_FUNCTION)) {
        JanetFiber *fiber = NULL;
        int lock = janet_gclock();
        JanetSignal sig = janet_pcall(janet_unwrap_function(f), argc, argv, out, &fiber);
        janet_gcunlock(lock);
        return sig == JANET_SIGNAL_OK;
    }
    fprintf(stderr, "cannot resolve %s\n", name);
    exit(3);
}
#define TRY(stmt) do { JanetTryState ts_; ok = 0; if (janet_try(&ts_) == JANET_SIGNAL_OK) { stmt; ok = 1; } janet_restore(&ts_); } while (0)

static void reset_regs(void) {
    for (int i = 0; i < NT; i++) set_T(i, janet_table(0));
    for (int i = 0; i < NS; i++) set_S(i, janet_struct_end(janet_struct_begin(0)));
    for (int i = 0; i < NA; i++) set_A(i, janet_array(0));
    for (int i = 0; i < NB; i++) set_B(i, janet_buffer(0));
}

static int reg(const char *t, char kind, int n) { if (t[0] != kind) return -1; int i = atoi(t + 1); return (i >= 0 && i < n) ? i : -1; }

/* hang detection: every op must finish within OP_TIMEOUT seconds, otherwise the process exits with status 97 */
#define OP_TIMEOUT 5
static void on_alarm(int sig) { (void) sig; _exit(97); }

int main(int argc, char **argv) {
    signal(SIGALRM, on_alarm);
    janet_init();
    core_env = janet_core_env(NULL);
    janet_gcroot(janet_wrap_table(core_env));
    int per_home = 40, kinds = 0;
    for (int i = 1; i < argc; i++) {
        if (!strcmp(argv[i], "--kinds")) kinds = 1;
        if (!strcmp(argv[i], "--full")) full_dump = 1;
        else if (!strncmp(argv[i], "--per-home=", 11)) per_home = atoi(argv[i] + 11);
        else if (!strcmp(argv[i], "--lb")) setvbuf(stdout, NULL, _IOLBF, 0);   /* line buffered: nothing is lost on a crash */
    }
    build_pool(per_home);
    if (kinds) { for (int i = 0; i < npool; i++) printf("kind %d %d\n", i, pool[i].kind); return 0; }
    for (int i = 0; i < npool; i++) printf("key %d %u %d\n", i, pool[i].hash, pool[i].rank);
    printf("keys-end %d\n", npool);
    reset_regs();
    char *line = NULL; size_t cap = 0; ssize_t n;
    char kb[64], vb[64];
    while ((n = getline(&line, &cap, stdin)) > 0) {
        while (n > 0 && (line[n - 1] == '\n' || line[n - 1] == '\r' || line[n - 1] == ' ')) line[--n] = 0;
        alarm(OP_TIMEOUT);
        char *tok[MAXTOK]; int nt = 0;
        for (char *p = strtok(line, " "); p && nt < MAXTOK; p = strtok(NULL, " ")) tok[nt++] = p;
        if (nt == 0) { printf("bad-op\n"); continue; }
        const char *op = tok[0];
        Janet a[MAXTOK]; Janet r = janet_wrap_nil();
        volatile int ok = 1;
        int bad = 0;
        int t0 = nt > 1 ? reg(tok[1], 'T', NT) : -1, s0 = nt > 1 ? reg(tok[1], 'S', NS) : -1;
        int a0 = nt > 1 ? reg(tok[1], 'A', NA) : -1, b0 = nt > 1 ? reg(tok[1], 'B', NB) : -1;
        for (int i = 1; i < nt; i++) if (!parse_arg(tok[i], &a[i - 1])) bad = 1;
        int na = nt - 1;
        is_buf_res = b0 >= 0;
        if (bad) { printf("bad-op\n"); continue; }
        if (!strcmp(op, "hist")) { fflush(stdout); reset_regs(); printf("ok"); }
        /* ---------------- dictionaries (first argument is T<i> or S<i>) */
        else if (!strcmp(op, "tnew") && t0 >= 0 && na == 2) { if (call("table/new", 1, a + 1, &r)) { set_T(t0, janet_unwrap_table(r)); printf("ok"); } else printf("err"); }
        else if (!strcmp(op, "tnewweak") && t0 >= 0 && na == 3) { /* tnewweak T n 1|2|3: table/weak-keys, weak-values, weak */
            const char *fn = !strcmp(tok[3], "1") ? "table/weak-keys" : !strcmp(tok[3], "2") ? "table/weak-values" : "table/weak";
            if (call(fn, 1, a + 1, &r)) { set_T(t0, janet_unwrap_table(r)); printf("ok"); } else printf("err"); }
        else if (!strcmp(op, "freeze") && t0 >= 0 && na == 2 && reg(tok[2], 'S', NS) >= 0) { if (call("freeze", 1, a, &r) && janet_checktype(r, JANET_STRUCT)) { set_S(reg(tok[2], 'S', NS), janet_unwrap_struct(r)); printf("ok"); } else printf("err"); }
        else if (!strcmp(op, "thaw") && t0 >= 0 && na == 2 && reg(tok[2], 'T', NT) >= 0) { if (call("thaw", 1, a, &r) && janet_checktype(r, JANET_TABLE)) { set_T(reg(tok[2], 'T', NT), janet_unwrap_table(r)); printf("ok"); } else printf("err"); }
        else if (!strcmp(op, "put") && na == 3) { TRY(janet_put(a[0], a[1], a[2])); printf(ok ? "ok" : "err"); }
        else if (!strcmp(op, "get") && na == 2) { TRY(r = janet_get(a[0], a[1])); if (ok) { pr_res(vb, r); printf("%s", vb); } else printf("err"); }
        else if (!strcmp(op, "in") && na == 2) { TRY(r = janet_in(a[0], a[1])); if (ok) { pr_res(vb, r); printf("%s", vb); } else printf("err"); }
        else if (!strcmp(op, "rawget") && na == 2) { if (call(t0 >= 0 ? "table/rawget" : "struct/rawget", 2, a, &r)) { pr_val(vb, r); printf("%s", vb); } else printf("err"); }
        else if (!strcmp(op, "rem") && t0 >= 0 && na == 2) { r = janet_table_remove(T[t0], a[1]); pr_val(vb, r); printf("%s", vb); }
        else if (!strcmp(op, "clear") && t0 >= 0) { printf(call("table/clear", 1, a, &r) ? "ok" : "err"); }
        else if (!strcmp(op, "clone") && t0 >= 0 && na == 2 && reg(tok[2], 'T', NT) >= 0) { if (call("table/clone", 1, a, &r)) { set_T(reg(tok[2], 'T', NT), janet_unwrap_table(r)); printf("ok"); } else printf("err"); }
        else if (!strcmp(op, "setproto") && na == 2) {
            if (t0 >= 0) printf(call("table/setproto", 2, a, &r) ? "ok" : "err");
            else printf("bad-op");
        }
        else if (!strcmp(op, "withproto") && s0 >= 0 && na == 3 && reg(tok[3], 'S', NS) >= 0) {
            /* S<dst> := struct with the entries of S<src> and prototype a[1] (struct or nil) */
            const JanetKV *src = janet_unwrap_struct(a[0]);
            int32_t cnt = 0; Janet *args = janet_smalloc(sizeof(Janet) * (2 * (size_t) janet_struct_length(src) + 1));
            args[cnt++] = a[1];
            for (int32_t i = 0; i < janet_struct_capacity(src); i++) if (!janet_checktype(src[i].key, JANET_NIL)) { args[cnt++] = src[i].key; args[cnt++] = src[i].value; }
            if (call("struct/with-proto", cnt, args, &r)) { set_S(reg(tok[3], 'S', NS), janet_unwrap_struct(r)); printf("ok"); } else printf("err");
            janet_sfree(args);
        }
        else if (!strcmp(op, "next") && na == 2) { TRY(r = janet_next(a[0], a[1])); if (ok) { if (t0 >= 0 || s0 >= 0) pr_key(kb, r); else if (janet_checkint(r)) snprintf(kb, sizeof kb, "%d", janet_unwrap_integer(r)); else pr_val(kb, r); printf("%s", kb); } else printf("err"); }
        else if (!strcmp(op, "len") && na == 1) { TRY(r = janet_wrap_integer(janet_length(a[0]))); if (ok) printf("%d", janet_unwrap_integer(r)); else printf("err"); }
        else if ((!strcmp(op, "keys") || !strcmp(op, "pairs") || !strcmp(op, "values")) && na == 1) {
            if (call(op, 1, a, &r) && janet_checktype(r, JANET_ARRAY)) {
                JanetArray *arr = janet_unwrap_array(r);
                printf("[");
                for (int32_t i = 0; i < arr->count; i++) {
                    if (op[0] == 'k') { pr_key(kb, arr->data[i]); printf("%s%s", i ? " " : "", kb); }
                    else if (op[0] == 'v') { pr_val(vb, arr->data[i]); printf("%s%s", i ? " " : "", vb); }
                    else {
                        if (!janet_checktype(arr->data[i], JANET_TUPLE) || janet_tuple_length(janet_unwrap_tuple(arr->data[i])) != 2) { printf("%s?", i ? " " : ""); continue; }
                        const Janet *tp = janet_unwrap_tuple(arr->data[i]);
                        pr_key(kb, tp[0]); pr_val(vb, tp[1]); printf("%s%s=%s", i ? " " : "", kb, vb);
                    }
                }
                printf("]");
            } else printf("err");
        }
        else if (!strcmp(op, "merge") && t0 >= 0 && na >= 2) { printf(call("merge-into", na, a, &r) ? "ok" : "err"); }
        /* constructor-like boot.janet functions, run by the real interpreter: the result goes to T<dst> */
        else if (!strcmp(op, "mergenew") && t0 >= 0) { /* mergenew D src... = (merge ;srcs) */
            if (call("merge", na - 1, a + 1, &r) && janet_checktype(r, JANET_TABLE)) { set_T(t0, janet_unwrap_table(r)); printf("ok"); } else printf("err"); }
        else if (!strcmp(op, "zipcoll") && t0 >= 0) { /* zipcoll D k.. / v.. */
            int sep = -1; for (int i = 2; i < nt; i++) if (!strcmp(tok[i], "/")) { sep = i; break; }
            if (sep < 0) { printf("bad-op\n"); continue; }
            Janet kv2[2];
            kv2[0] = janet_wrap_tuple(janet_tuple_n(a + 1, sep - 2));
            kv2[1] = janet_wrap_tuple(janet_tuple_n(a + sep, nt - sep - 1));
            if (call("zipcoll", 2, kv2, &r) && janet_checktype(r, JANET_TABLE)) { set_T(t0, janet_unwrap_table(r)); printf("ok"); } else printf("err"); }
        else if (!strcmp(op, "frompairs") && t0 >= 0 && (na % 2) == 1) { /* frompairs D k v k v ... */
            Janet *ps = janet_smalloc(sizeof(Janet) * (size_t)(na / 2 + 1));
            for (int i = 0; i < na / 2; i++) ps[i] = janet_wrap_tuple(janet_tuple_n(a + 1 + 2 * i, 2));
            Janet arg = janet_wrap_tuple(janet_tuple_n(ps, na / 2));
            janet_sfree(ps);
            if (call("from-pairs", 1, &arg, &r) && janet_checktype(r, JANET_TABLE)) { set_T(t0, janet_unwrap_table(r)); printf("ok"); } else printf("err"); }
        else if (!strcmp(op, "update") && t0 >= 0 && na == 2) { /* (update T k identity): reads through the prototypes, writes the own table */
            Janet args[3]; args[0] = a[0]; args[1] = a[1]; args[2] = resolve("identity");
            printf(call("update", 3, args, &r) ? "ok" : "err"); }
        else if (!strcmp(op, "getproto") && na == 1 && (t0 >= 0 || s0 >= 0)) {
            if (call(t0 >= 0 ? "table/getproto" : "struct/getproto", 1, a, &r)) {
                if (janet_checktype(r, JANET_NIL)) printf("nil");
                else {
                    int p = -2;
                    if (t0 >= 0) { for (int j = NT - 1; j >= 0; j--) if (janet_checktype(r, JANET_TABLE) && janet_unwrap_table(r) == T[j]) p = j; }
                    else { for (int j = NS - 1; j >= 0; j--) if (janet_checktype(r, JANET_STRUCT) && janet_unwrap_struct(r) == S[j]) p = j; }
                    printf("%d", p);
                }
            } else printf("err"); }
        else if (!strcmp(op, "cmerge") && t0 >= 0 && na >= 2) { /* the C entry points janet_table_merge_table / _struct */
            for (int i = 1; i < na; i++) { if (janet_checktype(a[i], JANET_TABLE)) janet_table_merge_table(T[t0], janet_unwrap_table(a[i])); else if (janet_checktype(a[i], JANET_STRUCT)) janet_table_merge_struct(T[t0], janet_unwrap_struct(a[i])); }
            printf("ok"); }
        else if (!strcmp(op, "tostruct") && t0 >= 0 && na == 2 && reg(tok[2], 'S', NS) >= 0) { if (call("table/to-struct", 1, a, &r)) { set_S(reg(tok[2], 'S', NS), janet_unwrap_struct(r)); printf("ok"); } else printf("err"); }
        else if (!strcmp(op, "totable") && s0 >= 0 && na == 2 && reg(tok[2], 'T', NT) >= 0) { if (call("struct/to-table", 1, a, &r)) { set_T(reg(tok[2], 'T', NT), janet_unwrap_table(r)); printf("ok"); } else printf("err"); }
        else if (!strcmp(op, "flatten") && t0 >= 0 && na == 2 && reg(tok[2], 'T', NT) >= 0) { if (call("table/proto-flatten", 1, a, &r)) { set_T(reg(tok[2], 'T', NT), janet_unwrap_table(r)); printf("ok"); } else printf("err"); }
        else if (!strcmp(op, "mkstruct") && s0 >= 0) { /* mkstruct S k v k v ... via the `struct` cfun */
            if (call("struct", na - 1, a + 1, &r)) { set_S(s0, janet_unwrap_struct(r)); printf("ok"); } else printf("err"); }
        /* ---------------- arrays */
        else if (!strcmp(op, "anew") && a0 >= 0 && na == 2) { if (call("array/new", 1, a + 1, &r)) { set_A(a0, janet_unwrap_array(r)); printf("ok"); } else printf("err"); }
        else if (!strcmp(op, "anewfilled") && a0 >= 0 && na >= 2) { if (call("array/new-filled", na - 1, a + 1, &r)) { set_A(a0, janet_unwrap_array(r)); printf("ok"); } else printf("err"); }
        else if (!strcmp(op, "apush") && a0 >= 0) printf(call("array/push", na, a, &r) ? "ok" : "err");
        else if (!strcmp(op, "apop") && a0 >= 0) { if (call("array/pop", na, a, &r)) { pr_val(vb, r); printf("%s", vb); } else printf("err"); }
        else if (!strcmp(op, "apeek") && a0 >= 0) { if (call("array/peek", na, a, &r)) { pr_val(vb, r); printf("%s", vb); } else printf("err"); }
        else if (!strcmp(op, "ainsert") && a0 >= 0) printf(call("array/insert", na, a, &r) ? "ok" : "err");
        else if (!strcmp(op, "aremove") && a0 >= 0) printf(call("array/remove", na, a, &r) ? "ok" : "err");
        else if (!strcmp(op, "aconcat") && a0 >= 0) printf(call("array/concat", na, a, &r) ? "ok" : "err");
        else if (!strcmp(op, "ajoin") && a0 >= 0) printf(call("array/join", na, a, &r) ? "ok" : "err");
        else if (!strcmp(op, "afill") && a0 >= 0) printf(call("array/fill", na, a, &r) ? "ok" : "err");
        else if (!strcmp(op, "aensure") && a0 >= 0) printf(call("array/ensure", na, a, &r) ? "ok" : "err");
        else if (!strcmp(op, "atrim") && a0 >= 0) printf(call("array/trim", na, a, &r) ? "ok" : "err");
        else if (!strcmp(op, "aclear") && a0 >= 0) printf(call("array/clear", na, a, &r) ? "ok" : "err");
        else if (!strcmp(op, "aslice") && na >= 2 && reg(tok[2], 'A', NA) >= 0) { /* aslice <src A|[tuple]> <dst> [start] [end] */
            Janet b2[3]; b2[0] = a[0]; for (int i = 2; i < na; i++) b2[i - 1] = a[i];
            if (call("array/slice", na - 1, b2, &r)) { set_A(reg(tok[2], 'A', NA), janet_unwrap_array(r)); printf("ok"); } else printf("err"); }
        else if (!strcmp(op, "asetcount") && a0 >= 0 && na == 2) { janet_array_setcount(A[a0], janet_unwrap_integer(a[1])); printf("ok"); }
        else if (!strcmp(op, "puti") && na == 3) { TRY(janet_putindex(a[0], janet_unwrap_integer(a[1]), a[2])); printf(ok ? "ok" : "err"); }
        else if (!strcmp(op, "geti") && na == 2) { TRY(r = janet_getindex(a[0], janet_unwrap_integer(a[1]))); if (ok) { pr_res(vb, r); printf("%s", vb); } else printf("err"); }
        /* ---------------- buffers */
        else if (!strcmp(op, "bnew") && b0 >= 0 && na == 2) { if (call("buffer/new", 1, a + 1, &r)) { set_B(b0, janet_unwrap_buffer(r)); printf("ok"); } else printf("err"); }
        else if (!strcmp(op, "bnewfilled") && b0 >= 0 && na >= 2) { if (call("buffer/new-filled", na - 1, a + 1, &r)) { set_B(b0, janet_unwrap_buffer(r)); printf("ok"); } else printf("err"); }
        else if (!strcmp(op, "bpush") && b0 >= 0) printf(call("buffer/push", na, a, &r) ? "ok" : "err");
        else if (!strcmp(op, "bpushbyte") && b0 >= 0) printf(call("buffer/push-byte", na, a, &r) ? "ok" : "err");
        else if (!strcmp(op, "bpushword") && b0 >= 0) printf(call("buffer/push-word", na, a, &r) ? "ok" : "err");
        else if (!strcmp(op, "bpushstr") && b0 >= 0) printf(call("buffer/push-string", na, a, &r) ? "ok" : "err");
        else if (!strcmp(op, "bpushat") && b0 >= 0) printf(call("buffer/push-at", na, a, &r) ? "ok" : "err");
        else if (!strcmp(op, "bpopn") && b0 >= 0) printf(call("buffer/popn", na, a, &r) ? "ok" : "err");
        else if (!strcmp(op, "bfill") && b0 >= 0) printf(call("buffer/fill", na, a, &r) ? "ok" : "err");
        else if (!strcmp(op, "btrim") && b0 >= 0) printf(call("buffer/trim", na, a, &r) ? "ok" : "err");
        else if (!strcmp(op, "bclear") && b0 >= 0) printf(call("buffer/clear", na, a, &r) ? "ok" : "err");
        else if (!strcmp(op, "bblit") && b0 >= 0) printf(call("buffer/blit", na, a, &r) ? "ok" : "err");
        else if (!strcmp(op, "bbitset") && b0 >= 0) printf(call("buffer/bit-set", na, a, &r) ? "ok" : "err");
        else if (!strcmp(op, "bbitclear") && b0 >= 0) printf(call("buffer/bit-clear", na, a, &r) ? "ok" : "err");
        else if (!strcmp(op, "bbittoggle") && b0 >= 0) printf(call("buffer/bit-toggle", na, a, &r) ? "ok" : "err");
        else if (!strcmp(op, "bbit") && b0 >= 0) { if (call("buffer/bit", na, a, &r)) { pr_val(vb, r); printf("%s", vb); } else printf("err"); }
        else if (!strcmp(op, "bfrombytes") && b0 >= 0) { if (call("buffer/from-bytes", na - 1, a + 1, &r)) { set_B(b0, janet_unwrap_buffer(r)); printf("ok"); } else printf("err"); }
        else if (!strcmp(op, "bslice") && na >= 2 && reg(tok[2], 'B', NB) >= 0) {
            Janet b2[3]; b2[0] = a[0]; for (int i = 2; i < na; i++) b2[i - 1] = a[i];
            if (call("buffer/slice", na - 1, b2, &r)) { set_B(reg(tok[2], 'B', NB), janet_unwrap_buffer(r)); printf("ok"); } else printf("err"); }
        else if (!strcmp(op, "bsetcount") && b0 >= 0 && na == 2) { TRY(janet_buffer_setcount(B[b0], janet_unwrap_integer(a[1]))); printf(ok ? "ok" : "err"); }
        else if (!strcmp(op, "bensure") && b0 >= 0 && na == 3) { TRY(janet_buffer_ensure(B[b0], janet_unwrap_integer(a[1]), janet_unwrap_integer(a[2]))); printf(ok ? "ok" : "err"); }
        else if (!strcmp(op, "bextra") && b0 >= 0 && na == 2) { TRY(janet_buffer_extra(B[b0], janet_unwrap_integer(a[1]))); printf(ok ? "ok" : "err"); }
        else { printf("bad-op\n"); continue; }
        pr_state();
    }
    alarm(0);
    free(line);
    fflush(stdout);
    return 0;
}
