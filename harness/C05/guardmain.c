/* C05 guard pass: janet with (a) the recursion guard of vm.c lowered to a run-time value and (b) a cfunction that reads
 * janet_vm.stackn, so that the model's counter (Fiber/Model.lean depthOf) and guard trips (Fiber/Guard.lean stepG) can be
 * compared with the implementation on ordinary random fiber trees.
 *
 * Wrapper TU: vm.c is compiled here, UNMODIFIED, with JANET_RECURSION_GUARD redefined to the variable c05_guard; this
 * object replaces vm.o of libjanet.a at link time.  Every other file (compiler, parser, …) keeps the real constant.
 *
 *   guardmain <guard> <script.janet>
 */
#include "features.h"
#include <janet.h>
#include <stdio.h>
#include <stdlib.h>
#include <string.h>
static int c05_guard = 1024;
#undef JANET_RECURSION_GUARD
#define JANET_RECURSION_GUARD c05_guard
#include "vm.c"

static Janet c05_stackn(int32_t argc, Janet *argv) {
    (void) argv;
    janet_fixarity(argc, 0);
    return janet_wrap_integer(janet_vm.stackn);
}

static Janet c05_guard_get(int32_t argc, Janet *argv) {
    (void) argv;
    janet_fixarity(argc, 0);
    return janet_wrap_integer(c05_guard);
}

/* (c05/set-guard n): the prelude is loaded with the real guard, each tree runs with the lowered one */
static Janet c05_guard_set(int32_t argc, Janet *argv) {
    janet_fixarity(argc, 1);
    c05_guard = janet_getinteger(argv, 0);
    return janet_wrap_nil();
}

/* (c05/mark-root f): what the ev scheduler does to a task fiber (the `janet` executable runs scripts as one) */
static Janet c05_mark_root(int32_t argc, Janet *argv) {
    janet_fixarity(argc, 1);
    janet_getfiber(argv, 0)->gc.flags |= JANET_FIBER_FLAG_ROOT;
    return janet_wrap_nil();
}

int main(int argc, char **argv) {
    if (argc != 3) {
        fprintf(stderr, "usage: guardmain <guard> <script>\n");
        return 2;
    }
    int guard = atoi(argv[1]);
    FILE *f = fopen(argv[2], "rb");
    if (!f) {
        perror(argv[2]);
        return 2;
    }
    fseek(f, 0, SEEK_END);
    long n = ftell(f);
    fseek(f, 0, SEEK_SET);
    uint8_t *buf = malloc(n + 1);
    if (fread(buf, 1, n, f) != (size_t) n) {
        perror("read");
        return 2;
    }
    fclose(f);
    janet_init();
    JanetTable *env = janet_core_env(NULL);
    janet_def(env, "c05/stackn", janet_wrap_cfunction(c05_stackn), "janet_vm.stackn");
    janet_def(env, "c05/guard", janet_wrap_cfunction(c05_guard_get), "current guard");
    janet_def(env, "c05/set-guard", janet_wrap_cfunction(c05_guard_set), "set guard");
    janet_def(env, "c05/mark-root", janet_wrap_cfunction(c05_mark_root), "set JANET_FIBER_FLAG_ROOT");
    janet_def(env, "c05/low-guard", janet_wrap_integer(guard), "guard to use inside trees");
    Janet out;
    int rc = janet_dobytes(env, buf, (int32_t) n, argv[2], &out);
    fflush(stdout);
    janet_deinit();
    free(buf);
    return rc ? 1 : 0;
}
