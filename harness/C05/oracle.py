"""C05 direct oracle: the protocol statements of the property, evaluated on the IMPLEMENTATION trace only
(independent of the Lean model; the only shared input is the generated tree and the documented mask letters).

Trace entries (see prelude.py): comparable events `l:fid:val:snap`, and janet-only `@new creator id =flags`,
`@pre l fid kind target tstatus arg snap` (kind 0 resume 1 cancel 2 next 3 each), `@snd l fid sig val snap`.
Returns a list of (rule, message) violations.
"""
FIN = {0, 1, 4, 5, 6, 7, 8}          # dead, error, user0-4: not resumable (documented in fiber/status, `defer`)
NEW, ALIVE = 14, 15


def rank(s):
    return 0 if s == NEW else (2 if s in FIN else 1)


def mask_of(flags):
    """documented meaning of the fiber/new mask letters -> set of signal numbers caught"""
    m = set()
    for c in flags:
        if c.isdigit():
            m.add(4 + int(c))
        elif c == 'a':
            m |= set(range(1, 14))
        elif c == 't':
            m |= {1, 4, 5, 6, 7, 8}
        elif c == 'd':
            m.add(2)
        elif c == 'e':
            m.add(1)
        elif c == 'u':
            m |= set(range(4, 14))
        elif c == 'y':
            m.add(3)
        elif c == 'w':
            m.add(13)
        elif c == 'r':
            m.add(12)
    return m


def parse(line):
    body, _, fin = line.partition(" | ")
    ents = []
    for e in body.split(";") if body else []:
        if e.startswith("@new"):
            _, cr, i, fl = e.split(" ")
            ents.append({"t": "new", "creator": int(cr), "id": int(i), "flags": fl[1:] if fl.startswith("=") else None})
        elif e.startswith("@pre"):
            _, l, f, k, tg, ts, arg, sn = e.split(" ")
            ents.append({"t": "pre", "l": int(l), "fid": int(f), "kind": int(k), "target": int(tg), "tstatus": int(ts), "v": arg, "snap": sn})
        elif e.startswith("@ret"):
            _, f, v, sn = e.split(" ")
            ents.append({"t": "ret", "fid": int(f), "v": v, "snap": sn})
        elif e.startswith("@snd"):
            _, l, f, sg, v, sn = e.split(" ")
            ents.append({"t": "snd", "l": int(l), "fid": int(f), "sig": int(sg), "v": v, "snap": sn})
        else:
            l, f, rest = e.split(":", 2)
            v, _, sn = rest.rpartition(":")
            ents.append({"t": "ev", "l": int(l), "fid": int(f), "v": v, "snap": sn})
    fp = fin.split(" ")
    final = {"t": "fin", "sig": int(fp[1]), "v": fp[2], "snap": fp[3]}
    return ents, final


def st(ch):
    return int(ch, 16)


def check(line, info, stats):
    ents, final = parse(line)
    bad = []
    seq = ents + [final]
    # ---- R1 statuses only move forward; finished never changes
    prev = None
    for e in seq:
        sn = e.get("snap")
        if sn is None:
            continue
        if prev is not None:
            if len(sn) < len(prev):
                bad.append(("status", "registry shrank"))
            for i, (a, b) in enumerate(zip(prev, sn)):
                a, b = st(a), st(b)
                if a == b:
                    continue
                stats["status_changes"] = stats.get("status_changes", 0) + 1
                if a in FIN:
                    bad.append(("finished_never_resumes", "fiber %d left finished status %d -> %d" % (i, a, b)))
                elif rank(b) < rank(a):
                    bad.append(("status_monotone", "fiber %d moved backwards %d -> %d" % (i, a, b)))
        prev = sn
    # ---- R2 resume / cancel of a finished fiber raises (the caller emits nothing more and ends in error)
    for i, e in enumerate(ents):
        if e["t"] == "pre" and e["kind"] in (0, 1) and e["tstatus"] in FIN:
            stats["resume_finished"] = stats.get("resume_finished", 0) + 1
            p = e["fid"]
            later = [x for x in ents[i + 1:] if x["t"] in ("ev", "pre", "snd") and x["fid"] == p]
            if later:
                bad.append(("finished_never_resumes", "fiber %d resumed finished fiber %d (status %d) and kept running (label %d)" % (p, e["target"], e["tstatus"], e["l"])))
            nxt = next((x for x in seq[i + 1:] if x.get("snap")), None)
            if nxt and p < len(nxt["snap"]) and st(nxt["snap"][p]) != 1:
                bad.append(("finished_never_resumes", "fiber %d not in error state after resuming finished fiber %d" % (p, e["target"])))
    # ---- R3 values unchanged and in order (adjacent send/receive pairs)
    ops = info["op"]
    last_pre = {}
    for i, e in enumerate(ents):
        if e["t"] == "pre":
            last_pre[(e["l"], e["fid"])] = e
        if e["t"] != "ev" or i == 0:
            continue
        op = ops.get(e["l"])
        pv = ents[i - 1]
        kind = op[0] if op else None
        if kind in ("yield", "signal", "debug", "Mreturn"):
            # DOWN: a suspended (childless) instruction completes only because a resume / next woke it, and it sees
            # exactly the value that was passed (nil for next).  Later iterations of an `each` loop issue their `next`
            # inside the macro, where it cannot be logged: there the preceding entry is the end of the loop body.
            stats["down_values"] = stats.get("down_values", 0) + 1
            if pv["t"] == "pre" and pv["kind"] == 0:
                if pv["v"] != e["v"]:
                    bad.append(("values", "fiber %d received %s at label %d but %s was passed to resume" % (e["fid"], e["v"], e["l"], pv["v"])))
            elif pv["t"] == "pre" and pv["kind"] in (2, 3):
                if e["v"] != "nil":
                    bad.append(("values", "fiber %d received %s from next" % (e["fid"], e["v"])))
            elif pv["t"] in ("ev", "ret") and e["v"] == "nil":
                stats["down_values_loop"] = stats.get("down_values_loop", 0) + 1
            else:
                bad.append(("values", "label %d in fiber %d completed with %s without a preceding resume (prev %r)" % (e["l"], e["fid"], e["v"], pv)))
        if e["l"] in info["each"]:
            # an iteration of `each` over a fiber starts only after `next` answered non-nil: the generator is suspended
            # (not finished, not running) at that moment - a loop body never runs for a generator that has just ended
            pr = last_pre.get((info["each"][e["l"]], e["fid"]))
            if pr is not None and pr["kind"] == 3 and 0 <= pr["target"] < len(e["snap"]):
                stats["each_iterations"] = stats.get("each_iterations", 0) + 1
                gs = st(e["snap"][pr["target"]])
                if gs in FIN or gs in (NEW, ALIVE):
                    bad.append(("next", "loop body of `each` (label %d, fiber %d) runs although the iterated fiber %d has status %d" % (e["l"], e["fid"], pr["target"], gs)))
        if kind in ("yield", "signal", "debug", "Mreturn"):
            pass            # (DOWN rule above)
        elif kind in ("resume", "cancel", "propagate") or e["l"] in info["each"]:
            # UP: an instruction blocked on a child completes with what the child signalled or returned
            if pv["t"] in ("snd", "ret") and "coerced" not in e["v"]:
                stats["up_values"] = stats.get("up_values", 0) + 1
                if pv["t"] == "snd" and pv["sig"] in (4, -1) and e["v"].startswith('"expected_string'):
                    # (sig -1 = sent by `propagate`: the signal is the status of its fiber operand, here user0)
                    # a user0 signal whose payload is not a [tag value] tuple, caught by a `prompt`, whose destructuring
                    # then raises: the error is what travels on
                    stats["up_values_prompt_destructure"] = stats.get("up_values_prompt_destructure", 0) + 1
                elif pv["v"] != e["v"]:
                    bad.append(("values", "fiber %d received %s at label %d but fiber %d had sent %s" % (e["fid"], e["v"], e["l"], pv["fid"], pv["v"])))
        elif kind == "next":
            # exact: `next` answers nil iff the generator is not resumable afterwards, 0 otherwise
            pr = last_pre.get((e["l"], e["fid"]))
            if pr is not None and pr["target"] >= 0 and pr["target"] < len(e["snap"]) and "coerced" not in e["v"] and e["v"] in ("nil", "0"):
                stats["next_values"] = stats.get("next_values", 0) + 1
                want = "nil" if st(e["snap"][pr["target"]]) in FIN | {ALIVE} else "0"
                if e["v"] != want:
                    bad.append(("next", "next returned %s but the generator's status is %d" % (e["v"], st(e["snap"][pr["target"]]))))
    # ---- R8 the first value a fiber function sees is the value of its first resume, bound as documented
    first = {1: info.get("root_v", "nil")}
    for e in ents:
        if e["t"] == "pre" and e["tstatus"] == NEW and e["target"] >= 0 and e["kind"] in (0, 2, 3):
            first[e["target"]] = e["v"] if e["kind"] == 0 else "nil"
        elif e["t"] == "ev" and e["l"] in info["param"] and e["fid"] in first:
            sig, idx = info["param"][e["l"]]
            arity, _, rest = info["sigs"][sig]
            v = first[e["fid"]]
            if idx < arity:
                want = v if idx == 0 else "nil"
            else:
                empty = "()" if rest == 1 else "?struct"
                want = "(%s)" % v if (arity == 0 and v != "nil") else empty
            stats["first_value_params"] = stats.get("first_value_params", 0) + 1
            if sig in ("opt", "optrest", "opt2") and idx == 0 and v != "nil":
                stats["first_value_opt_param"] = stats.get("first_value_opt_param", 0) + 1
            if e["v"] != want:
                bad.append(("first_resume_value", "fiber %d (function signature %s) sees %s in parameter %d, but its first resume passed %s (expected %s)" %
                            (e["fid"], sig, e["v"], idx, v, want)))
    # ---- R4 a signal is caught by the nearest fiber whose mask accepts it and changes no other fiber
    masks = {1: mask_of("a")}
    for e in ents:
        if e["t"] == "new" and e["flags"] is not None:
            masks[e["id"]] = mask_of(e["flags"])
    for i, e in enumerate(ents):
        if e["t"] != "snd" or e["sig"] < 1:
            continue
        nxt = next((x for x in seq[i + 1:] if x.get("snap")), None)
        if nxt is None:
            continue
        s0, s1, s = e["snap"], nxt["snap"], e["sig"]
        changed = [j for j in range(len(s0)) if s0[j] != s1[j]]
        to_s = [j for j in changed if st(s1[j]) == s]
        other = [j for j in changed if st(s1[j]) != s]
        # R7 coercion: a non-error signal becomes an error exactly when it has to leave a janet_call frame that is live in
        # the fiber raising it (C frames of OTHER fibers do not count: every fiber entry resets the coercion flag)
        if e["l"] and e["fid"] < len(s1):
            mine = st(s1[e["fid"]])
            if e["l"] in info["in_c"]:
                stats["coerce_expected"] = stats.get("coerce_expected", 0) + 1
                if mine != 1:
                    bad.append(("coercion", "fiber %d raised signal %d at label %d inside a C frame but ends with status %d, not error" % (e["fid"], s, e["l"], mine)))
            else:
                if mine != s:
                    bad.append(("coercion", "fiber %d raised signal %d at label %d with no C frame of its own live, but ends with status %d" % (e["fid"], s, e["l"], mine)))
        if any(st(s1[j]) == 1 for j in other) and s != 1:
            stats["sig_coerced"] = stats.get("sig_coerced", 0) + 1
            continue
        if e["fid"] not in to_s:
            bad.append(("signal_delivery", "fiber %d raised %d but does not carry that status afterwards" % (e["fid"], s)))
            continue
        stats["signals"] = stats.get("signals", 0) + 1
        acc = [j for j in to_s if s in masks.get(j, set())]
        if not acc:
            # a fiber re-entered through its child chain keeps its suspended status while the child runs: the catcher
            # may be such a fiber (status already `s`, unchanged)
            acc = [j for j in range(len(s0)) if j not in changed and st(s0[j]) == s and s in masks.get(j, set())][:1]
            if acc:
                stats["signals_chain_mode"] = stats.get("signals_chain_mode", 0) + 1
        if s != 4 and len(acc) != 1:
            bad.append(("signal_delivery", "signal %d from fiber %d passed through %r, accepting among them: %r (expected exactly one, the outermost)" % (s, e["fid"], to_s, acc)))
        if s == 4 and len(acc) < 1:
            bad.append(("signal_delivery", "signal user0 from fiber %d caught by nobody on %r" % (e["fid"], to_s)))
        # no other fiber sees it: everything else unchanged except the catcher becoming alive
        for j in other:
            if st(s1[j]) != ALIVE or nxt.get("fid") != j:
                bad.append(("no_other_fiber_sees_it", "signal %d from fiber %d: unrelated fiber %d changed %s -> %s" % (s, e["fid"], j, s0[j], s1[j])))
        if nxt["t"] != "fin" and nxt.get("fid") in to_s:
            bad.append(("no_other_fiber_sees_it", "fiber %d carries the signal status but runs next" % nxt.get("fid")))
    # ---- R5 cleanup forms run exactly once per exit of their body
    body_fibers = {}
    for site, (kind, lc, lb) in info["cleanup"].items():
        body_fibers[site] = []
        for e in ents:
            if e["t"] == "ev" and e["l"] == lb and e["fid"] not in body_fibers[site]:
                body_fibers[site].append(e["fid"])
    allbody = set(f for fs in body_fibers.values() for f in fs)
    interfered = any(e["t"] == "pre" and e["target"] in allbody for e in ents)
    # propagate can also re-enter a body fiber from outside
    if interfered:
        stats["cleanup_skipped_interference"] = stats.get("cleanup_skipped_interference", 0) + 1
    else:
        def qualifies(kind, s):
            if kind in ("Mdefer", "Mwith"):
                return s in FIN
            if kind == "Medefer":
                return s in FIN and s != 0
            return s == 1
        for site, (kind, lc, lb) in info["cleanup"].items():
            if lc is None or lb is None:
                continue
            n = 0
            for e in seq:
                if e["t"] == "ev" and e["l"] == lc:
                    n += 1
                    q = sum(1 for f in body_fibers[site] if f < len(e["snap"]) and qualifies(kind, st(e["snap"][f])))
                    if n > q:
                        bad.append(("cleanup_once", "%s site %d: cleanup ran %d times but only %d bodies had exited" % (kind, site, n, q)))
            q = sum(1 for f in body_fibers[site] if f < len(final["snap"]) and qualifies(kind, st(final["snap"][f])))
            stats["cleanup_sites"] = stats.get("cleanup_sites", 0) + 1
            stats["cleanup_exits"] = stats.get("cleanup_exits", 0) + q
            stats["cleanup_exit_" + kind] = stats.get("cleanup_exit_" + kind, 0) + q
            if n != q:
                bad.append(("cleanup_once", "%s site %d: %d bodies exited (final statuses %r) but cleanup ran %d times" %
                            (kind, site, q, [st(final["snap"][f]) for f in body_fibers[site] if f < len(final["snap"])], n)))
    # ---- R6 dynamic bindings: own table, :i shares, :p prototype chain, otherwise nothing
    envs = []            # list of [proto, dict]
    fenv = {0: None, 1: None}
    unknown = set([0])   # fiber 0 (the real root task) has an environment we do not model

    def ensure(f):
        if fenv.get(f) is None:
            envs.append([None, {}])
            fenv[f] = len(envs) - 1
        return fenv[f]

    def lookup(f, k):
        e = fenv.get(f)
        while e is not None:
            if k in envs[e][1]:
                return envs[e][1][k]
            e = envs[e][0]
        return "nil"

    for e in ents:
        if e["t"] == "new":
            cr, fl = e["creator"], e["flags"] or ""
            env = None
            for c in fl:
                if c == 'i':
                    env = ensure(cr)
                elif c == 'p':
                    pe = ensure(cr)
                    envs.append([pe, {}])
                    env = len(envs) - 1
            fenv[e["id"]] = env
            if cr in unknown and ('i' in fl or 'p' in fl):
                unknown.add(e["id"])
        elif e["t"] == "ev":
            if e["l"] in info["dyn"]:
                k, a = info["dyn"][e["l"]]
                envs[ensure(e["fid"])][1][k] = a[1:]
            op = ops.get(e["l"])
            if op and op[0] == "setdyn":
                d = envs[ensure(e["fid"])][1]
                if e["v"] == "nil":
                    d.pop(op[1], None)
                else:
                    d[op[1]] = e["v"]
            elif op and op[0] == "dyn" and e["fid"] not in unknown:
                stats["dyn_reads"] = stats.get("dyn_reads", 0) + 1
                want = lookup(e["fid"], op[1])
                if want != "nil":
                    stats["dyn_reads_bound"] = stats.get("dyn_reads_bound", 0) + 1
                if want != e["v"]:
                    bad.append(("dyn_visibility", "fiber %d reads :k%d = %s, expected %s by the env / prototype rules" % (e["fid"], op[1], e["v"], want)))
    return bad
