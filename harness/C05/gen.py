"""C05 harness: random fiber trees, rendered (a) as tokens for the Lean model driver jm_c05 and (b) as janet source.

Term AST (python tuples), mirrors lean/JanetModel/Fiber/Model.lean `Tm` plus the macro nodes of Fiber/Boot.lean:
  ('R', a) ('I', a, b, T, E) ('P', l, prim, K) ('N', l, flags, BODY, K) ('B', l, T, K) ('C', l, T, K)
  ('E', l, f, BODY, K) ('S', T, K)
  ('Mdefer', n, l, FORM, BODY, K) ('Medefer', n, l, FORM, BODY, K) ('Mtry', n, l, BODY, CATCH, K) ('Mprotect', n, l, BODY, K)
  ('Mwith', n, l, prim, DTOR, BODY, K) ('Mprompt', n, l, tag, BODY, K) ('Mreturn', n, l, tag, a, K)
  ('Mgen', n, l, cnt, BODY, K) ('Mcoro', l, BODY, K) ('Mdyns', n, l, key, a, BODY, K)
atoms are token strings: n T F i<int> k<name> v<slot> g<index>;  prims are tuples ('yield', a) ...
`n` = environment depth (slot that the node's value is bound to); labels l > 0 are logged, 0 is silent.
"""

# fiber function signatures: name -> (arity, min_arity, collector 0/1/2, janet parameter list template)
SIGS = {
    "none": (0, 0, 0, "[]"),
    "req": (1, 1, 0, "[{0}]"),
    "opt": (1, 0, 0, "[&opt {0}]"),
    "rest": (0, 0, 1, "[& {0}]"),
    "optrest": (1, 0, 1, "[&opt {0} & {1}]"),
    "reqopt": (2, 1, 0, "[{0} &opt {1}]"),
    "reqrest": (1, 1, 1, "[{0} & {1}]"),
    "keys": (0, 0, 2, "[&keys {0}]"),
    "reqkeys": (1, 1, 2, "[{0} &keys {1}]"),
    "opt2": (2, 0, 0, "[&opt {0} {1}]"),
    "req2": (2, 2, 0, "[{0} {1}]"),          # refused by fiber/new
}


def nparams(sig):
    a, m, r, _ = SIGS[sig]
    return a + (1 if r else 0)


def jparams(sig, n):
    return SIGS[sig][3].format(*["v%d" % (n + i) for i in range(nparams(sig))])


def root_of(fl):
    """root flags string 'a' or 'a|sig|vatom' -> (flags, sig, value atom)"""
    parts = fl.split("|")
    return (parts[0], parts[1], parts[2]) if len(parts) == 3 else (parts[0], "none", "n")


SUSPENDING = ("yield", "signal", "debug", "error", "propagate")
TARGETING = ("resume", "cancel", "next")


# ------------------------------------------------------------------ tokens for the model driver
def toks(t, out):
    k = t[0]
    if k == 'R':
        out += ['R', t[1]]
    elif k == 'I':
        out += ['I', t[1], t[2]]
        toks(t[3], out)
        toks(t[4], out)
    elif k == 'P':
        out += ['P', str(t[1])] + [str(x) for x in t[2]]
        toks(t[3], out)
    elif k == 'N':
        out += ['N', str(t[1]), t[2] or '-']
        toks(t[3], out)
        toks(t[4], out)
    elif k == 'Np':
        a, m, r, _ = SIGS[t[2]]
        out += ['Np', str(t[1]), str(a), str(m), str(r), t[3] or '-']
        toks(t[4], out)
        toks(t[5], out)
    elif k in ('B', 'C'):
        out += [k, str(t[1])]
        toks(t[2], out)
        toks(t[3], out)
    elif k == 'E':
        out += ['E', str(t[1]), t[2]]
        toks(t[3], out)
        toks(t[4], out)
    elif k == 'S':
        out += ['S']
        toks(t[1], out)
        toks(t[2], out)
    elif k in ('Mdefer', 'Medefer', 'Mtry'):
        out += [k, str(t[1]), str(t[2])]
        toks(t[3], out)
        toks(t[4], out)
        toks(t[5], out)
    elif k == 'Mprotect':
        out += [k, str(t[1]), str(t[2])]
        toks(t[3], out)
        toks(t[4], out)
    elif k == 'Mwith':
        out += [k, str(t[1]), str(t[2])] + [str(x) for x in t[3]]
        toks(t[4], out)
        toks(t[5], out)
        toks(t[6], out)
    elif k == 'Mprompt':
        out += [k, str(t[1]), str(t[2]), t[3]]
        toks(t[4], out)
        toks(t[5], out)
    elif k == 'Mreturn':
        out += [k, str(t[1]), str(t[2]), t[3], t[4]]
        toks(t[5], out)
    elif k == 'Mgen':
        out += [k, str(t[1]), str(t[2]), str(t[3])]
        toks(t[4], out)
        toks(t[5], out)
    elif k == 'Mcoro':
        out += [k, str(t[1])]
        toks(t[2], out)
        toks(t[3], out)
    elif k == 'Mdyns':
        out += [k, str(t[1]), str(t[2]), str(t[3]), t[4]]
        toks(t[5], out)
        toks(t[6], out)
    else:
        raise ValueError(k)
    return out


def model_line(t, flags, fuel=20000):
    fl, sig, v0 = root_of(flags)
    a, m, r, _ = SIGS[sig]
    return "tree %s %d %d %d %d %s %s" % (fl or '-', fuel, a, m, r, v0, " ".join(toks(t, [])))


# ------------------------------------------------------------------ janet rendering
REN = {}     # slot -> janet name, for slots that must not be spelled v<slot> (see Mwith)


def ja(a):
    c = a[0]
    if c == 'v' and int(a[1:]) in REN:
        return REN[int(a[1:])]
    if a == 'n':
        return "nil"
    if a == 'T':
        return "true"
    if a == 'F':
        return "false"
    if c == 'i':
        return a[1:]
    if c == 'k':
        return ":" + a[1:]
    if c == 'v':
        return "v" + a[1:]
    if c == 'g':
        return "(get G %s)" % a[1:]
    raise ValueError(a)


def jprim(l, p):
    """janet expression for a primitive, with the janet-only @pre / @snd instrumentation around it"""
    k = p[0]
    if k == 'pure':
        return ja(p[1])
    if k == 'pair':
        return "[%s %s]" % (ja(p[1]), ja(p[2]))
    if k == 'fst':
        return "(do (def [x_ _] %s) x_)" % ja(p[1])
    if k == 'snd':
        return "(do (def [_ y_] %s) y_)" % ja(p[1])
    if k == 'status':
        return "(stat %s)" % ja(p[1])
    if k == 'yield':
        return "(do (snd %d 3 %s) (yield %s))" % (l, ja(p[1]), ja(p[1]))
    if k == 'signal':
        return "(do (snd %d %d %s) (signal %d %s))" % (l, 4 + p[1], ja(p[2]), p[1], ja(p[2]))
    if k == 'error':
        return "(do (snd %d 1 %s) (error %s))" % (l, ja(p[1]), ja(p[1]))
    if k == 'debug':
        return "(do (snd %d 2 %s) (debug %s))" % (l, ja(p[1]), ja(p[1]))
    if k == 'resume':
        return "(do (pre %d 0 %s %s) (resume %s %s))" % (l, ja(p[1]), ja(p[2]), ja(p[1]), ja(p[2]))
    if k == 'cancel':
        return "(do (pre %d 1 %s %s) (cancel %s %s))" % (l, ja(p[1]), ja(p[2]), ja(p[1]), ja(p[2]))
    if k == 'propagate':
        return "(do (sndp %d %s %s) (propagate %s %s))" % (l, ja(p[1]), ja(p[2]), ja(p[1]), ja(p[2]))
    if k == 'next':
        return "(do (pre %d 2 %s nil) (next %s))" % (l, ja(p[1]), ja(p[1]))
    if k == 'last':
        return "(lastv %s)" % ja(p[1])
    if k == 'setdyn':
        return "(setdyn :k%d %s)" % (p[1], ja(p[2]))
    if k == 'dyn':
        return "(dyn :k%d)" % p[1]
    raise ValueError(k)


def fl(flags):
    return '"%s"' % flags


def bind(n, l, expr, rest):
    out = ["(def v%d %s)" % (n, expr)]
    if l:
        out.append("(ev %d v%d)" % (l, n))
    return out + rest


def jseq(t, n):
    """list of janet forms (a body); the last one is the value"""
    k = t[0]
    if k == 'R':
        return [ja(t[1])]
    if k == 'I':
        return ["(if (= %s %s) (do %s) (do %s))" % (ja(t[1]), ja(t[2]), " ".join(jseq(t[3], n)), " ".join(jseq(t[4], n)))]
    if k == 'P':
        return bind(n, t[1], jprim(t[1], t[2]), jseq(t[3], n + 1))
    if k == 'N':
        return bind(n, t[1], "(c05/new (fn [] (retv (do %s))) %s)" % (" ".join(jseq(t[3], n)), fl(t[2])), jseq(t[4], n + 1))
    if k == 'Np':
        return bind(n, t[1], "(c05/new (fn %s (retv (do %s))) %s)" % (jparams(t[2], n), " ".join(jseq(t[4], n + nparams(t[2]))), fl(t[3])), jseq(t[5], n + 1))
    if k == 'B':
        return bind(n, t[1], "(do %s)" % " ".join(jseq(t[2], n)), jseq(t[3], n + 1))
    if k == 'C':
        return bind(n, t[1], "(+ @{:+ (fn [_a _b] %s)} 1)" % " ".join(jseq(t[2], n)), jseq(t[3], n + 1))
    if k == 'E':
        return bind(n, t[1], "(do (def ds_ %s) (pre %d 3 ds_ nil) (each v%d ds_ %s))" % (ja(t[2]), t[1], n, " ".join(jseq(t[3], n + 1))), jseq(t[4], n + 1))
    if k == 'S':
        return ["(do %s)" % " ".join(jseq(t[1], n))] + jseq(t[2], n)
    if k == 'Mdefer':
        _, n_, l, form, body, K = t
        return bind(n, l, "(c05-defer (do %s) %s)" % (" ".join(jseq(form, n + 2)), " ".join(jseq(body, n))), jseq(K, n + 1))
    if k == 'Medefer':
        _, n_, l, form, body, K = t
        return bind(n, l, "(c05-edefer (do %s) %s)" % (" ".join(jseq(form, n + 3)), " ".join(jseq(body, n))), jseq(K, n + 1))
    if k == 'Mtry':
        _, n_, l, body, catch, K = t
        return bind(n, l, "(c05-try (do %s) ([v%d] %s))" % (" ".join(jseq(body, n)), n + 3, " ".join(jseq(catch, n + 4))), jseq(K, n + 1))
    if k == 'Mprotect':
        _, n_, l, body, K = t
        return bind(n, l, "(c05-protect %s)" % " ".join(jseq(body, n)), jseq(K, n + 1))
    if k == 'Mwith':
        _, n_, l, prim, dtor, body, K = t
        # the resource is spelled w<n>: `(def v4 (with [v4 …] … (fn [] … v4)))` hit an unrelated compiler oddity
        # (corpus/C05/_side/shadowed-def-upvalue.janet), so the binding does not shadow the slot being defined
        ctor = jprim(0, prim)
        old = REN.get(n)
        REN[n] = "w%d" % n
        try:
            inner = "(c05-with [w%d %s (fn [v%d] %s)] %s)" % (n, ctor, n + 3, " ".join(jseq(dtor, n + 4)), " ".join(jseq(body, n + 1)))
        finally:
            if old is None:
                del REN[n]
            else:
                REN[n] = old
        return bind(n, l, inner, jseq(K, n + 1))
    if k == 'Mprompt':
        _, n_, l, tag, body, K = t
        return bind(n, l, "(c05-prompt :%s %s)" % (tag, " ".join(jseq(body, n))), jseq(K, n + 1))
    if k == 'Mreturn':
        _, n_, l, tag, a, K = t
        return bind(n, l, "(do (snd %d 4 [:%s %s]) (return :%s %s))" % (l, tag, ja(a), tag, ja(a)), jseq(K, n + 1))
    if k == 'Mgen':
        _, n_, l, cnt, body, K = t
        return bind(n, l, "(c05-generate [_ :range [0 %d]] %s)" % (cnt, " ".join(jseq(body, n))), jseq(K, n + 1))
    if k == 'Mcoro':
        _, l, body, K = t
        return bind(n, l, "(c05-coro (retv (do %s)))" % " ".join(jseq(body, n)), jseq(K, n + 1))
    if k == 'Mdyns':
        _, n_, l, key, a, body, K = t
        return bind(n, l, "(c05-with-dyns [:k%d %s] %s)" % (key, ja(a), " ".join(jseq(body, n))), jseq(K, n + 1))
    raise ValueError(k)


def model_line_g(t, flags, after, lim, fuel=20000):
    """guard pass: `gtree <guard tested after refusals 0/1> <limit relative to the root> …`"""
    fl, sig, v0 = root_of(flags)
    a, m, r, _ = SIGS[sig]
    return "gtree %d %d %s %d %d %d %d %s %s" % (1 if after else 0, lim, fl or '-', fuel, a, m, r, v0, " ".join(toks(t, [])))


def janet_tree_g(idx, t, flags, lim):
    f, sig, v0 = root_of(flags)
    return "(run-tree-g %d %d (fn %s %s) %s %s)" % (idx, lim, jparams(sig, 0), " ".join(jseq(t, nparams(sig))), fl(f), ja(v0))


def model_line_s(t, flags, acts, fuel=20000):
    """task pass: acts = [('c'|'r', atom)] dispatches of the event loop after the first run"""
    fl, sig, v0 = root_of(flags)
    a, m, r, _ = SIGS[sig]
    return "stree %s %d %d %d %d %s %s %s" % (fl or '-', fuel, a, m, r, v0, ",".join("%s:%s" % x for x in acts) or "-", " ".join(toks(t, [])))


def janet_tree_s(idx, t, flags, acts):
    f, sig, v0 = root_of(flags)
    return "(run-tree-s %d [%s] (fn %s %s) %s %s)" % (idx, " ".join("[:%s %s]" % (k, ja(v)) for k, v in acts), jparams(sig, 0),
                                                       " ".join(jseq(t, nparams(sig))), fl(f), ja(v0))


def model_line_gs(t, flags, acts, lim, fuel=20000):
    """guard + task pass: `gstree <limit above the loop> …` (guard tested after the refusals)"""
    fl, sig, v0 = root_of(flags)
    a, m, r, _ = SIGS[sig]
    return "gstree %d %s %d %d %d %d %s %s %s" % (lim, fl or '-', fuel, a, m, r, v0, ",".join("%s:%s" % x for x in acts) or "-", " ".join(toks(t, [])))


def janet_tree_gs(idx, t, flags, acts, lim):
    f, sig, v0 = root_of(flags)
    return "(defn t%d [] (run-tree-gs %d %d [%s] (fn %s %s) %s %s))" % (idx, idx, lim, " ".join("[:%s %s]" % (k, ja(v)) for k, v in acts), jparams(sig, 0),
                                                                       " ".join(jseq(t, nparams(sig))), fl(f), ja(v0))


def janet_tree(idx, t, flags):
    f, sig, v0 = root_of(flags)
    return "(run-tree %d (fn %s %s) %s %s)" % (idx, jparams(sig, 0), " ".join(jseq(t, nparams(sig))), fl(f), ja(v0))


# ------------------------------------------------------------------ static information used by the direct oracle
def site_info(t, info=None, inc=False):
    """label -> description (kind of instruction; for cleanup markers: which macro site they belong to);
    info["in_c"] = labels of instructions that execute with a janet_call frame of their own fiber live (lexically
    inside a C node, not crossing into a new fiber body)"""
    if info is None:
        info = {"op": {}, "cleanup": {}, "bodystart": {}, "each": {}, "dyn": {}, "setdyn": {}, "in_c": set(), "param": {}}
    k = t[0]

    def lab(l):
        if inc and l:
            info["in_c"].add(l)
    if k == 'R':
        return info
    if k == 'I':
        site_info(t[3], info, inc)
        site_info(t[4], info, inc)
    elif k == 'P':
        info["op"][t[1]] = t[2]
        lab(t[1])
        site_info(t[3], info, inc)
    elif k == 'N':
        info["op"][t[1]] = ('new', t[2])
        lab(t[1])
        site_info(t[3], info, False)
        site_info(t[4], info, inc)
    elif k == 'Np':
        info["op"][t[1]] = ('new', t[3])
        lab(t[1])
        param_labels(t[4], t[2], info)
        site_info(t[4], info, False)
        site_info(t[5], info, inc)
    elif k in ('B', 'C'):
        info["op"][t[1]] = (k,)
        lab(t[1])
        site_info(t[2], info, inc or k == 'C')
        site_info(t[3], info, inc)
    elif k == 'E':
        info["op"][t[1]] = ('each', t[2])
        lab(t[1])
        info["each"][first_label(t[3])] = t[1]
        site_info(t[3], info, inc)
        site_info(t[4], info, inc)
    elif k == 'S':
        site_info(t[1], info, inc)
        site_info(t[2], info, inc)
    elif k in ('Mdefer', 'Medefer', 'Mtry'):
        info["op"][t[2]] = (k,)
        lab(t[2])
        a, b = (t[3], t[4]) if k != 'Mtry' else (t[4], t[3])   # a = cleanup/catch (parent fiber), b = body (own fiber)
        info["cleanup"][t[2]] = (k, first_label(a), first_label(b))
        site_info(a, info, inc)
        site_info(b, info, False)
        site_info(t[5], info, inc)
    elif k == 'Mprotect':
        info["op"][t[2]] = (k,)
        lab(t[2])
        site_info(t[3], info, False)
        site_info(t[4], info, inc)
    elif k == 'Mwith':
        info["op"][t[2]] = (k,)
        lab(t[2])
        info["cleanup"][t[2]] = (k, first_label(t[4]), first_label(t[5]))
        site_info(t[4], info, inc)
        site_info(t[5], info, False)
        site_info(t[6], info, inc)
    elif k == 'Mprompt':
        info["op"][t[2]] = (k,)
        lab(t[2])
        site_info(t[4], info, False)
        site_info(t[5], info, inc)
    elif k == 'Mreturn':
        info["op"][t[2]] = (k,)
        lab(t[2])
        site_info(t[5], info, inc)
    elif k == 'Mgen':
        info["op"][t[2]] = (k, t[3])
        lab(t[2])
        site_info(t[4], info, False)
        site_info(t[5], info, inc)
    elif k == 'Mcoro':
        info["op"][t[1]] = (k,)
        lab(t[1])
        site_info(t[2], info, False)
        site_info(t[3], info, inc)
    elif k == 'Mdyns':
        info["op"][t[2]] = (k, t[3], t[4])
        lab(t[2])
        info["dyn"][first_label(t[5])] = (t[3], t[4])
        site_info(t[5], info, False)
        site_info(t[6], info, inc)
    return info


def param_labels(body, sig, info):
    """a generated body with parameters starts: marker, then one `pure v<slot>` per parameter"""
    t = body
    if not (t[0] == 'P' and t[2][0] == 'pure'):
        return
    t = t[3]
    for i in range(nparams(sig)):
        if t[0] == 'P' and t[2][0] == 'pure' and t[2][1].startswith('v'):
            info["param"][t[1]] = (sig, i)
            t = t[3]


def first_label(t):
    """label of the marker instruction a generated body / cleanup form starts with"""
    if t[0] == 'P' and t[2][0] == 'pure' and t[1]:
        return t[1]
    return None


# ------------------------------------------------------------------ generator
class Gen:
    MASK_LETTERS = "atdeuywr0123456789"

    def __init__(self, rng, size=14, maxdepth=4, profile="uniform"):
        """profile "uniform": every production anywhere, operands anywhere (the original family).
        profile "driver": the same productions with the weights of a coroutine *protocol* workload — the tree's root and
        every fiber mostly create children and then DRIVE them (a run of 1-4 resume / cancel / next / each on the fiber
        just created, operands biased to the most recent local fiber), nested bodies mostly suspend (yield-heavy, user
        signals from a two-digit palette per tree), masks are drawn bit by bit (y / e / palette digits independently,
        so `:e` and the bit of the signal actually raised differ often), catch / cleanup forms are as long as bodies.
        Everything a driver tree contains the uniform family can also produce; only the probabilities differ."""
        self.rng = rng
        self.profile = profile
        self.palette = [rng.below(10), rng.below(10)] if profile == "driver" else None
        self.label = 0
        self.tok = 100
        self.size = size
        self.maxdepth = maxdepth
        self.nfib = 2     # static count of fiber creation sites so far (+ main, top)
        self.stats = {}

    def lab(self):
        self.label += 1
        return self.label

    def val(self, vis):
        r = self.rng
        c = r.below(10)
        if c < 6 or not vis:
            self.tok += 1
            return "i%d" % self.tok
        if c < 9:
            return "v%d" % r.choice(vis)
        return "n"

    def flags(self, depth=1):
        r = self.rng
        if self.profile == "driver" and depth == 0 and r.chance(1, 2):
            return "a" + ("i" if r.chance(1, 8) else "p" if r.chance(1, 8) else "")     # the root's own workers mostly trap everything
        if self.profile == "driver" and not r.chance(1, 5):
            s = ""
            if r.chance(3, 5):
                s += "y"
            if r.chance(1, 2):
                s += "e"
            for d in self.palette:
                if r.chance(2, 5):
                    s += str(d)
            if r.chance(1, 10):
                s += r.choice("tdu")
            e = r.below(5)
            return s + ("i" if e == 0 else "p" if e == 1 else "")
        c = r.below(10)
        if c == 0:
            s = ""
        elif c == 1:
            s = "a"
        elif c == 2:
            s = "y"
        elif c == 3:
            s = "t"
        elif c == 4:
            s = "e"
        else:
            s = "".join(r.choice(self.MASK_LETTERS) for _ in range(r.range(1, 4)))
        e = r.below(6)
        if e == 0:
            s += "i"
        elif e == 1:
            s += "p"
        elif e == 2:
            s = "i" + s
        elif e == 3:
            s = "p" + s + ("i" if r.chance(1, 4) else "")
        return s

    def fibatom(self, fibs):
        r = self.rng
        if self.profile == "driver" and fibs:
            if r.chance(1, 2):
                return "v%d" % fibs[-1]
            if r.chance(9, 10):
                return "v%d" % r.choice(fibs)
        if fibs and r.chance(3, 4):
            return "v%d" % r.choice(fibs)
        return "g%d" % r.below(self.nfib + 2)

    def count(self, k):
        self.stats[k] = self.stats.get(k, 0) + 1

    def body(self, n, vis, fibs, depth, budget, ccall=False, mark=None):
        """a body starting with a labelled marker instruction; `vis` = slots visible to janet code, `fibs` = those
        known to hold fibers; `mark` = atom logged by the marker (default: a fresh token)"""
        l = self.lab()
        self.tok += 1
        return ('P', l, ('pure', mark or "i%d" % self.tok), self.seq(n + 1, vis + [n], fibs, depth, budget, ccall))

    def pbody(self, n, sig, vis, fibs, depth, budget):
        """body of a fiber function with signature `sig` whose parameters occupy slots n…: marker, one logged read per
        parameter, then random code"""
        np_ = nparams(sig)
        l = self.lab()
        self.tok += 1
        t = self.seq(n + 2 * np_ + 1, vis + list(range(n, n + 2 * np_ + 1)), fibs, depth, budget)
        for i in reversed(range(np_)):
            t = ('P', self.lab(), ('pure', "v%d" % (n + i)), t)
        return ('P', l, ('pure', "i%d" % self.tok), t)

    def small(self, k):
        """budget of a catch clause / cleanup form: 0..k-1, in the driver profile 0..k+1"""
        return self.rng.below(k + 2 if self.profile == "driver" else k)

    def drive(self, n, target, cnt, vis, fibs, depth, budget, ccall, first=True, kind=None, cfg=True):
        """`cnt` consecutive steps (slots n, n+1, …) that target the fiber in atom `target`: resume / cancel / next; every
        step but the first is, two times out of three, guarded by a status test the way a driver loop is written
        (`(if (= (fiber/status f) :pending) (resume f x))` resp. `(if (= (fiber/status f) :dead) nil (resume f x))`);
        then ordinary code"""
        r = self.rng
        if cnt <= 0 or n > 40:
            return self.seq(n, vis, fibs, depth, budget, ccall)

        def op(vs):
            c = r.below(20) if kind is None else {"resume": 0, "cancel": 13, "next": 18}[kind]
            k = "resume" if c < 13 else "cancel" if c < 18 else "next"
            if kind is None:
                self.count(k)
            return (k, target, self.val(vs)) if k != "next" else (k, target)
        if first and cfg and kind is None and r.chance(1, 4):
            # configure the environment, then start the worker (what `(setdyn :out buf)` before running a child is for):
            # the write comes AFTER the child was created, so whether the child sees it depends on `:i` / `:p` alone
            l = self.lab()
            self.count("setdyn")
            return ('P', l, ('setdyn', r.below(3), self.val(vis)), self.drive(n + 1, target, cnt, vis + [n], fibs, depth, budget, ccall, True, None, False))
        if not first and (depth == 0 or r.chance(2, 3)):
            l, l2, l3 = self.lab(), self.lab(), self.lab()
            self.count("ite")
            v1 = vis + [n]
            act = ('P', l3, op(v1), ('R', "v%d" % (n + 1)))
            skip = ('R', "n")
            if depth == 0 and r.chance(1, 2):
                ite = act
                for st in ("user4", "user3", "user2", "user1", "user0", "error", "dead"):      # = (if (fiber/can-resume? f) …)
                    ite = ('I', "v%d" % n, "k" + st, skip, ite)
            elif depth == 0:
                ite = ('I', "v%d" % n, "kpending", act, skip)
            else:
                ite = ('I', "v%d" % n, "kpending", act, skip) if r.chance(1, 2) else ('I', "v%d" % n, "kdead", skip, act)
            return ('P', l, ('status', target), ('B', l2, ite, self.drive(n + 2, target, cnt - 1, v1 + [n + 1], fibs, depth, budget, ccall, False)))
        l = self.lab()
        return ('P', l, op(vis), self.drive(n + 1, target, cnt - 1, vis + [n], fibs, depth, budget, ccall, False))

    def lit(self):
        self.tok += 1
        return "i%d" % self.tok

    def seq(self, n, vis, fibs, depth, budget, ccall=False):
        r = self.rng
        if budget <= 0 or n > 40:       # (janet closures can only capture the first 256 registers of a function; ~4 per slot)
            return ('R', self.val(vis))
        deep = depth >= self.maxdepth
        choices = [("yield", 10), ("signal", 6), ("debug", 2), ("error", 3), ("pure", 3), ("resume", 14), ("cancel", 5), ("next", 3), ("last", 2),
                   ("status", 2), ("setdyn", 4), ("dyn", 5), ("ite", 3)]
        choices.append(("propagate", 3))
        if not deep:
            choices += [("new", 12), ("defer", 5), ("edefer", 3), ("try", 4), ("protect", 2), ("with", 3), ("prompt", 3), ("gen", 3),
                        ("coro", 3), ("dyns", 3), ("block", 2), ("ccall", 3), ("each", 4)]
        choices.append(("return", 2))
        if self.profile == "driver":
            if depth == 0:       # the tree's root: creates workers and drives them, hardly ever suspends itself
                choices = [("pure", 1), ("setdyn", 1), ("dyn", 1)]
                if fibs:
                    choices += [("drive", 10), ("last", 1), ("status", 1), ("ite", 1)]
                if not deep:
                    choices += [("worker", 10), ("defer", 1), ("try", 1), ("protect", 2), ("gen", 1), ("coro", 2), ("ccall", 1)]
                    if fibs:
                        choices.append(("each", 3))
            else:
                choices = [("yield", 16), ("signal", 6), ("debug", 1), ("error", 2), ("pure", 2), ("resume", 12), ("cancel", 6), ("next", 3),
                           ("last", 1), ("status", 1), ("setdyn", 2), ("dyn", 5), ("ite", 2), ("propagate", 2), ("return", 1)]
                if not deep:
                    choices += [("new", 10), ("defer", 4), ("edefer", 2), ("try", 5), ("protect", 3), ("with", 1), ("prompt", 2), ("gen", 2),
                                ("coro", 3), ("dyns", 1), ("block", 1), ("ccall", 4), ("each", 4)]
            if not fibs and depth > 0:         # nothing local to drive yet: instructions that need a fiber operand are rare
                choices = [(k, 1 if k in ("resume", "cancel", "next", "last", "status", "ite", "propagate", "each") else w) for k, w in choices]
        tot = sum(w for _, w in choices)
        x = r.below(tot)
        for kind, w in choices:
            if x < w:
                break
            x -= w
        self.count(kind)
        sub = max(1, budget // 2)
        l = self.lab()
        v1 = vis + [n]

        def rest(isfib=False):
            return self.seq(n + 1, v1, fibs + [n] if isfib else fibs, depth, budget - 1, ccall)

        if kind == "yield":
            return ('P', l, ('yield', self.val(vis)), rest())
        if kind == "signal":
            if self.profile == "driver" and r.chance(3, 4):
                return ('P', l, ('signal', r.choice(self.palette), self.val(vis)), rest())
            return ('P', l, ('signal', r.below(10), self.val(vis)), rest())
        if kind == "error":
            return ('P', l, ('error', self.val(vis)), rest())
        if kind == "debug":
            return ('P', l, ('debug', self.val(vis)), rest())
        if kind == "pure":
            return ('P', l, ('pure', self.val(vis)), rest())
        if kind == "drive":
            self.label -= 1
            return self.drive(n, "v%d" % (fibs[-1] if r.chance(1, 2) else r.choice(fibs)), r.range(1, 3), vis, fibs, depth, budget - 1, ccall, first=False)
        if kind == "worker":
            self.nfib += 1
            sig = "none"
            if r.chance(1, 3):
                sig = r.choice([k for k in SIGS if k not in ("none", "req2")])
            b = self.body(n, vis, fibs, depth + 1, max(2, budget - 1)) if sig == "none" else self.pbody(n, sig, vis, fibs, depth + 1, max(2, budget - 1))
            fl_ = ("a" + ("i" if r.chance(1, 8) else "p" if r.chance(1, 8) else "")) if r.chance(2, 3) else self.flags()
            k = self.drive(n + 1, "v%d" % n, r.range(2, 5), v1, fibs + [n], depth, budget - 1, ccall)
            return ('N', l, fl_, b, k) if sig == "none" else ('Np', l, sig, fl_, b, k)
        if self.profile == "driver" and kind in ("resume", "cancel", "next") and fibs:
            self.label -= 1        # `l` is not used: drive() draws its own labels
            return self.drive(n, self.fibatom(fibs), 1, vis, fibs, depth, budget - 1, ccall, first=r.chance(1, 3), kind=kind)
        if kind == "resume":
            return ('P', l, ('resume', self.fibatom(fibs), self.val(vis)), rest())
        if kind == "cancel":
            return ('P', l, ('cancel', self.fibatom(fibs), self.val(vis)), rest())
        if kind == "propagate":
            return ('P', l, ('propagate', self.val(vis), self.fibatom(fibs)), rest())
        if kind == "next":
            return ('P', l, ('next', self.fibatom(fibs)), rest())
        if kind == "last":
            return ('P', l, ('last', self.fibatom(fibs)), rest())
        if kind == "status":
            return ('P', l, ('status', self.fibatom(fibs)), rest())
        if kind == "setdyn":
            return ('P', l, ('setdyn', r.below(3), self.val(vis)), rest())
        if kind == "dyn":
            return ('P', l, ('dyn', r.below(3)), rest())
        if kind == "ite":
            f = self.fibatom(fibs)
            st = r.choice(["dead", "error", "pending", "new", "user0", "user5"])
            l2 = self.lab()
            return ('P', l, ('status', f), ('B', l2, ('I', "v%d" % n, "k" + st, self.seq(n + 1, v1, fibs, depth, sub // 2, ccall),
                                                     self.seq(n + 1, v1, fibs, depth, sub // 2, ccall)),
                                           self.seq(n + 2, v1 + [n + 1], fibs, depth, budget - 1, ccall)))
        if kind == "new":
            self.nfib += 1
            sig = "none"
            if r.chance(1, 2):
                sig = r.choice([k for k in SIGS if k not in ("none", "req2")]) if not r.chance(1, 25) else "req2"
            b = self.body(n, vis, fibs, depth + 1, sub) if sig == "none" else self.pbody(n, sig, vis, fibs, depth + 1, sub)
            if self.profile == "driver" and r.chance(5, 6):
                k = self.drive(n + 1, "v%d" % n, r.range(1, 4), v1, fibs + [n], depth, budget - 1, ccall)
            elif r.chance(2, 3):
                l2 = self.lab()
                k = ('P', l2, ('resume', "v%d" % n, self.val(v1)), self.seq(n + 2, v1 + [n + 1], fibs + [n], depth, budget - 1, ccall))
            else:
                k = rest(True)
            return ('N', l, self.flags(depth), b, k) if sig == "none" else ('Np', l, sig, self.flags(depth), b, k)
        if kind in ("defer", "edefer"):
            self.nfib += 1
            off = 2 if kind == "defer" else 3
            form = self.body(n + off, vis, fibs, depth + 1, self.small(3), ccall)
            b = self.body(n, vis, fibs, depth + 1, sub)
            return ('M' + kind, n, l, form, b, rest())
        if kind == "try":
            self.nfib += 1
            b = self.body(n, vis, fibs, depth + 1, sub)
            c = self.body(n + 4, vis + [n + 3], fibs, depth + 1, self.small(3), ccall)
            return ('Mtry', n, l, b, c, rest())
        if kind == "protect":
            self.nfib += 1
            return ('Mprotect', n, l, self.body(n, vis, fibs, depth + 1, sub), rest())
        if kind == "with":
            self.nfib += 1
            ctor = ('pure', self.val(vis))
            d = self.body(n + 4, v1 + [n + 3], fibs, depth + 1, r.below(2), ccall)
            b = self.body(n + 1, v1, fibs, depth + 1, sub)
            return ('Mwith', n, l, ctor, d, b, rest())
        if kind == "prompt":
            self.nfib += 1
            return ('Mprompt', n, l, r.choice(["pa", "pb"]), self.body(n, vis, fibs, depth + 1, sub), rest())
        if kind == "return":
            return ('Mreturn', n, l, r.choice(["pa", "pb"]), self.val(vis), rest())
        if kind in ("gen", "coro"):
            self.nfib += 1
            if r.chance(3, 4):
                l2 = self.lab()
                K = ('E', l2, "v%d" % n, self.body(n + 2, v1 + [n + 1], fibs + [n], depth + 1, r.below(3), ccall, "v%d" % (n + 1)),
                     self.seq(n + 2, v1 + [n + 1], fibs + [n], depth, budget - 1, ccall))
            else:
                K = rest(True)
            if kind == "gen":
                return ('Mgen', n, l, r.range(1, 3), self.body(n, vis, fibs, depth + 1, r.below(3)), K)
            return ('Mcoro', l, self.body(n, vis, fibs, depth + 1, sub), K)
        if kind == "dyns":
            self.nfib += 1
            return ('Mdyns', n, l, r.below(3), self.lit(), self.body(n, vis, fibs, depth + 1, sub), rest())
        if kind == "block":
            return ('B', l, self.seq(n, vis, fibs, depth + 1, sub, ccall), rest())
        if kind == "ccall":
            return ('C', l, self.body(n, vis, fibs, depth + 1, sub, True), rest())
        if kind == "each":
            eb = 0 if (self.profile == "driver" and depth == 0) else r.below(3)
            return ('E', l, self.fibatom(fibs), self.body(n + 1, v1, fibs, depth + 1, eb, ccall, "v%d" % n), rest())
        raise ValueError(kind)

    def tree(self):
        r = self.rng
        if r.chance(1, 3):
            sig = r.choice([k for k in SIGS if k not in ("none", "req2")])
            self.tok += 1
            v0 = "n" if r.chance(1, 5) else "i%d" % self.tok
            return self.pbody(0, sig, [], [], 0, self.size), "a|%s|%s" % (sig, v0)
        t = self.body(0, [], [], 0, self.size)
        return t, "a"
