"""janet-side prelude of the C05 harness.

The cleanup / coroutine macros under test are NOT re-written by hand: their current source text is cut out of the tree's
src/boot/boot.janet and re-defined under the names c05-<macro> with the single substitution `fiber/new` -> `c05/new`
(a wrapper that registers every created fiber in the registry G, so that macro-internal fibers get an id and appear
in the status snapshots).  A change to the macros in boot.janet therefore reaches the harness.
"""
import os
import re

MACROS = ["try", "protect", "defer", "edefer", "prompt", "with", "generate", "coro", "with-dyns"]


class PreludeError(Exception):
    pass


def _form_at(src, i):
    depth, j, n = 0, i, len(src)
    while j < n:
        c = src[j]
        if c == '"':
            j += 1
            while j < n and src[j] != '"':
                j += 2 if src[j] == '\\' else 1
        elif c == '`':
            k = j
            while k < n and src[k] == '`':
                k += 1
            delim = src[j:k]
            e = src.find(delim, k)
            if e < 0:
                raise PreludeError("unterminated long string")
            j = e + len(delim) - 1
        elif c == '#':
            while j < n and src[j] != '\n':
                j += 1
        elif c in "([{":
            depth += 1
        elif c in ")]}":
            depth -= 1
            if depth == 0:
                return src[i:j + 1]
        j += 1
    raise PreludeError("unbalanced form")


def macros_from_boot(tree):
    with open(os.path.join(tree, "src/boot/boot.janet")) as f:
        src = f.read()
    out = []
    for m in MACROS:
        mm = re.search(r"^\(defmacro %s\s" % re.escape(m), src, re.M)
        if not mm:
            raise PreludeError("boot.janet: (defmacro %s not found" % m)
        text = _form_at(src, mm.start())
        if m not in ("with",) and "fiber/new" not in text:
            raise PreludeError("boot.janet: macro %s no longer uses fiber/new" % m)
        text = text.replace("(defmacro %s" % m, "(defmacro c05-%s" % m, 1)
        text = re.sub(r"(?<![\w/-])fiber/new(?![\w/-])", "c05/new", text)
        if m == "with":
            if "(apply defer " not in text:
                raise PreludeError("boot.janet: `with` no longer expands to defer")
            text = text.replace("(apply defer ", "(apply c05-defer ")
        text = text.replace("(check-empty-body body)", "")
        out.append(text)
    return "\n".join(out)


PRELUDE = r'''
(var G @[])
(var TR @[])
(def hexd "0123456789abcdef")
(def statnum {:dead 0 :error 1 :debug 2 :pending 3 :user0 4 :user1 5 :user2 6 :user3 7 :user4 8 :user5 9 :user6 10 :user7 11
              :interrupted 12 :suspended 13 :new 14 :alive 15})
(defn fid [f] (or (index-of f G) -1))
(defn snap [] (def b @"") (each f G (buffer/push-byte b (in hexd (statnum (fiber/status f))))) (string b))
(defn fmt [x]
  (case (type x)
    :nil "nil"
    :boolean (string x)
    :number (string x)
    :string (string "\"" (string/replace-all " " "_" (peg/replace-all '(* "<struct 0x" (some (range "09" "AF" "af")) ">") "<struct>" (peg/replace-all '(* "<tuple 0x" (some (range "09" "AF" "af")) ">") "<tuple>" (peg/replace-all '(* "<fiber 0x" (some (range "09" "AF" "af")) ">") "<fiber>" x)))) "\"")
    :keyword (string ":" x)
    :fiber (string "F" (fid x))
    :tuple (string "(" (string/join (map fmt x) ",") ")")
    (string "?" (type x))))
(defn ev [l v] (array/push TR (string l ":" (fid (fiber/current)) ":" (fmt v) ":" (snap))) nil)
(defn pre [l kind f x]
  (array/push TR (string "@pre " l " " (fid (fiber/current)) " " kind " " (if (fiber? f) (fid f) -1) " "
                         (if (fiber? f) (statnum (fiber/status f)) -1) " " (fmt x) " " (snap))) nil)
(defn retv [x] (array/push TR (string "@ret " (fid (fiber/current)) " " (fmt x) " " (snap))) x)
(defn snd [l sig x] (array/push TR (string "@snd " l " " (fid (fiber/current)) " " sig " " (fmt x) " " (snap))) nil)
(defn sndp [l x f]   # a propagate re-raises x only if its fiber operand is acceptable; otherwise it raises its own error
  (if (and (fiber? f) (not= :new (fiber/status f)) (not= :alive (fiber/status f)) (not= :dead (fiber/status f))) (snd l -1 x)))
(defn c05/new [f & args]
  (def nf (fiber/new f ;args))
  (array/push TR (string "@new " (fid (fiber/current)) " " (length G) " " (if (empty? args) "-" (string "=" (in args 0)))))
  (array/push G nf)
  nf)
(defn stat [f] (if (fiber? f) (fiber/status f) :nofib))
(defn lastv [f] (if (fiber? f) (fiber/last-value f) :nofib))
%MACROS%
(defn run-tree [idx f flags &opt v0]
  (set G @[(fiber/root)])
  (set TR @[])
  (def m (fiber/new f flags))
  (array/push G m)
  (def r (resume m v0))
  (print idx " " (string/join TR ";") " | done " (statnum (fiber/status m)) " " (fmt r) " " (snap))
  (flush))
'''


def prelude(tree):
    return PRELUDE.replace("%MACROS%", macros_from_boot(tree))


RUN_TREE_G = r'''
(defn run-tree-g [idx lim f flags &opt v0]
  (c05/mark-root (fiber/root))
  (set G @[(fiber/root)])
  (set TR @[])
  (def m (fiber/new f flags))
  (array/push G m)
  (set BASE (c05/stackn))
  (c05/set-guard (+ BASE lim))      # the tree's root fiber runs at relative depth 1; the guard trips at relative depth lim
  (def r (resume m v0))
  (c05/set-guard 1024)
  (print idx " " (string/join TR ";") " | done " (statnum (fiber/status m)) " " (fmt r) " " (snap0))
  (flush))
'''


RUN_TREE_S = r'''
(defn run-tree-s [idx acts f flags &opt v0]
  (set G @[(fiber/root)])
  (set TR @[])
  (def m (fiber/new f flags))
  (array/push G m)
  (ev/go m v0)            # janet_schedule: the tree's root fiber becomes a task of the event loop
  (ev/sleep 0)            # the loop runs it: janet_continue_signal(m, v0, &res, JANET_SIGNAL_OK) with no current fiber
  (each [k v] acts
    (if (= k :c) (ev/cancel m v) (ev/go m v))   # janet_cancel -> janet_continue_signal(..., JANET_SIGNAL_ERROR) / plain re-schedule
    (ev/sleep 0))
  (print idx " " (string/join TR ";") " | done " (statnum (fiber/status m)) " " (fmt (fiber/last-value m)) " " (snap))
  (flush))
'''


def prelude_sched(tree):
    """prelude of the task pass: the tree's root fiber is run, re-scheduled and cancelled by the event loop"""
    return prelude(tree) + RUN_TREE_S


def prelude_guard(tree):
    """prelude of the guard pass (harness/C05/guardmain.c): every status snapshot carries janet_vm.stackn relative to the
    tree's root, and each tree runs with the recursion guard of vm.c lowered to `lim` levels below its root"""
    p = prelude(tree)
    a = "(defn snap [] "
    if p.count(a) != 1:
        raise PreludeError("prelude: snap not found")
    p = p.replace(a, "(var BASE 0)\n(defn snap0 [] ")
    i = p.index("(defn fmt [x]")
    p = p[:i] + '(defn snap [] (string (snap0) "/" (- (c05/stackn) BASE)))\n' + p[i:]
    return p + RUN_TREE_G


RUN_TREE_GS = r'''
(defn run-tree-gs [idx lim acts f flags &opt v0]
  # registry slot 0 stands for the harness' own fiber (a root fiber suspended in the loop, status :suspended).  It must not BE
  # that fiber: a tree can link it as a child with `(propagate x (get G 0))` and then cancel through the chain, which
  # would kill the harness in the middle of a batch.  A stand-in with the same flag, status and behaviour (returns nil):
  (def main0 (fiber/new (fn [] (signal 9 nil) nil) :9))
  (resume main0)
  (c05/mark-root main0)
  (set G @[main0])
  (set TR @[])
  (def m (fiber/new f flags))
  (array/push G m)
  (set BASE 0)              # the loop dispatches tasks at janet_vm.stackn = 0: depths are absolute
  (c05/set-guard lim)
  (ev/go m v0)
  (ev/sleep 0)
  (each [k v] acts
    (if (= k :c) (ev/cancel m v) (ev/go m v))
    (ev/sleep 0))
  (c05/set-guard 1024)
  (print idx " " (string/join TR ";") " | done " (statnum (fiber/status m)) " " (fmt (fiber/last-value m)) " " (string "f" (string/slice (snap0) 1)))   # slot 0 = the (running) harness fiber
  (flush))
'''


def prelude_gsched(tree):
    """prelude of the combined pass (harness/C05/guardmain.c under the event loop): the tree's root fiber is a task, the
    recursion guard of vm.c is lowered to `lim` levels above the loop, janet_vm.stackn is logged with every event"""
    p = prelude_guard(tree)
    return p + RUN_TREE_GS
