"""C02: the Lean-side stages of the check: proof obligations, emit correspondence, translation validation through the
Lean VM (jm_c02)."""
import os
import subprocess
import tempfile
import concurrent.futures as cf

from vlib.core import VERIF
from vlib.build import BuildError

THEOREMS = []
try:
    from .theorems import THEOREMS          # list of fully qualified theorem names in Props/C02.lean
except Exception:                           # pragma: no cover
    pass

SER_SRC = os.path.join(VERIF, "harness/C02/ser.c")


EMIT_SRC = os.path.join(VERIF, "harness/C02/emit_wrap.c")


def emit_correspondence(ctx, broken, quick):
    """tie (a): Emit/Model.lean (W.* = allocator + constant pool + pure emitters the theorems are about) against the real
    emit.c / regalloc.c through the wrapper TU, on generated slot tuples of all kinds: emitted words, max, regtemps,
    allocated set and constant count must be identical."""
    from . import emit_cases
    exe = ctx.driver()
    if exe is None:
        return {"emit_lines": 0}
    try:
        # plain variant: janetc_emit_ss shifts an int32 register >= 0x8000 by 16 (signed overflow, UBSan aborts); harmless
        hx = ctx.build.harness("plain", "c02emit", [EMIT_SRC])
    except BuildError as e:
        broken.append("harness emit_wrap.c does not compile against the current tree: %s" % str(e)[-300:])
        ctx.broken.append(broken[-1])
        return {"emit_lines": 0}
    lines = emit_cases.cases(ctx.rng.fork("emit"), 8000 if quick else 120000)
    chunks = [lines[i::8] for i in range(8)]

    def one(ch):
        a = subprocess.run([hx], input=("\n".join(ch) + "\n").encode(), stdout=subprocess.PIPE, stderr=subprocess.PIPE, timeout=600)
        b = subprocess.run([exe], input=("\n".join("emit " + l for l in ch) + "\n").encode(), stdout=subprocess.PIPE, stderr=subprocess.PIPE, timeout=600)
        return a.returncode, a.stdout.decode(errors="replace").splitlines(), b.stdout.decode(errors="replace").splitlines(), a.stderr.decode(errors="replace")[-300:]
    diffs = []
    n = 0
    with cf.ThreadPoolExecutor(8) as ex:
        for (rc, a, b, err), ch in zip(ex.map(one, chunks), chunks):
            if rc != 0 or len(a) != len(ch) or len(b) != len(ch):
                diffs.append({"line": "(process)", "impl": "rc=%s %s lines=%d" % (rc, err, len(a)), "model": "lines=%d" % len(b)})
                continue
            for l, x, y in zip(ch, a, b):
                n += 1
                if x.split() != y.split():
                    diffs.append({"line": l, "impl": x[:400], "model": y[:400]})
    if diffs:
        broken.append("correspondence Emit/Model vs real emit.c: %d differing lines, first %r" % (len(diffs), diffs[0]))
        ctx.broken.append(broken[-1])
    kinds = {}
    for l in lines:
        kinds[l.split()[0]] = kinds.get(l.split()[0], 0) + 1
    return {"emit_lines": n, "emit_diffs": len(diffs), "emit_first_diffs": diffs[:5], "emit_line_kinds": kinds, "emit_samples": lines[:3] + lines[-3:]}


def lean_stage(ctx, broken, quick):
    cov = {}
    cov.update(emit_correspondence(ctx, broken, quick))
    ctx.say("emit correspondence: %d lines, %d diffs" % (cov.get("emit_lines", 0), cov.get("emit_diffs", 0)))
    if THEOREMS:
        broken += ctx.obligations("JanetModel.Props.C02", THEOREMS)
        if not quick:
            ok, log = ctx.leanchecker("JanetModel.Props.C02")
            if not ok:
                broken.append("leanchecker JanetModel.Props.C02: " + log[-300:])
    return cov


def _ser_and_model(ser, exe, cases):
    fd, path = tempfile.mkstemp(prefix="c02tv-", suffix=".txt", dir="/var/tmp")
    try:
        with os.fdopen(fd, "w") as f:
            for cid, e0, src in cases:
                f.write("#CASE %s %d\n%s" % (cid, e0, src if src.endswith("\n") else src + "\n"))
        r = subprocess.run([ser, path], stdout=subprocess.PIPE, stderr=subprocess.PIPE, timeout=120)
    finally:
        os.unlink(path)
    if r.returncode != 0:
        return None, "serialiser rc=%s %s" % (r.returncode, r.stderr.decode(errors="replace")[-300:])
    lines = r.stdout.decode().splitlines()
    try:
        m = subprocess.run([exe], input=r.stdout, stdout=subprocess.PIPE, stderr=subprocess.PIPE, timeout=300)
    except subprocess.TimeoutExpired:
        return None, "model driver timeout"
    if m.returncode != 0:
        return None, "model driver rc=%s %s" % (m.returncode, m.stderr.decode(errors="replace")[-300:])
    outs = m.stdout.decode(errors="replace").split("\n")
    res = {}
    for l, o in zip(lines, outs):
        if l.startswith("run "):
            res[l.split()[1]] = o
        elif l.startswith("skip "):
            res[l.split()[1]] = "SKIP " + l
    return res, None


def tv_stage(ctx, broken, items, got):
    """items: generated cases (dicts with prog, ctx, src, e0, ref); got: observations of the real VM.
    Compiles every single-form case with the real compiler, executes the funcdefs in the Lean VM and compares with the
    real VM (and, through the caller, with the reference).  Returns (coverage dict, list of disagreements)."""
    exe = ctx.driver()
    if exe is None:
        broken.append("model driver jm_c02 does not build")
        return {"tv_programs": 0}, []
    try:
        ser = ctx.build.harness("plain", "c02ser", [SER_SRC])
    except BuildError as e:
        broken.append("harness ser.c does not compile against the current tree: %s" % str(e)[-300:])
        ctx.broken.append(broken[-1])
        return {"tv_programs": 0}, []
    cases = [("%d.%s" % (it["prog"], it["ctx"]), it["e0"], it["src"]) for it in items if it["ctx"] != "top" and it["ref"]["kind"] != "skip"]
    chunks = [cases[i:i + 150] for i in range(0, len(cases), 150)]
    res = {}
    with cf.ThreadPoolExecutor(16) as ex:
        for (r, err), ch in zip(ex.map(lambda c: _ser_and_model(ser, exe, c), chunks), chunks):
            if r is None:
                broken.append("translation validation pipeline: " + err)
                ctx.broken.append(broken[-1])
                continue
            res.update(r)
    n_cmp = n_unsup = n_skip = 0
    unsup_kinds = {}
    dis = []
    byid = {"%d.%s" % (it["prog"], it["ctx"]): it for it in items}
    for cid, o in sorted(res.items()):
        g = got.get(cid)
        if g is None or g["final"] is None or o.startswith("SKIP ") or g["final"].startswith("C "):
            n_skip += 1
            continue
        parts = o.split("\t")
        if parts[0].startswith("U "):
            n_unsup += 1
            unsup_kinds[parts[0][2:40]] = unsup_kinds.get(parts[0][2:40], 0) + 1
            continue
        n_cmp += 1
        if parts[0] != g["final"] or parts[1:] != g["trace"]:
            dis.append({"case": cid, "source": byid[cid]["src"], "e0": byid[cid]["e0"], "lean_vm": {"final": parts[0], "trace": parts[1:]}, "real_vm": g,
                        "reference": {"final": None if byid[cid]["ref"]["kind"] == "skip" else byid[cid]["ref"], }})
    return {"tv_programs": n_cmp, "tv_outside_model": n_unsup, "tv_outside_model_kinds": unsup_kinds, "tv_skipped_compile_error_or_multiform": n_skip,
            "tv_disagreements": len(dis)}, dis


EXPAND = os.path.join(VERIF, "harness/C02/expand.janet")


def _expand_and_sem(janet, exe, cases):
    fd, path = tempfile.mkstemp(prefix="c02sem-", suffix=".txt", dir="/var/tmp")
    try:
        with os.fdopen(fd, "w") as f:
            for cid, e0, src in cases:
                f.write("#CASE %s %d\n%s" % (cid, e0, src if src.endswith("\n") else src + "\n"))
        r = subprocess.run([janet, EXPAND, path], stdout=subprocess.PIPE, stderr=subprocess.PIPE, timeout=300)
    finally:
        os.unlink(path)
    if r.returncode != 0:
        return None, "expand.janet rc=%s %s" % (r.returncode, r.stderr.decode(errors="replace")[-300:])
    lines = r.stdout.decode().splitlines()
    try:
        m = subprocess.run([exe], input=r.stdout, stdout=subprocess.PIPE, stderr=subprocess.PIPE, timeout=300)
    except subprocess.TimeoutExpired:
        return None, "model driver timeout (sem)"
    if m.returncode != 0:
        return None, "model driver rc=%s %s" % (m.returncode, m.stderr.decode(errors="replace")[-300:])
    outs = m.stdout.decode(errors="replace").split("\n")
    res = {}
    for l, o in zip(lines, outs):
        if l.startswith("sem "):
            res[l.split()[1]] = o
    return res, None


def sem_stage(ctx, broken, janet, items, got):
    """second reference: the Lean big-step semantics Lang/Sem run on the REAL macro expansion of every case (all contexts,
    including the multi-form top level), compared with the real compiler+VM result."""
    exe = ctx.driver()
    if exe is None:
        return {"sem_programs": 0}, []
    cases = [("%d.%s" % (it["prog"], it["ctx"]), it["e0"], it["src"]) for it in items if it["ref"]["kind"] != "skip"]
    chunks = [cases[i:i + 120] for i in range(0, len(cases), 120)]
    res = {}
    with cf.ThreadPoolExecutor(16) as ex:
        for (r, err), ch in zip(ex.map(lambda c: _expand_and_sem(janet, exe, c), chunks), chunks):
            if r is None:
                broken.append("Lang/Sem pipeline: " + err)
                ctx.broken.append(broken[-1])
                continue
            res.update(r)
    byid = {"%d.%s" % (it["prog"], it["ctx"]): it for it in items}
    n_cmp = n_unsup = n_skip = 0
    kinds = {}
    dis = []
    for cid, o in sorted(res.items()):
        g = got.get(cid)
        if g is None or g["final"] is None or g["final"].startswith("C "):
            n_skip += 1
            continue
        parts = o.split("\t")
        if parts[0].startswith("U "):
            n_unsup += 1
            kinds[parts[0][2:40]] = kinds.get(parts[0][2:40], 0) + 1
            continue
        n_cmp += 1
        if parts[0] != g["final"] or parts[1:] != g["trace"]:
            dis.append({"case": cid, "source": byid[cid]["src"], "e0": byid[cid]["e0"], "lean_sem": {"final": parts[0], "trace": parts[1:]}, "real": g})
    return {"sem_programs": n_cmp, "sem_outside_model": n_unsup, "sem_outside_model_kinds": kinds, "sem_skipped": n_skip, "sem_disagreements": len(dis)}, dis
