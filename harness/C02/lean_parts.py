"""C02: the Lean-side stages of the check: proof obligations, emit correspondence, translation validation through the
Lean VM (jm_c02)."""
import os
import subprocess
import tempfile
import concurrent.futures as cf

from vlib.core import VERIF
from vlib.build import BuildError

THEOREMS = []
try:
    from .theorems import THEOREMS          # list of fully qualified theorem names in Props/C02.lean
except Exception:                           # pragma: no cover
    pass

SER_SRC = os.path.join(VERIF, "harness/C02/ser.c")


def lean_stage(ctx, broken, quick):
    cov = {}
    if THEOREMS:
        broken += ctx.obligations("JanetModel.Props.C02", THEOREMS)
        if not quick:
            ok, log = ctx.leanchecker("JanetModel.Props.C02")
            if not ok:
                broken.append("leanchecker JanetModel.Props.C02: " + log[-300:])
    return cov


def _ser_and_model(ser, exe, cases):
    fd, path = tempfile.mkstemp(prefix="c02tv-", suffix=".txt", dir="/var/tmp")
    try:
        with os.fdopen(fd, "w") as f:
            for cid, e0, src in cases:
                f.write("#CASE %s %d\n%s" % (cid, e0, src if src.endswith("\n") else src + "\n"))
        r = subprocess.run([ser, path], stdout=subprocess.PIPE, stderr=subprocess.PIPE, timeout=120)
    finally:
        os.unlink(path)
    if r.returncode != 0:
        return None, "serialiser rc=%s %s" % (r.returncode, r.stderr.decode(errors="replace")[-300:])
    lines = r.stdout.decode().splitlines()
    try:
        m = subprocess.run([exe], input=r.stdout, stdout=subprocess.PIPE, stderr=subprocess.PIPE, timeout=300)
    except subprocess.TimeoutExpired:
        return None, "model driver timeout"
    if m.returncode != 0:
        return None, "model driver rc=%s %s" % (m.returncode, m.stderr.decode(errors="replace")[-300:])
    outs = m.stdout.decode(errors="replace").split("\n")
    res = {}
    for l, o in zip(lines, outs):
        if l.startswith("run "):
            res[l.split()[1]] = o
        elif l.startswith("skip "):
            res[l.split()[1]] = "SKIP " + l
    return res, None


def tv_stage(ctx, broken, items, got):
    """items: generated cases (dicts with prog, ctx, src, e0, ref); got: observations of the real VM.
    Compiles every single-form case with the real compiler, executes the funcdefs in the Lean VM and compares with the
    real VM (and, through the caller, with the reference).  Returns (coverage dict, list of disagreements)."""
    exe = ctx.driver()
    if exe is None:
        broken.append("model driver jm_c02 does not build")
        return {"tv_programs": 0}, []
    try:
        ser = ctx.build.harness("plain", "c02ser", [SER_SRC])
    except BuildError as e:
        broken.append("harness ser.c does not compile against the current tree: %s" % str(e)[-300:])
        ctx.broken.append(broken[-1])
        return {"tv_programs": 0}, []
    cases = [("%d.%s" % (it["prog"], it["ctx"]), it["e0"], it["src"]) for it in items if it["ctx"] != "top" and it["ref"]["kind"] != "skip"]
    chunks = [cases[i:i + 150] for i in range(0, len(cases), 150)]
    res = {}
    with cf.ThreadPoolExecutor(16) as ex:
        for (r, err), ch in zip(ex.map(lambda c: _ser_and_model(ser, exe, c), chunks), chunks):
            if r is None:
                broken.append("translation validation pipeline: " + err)
                ctx.broken.append(broken[-1])
                continue
            res.update(r)
    n_cmp = n_unsup = n_skip = 0
    unsup_kinds = {}
    dis = []
    byid = {"%d.%s" % (it["prog"], it["ctx"]): it for it in items}
    for cid, o in sorted(res.items()):
        g = got.get(cid)
        if g is None or g["final"] is None or o.startswith("SKIP ") or g["final"].startswith("C "):
            n_skip += 1
            continue
        parts = o.split("\t")
        if parts[0].startswith("U "):
            n_unsup += 1
            unsup_kinds[parts[0][2:40]] = unsup_kinds.get(parts[0][2:40], 0) + 1
            continue
        n_cmp += 1
        if parts[0] != g["final"] or parts[1:] != g["trace"]:
            dis.append({"case": cid, "source": byid[cid]["src"], "e0": byid[cid]["e0"], "lean_vm": {"final": parts[0], "trace": parts[1:]}, "real_vm": g,
                        "reference": {"final": None if byid[cid]["ref"]["kind"] == "skip" else byid[cid]["ref"], }})
    return {"tv_programs": n_cmp, "tv_outside_model": n_unsup, "tv_outside_model_kinds": unsup_kinds, "tv_skipped_compile_error_or_multiform": n_skip,
            "tv_disagreements": len(dis)}, dis
