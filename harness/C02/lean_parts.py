"""C02: the Lean-side stages of the check: proof obligations, emit correspondence, translation validation through the
Lean VM (jm_c02)."""
import os
import subprocess
import tempfile
import concurrent.futures as cf

from vlib.core import VERIF
from vlib.build import BuildError

THEOREMS = []
try:
    from .theorems import THEOREMS          # list of fully qualified theorem names in Props/C02.lean
except Exception:                           # pragma: no cover
    pass

SER_SRC = os.path.join(VERIF, "harness/C02/ser.c")


EMIT_SRC = os.path.join(VERIF, "harness/C02/emit_wrap.c")


def emit_correspondence(ctx, broken, quick):
    """tie (a): Emit/Model.lean (W.* = allocator + constant pool + pure emitters the theorems are about) against the real
    emit.c / regalloc.c through the wrapper TU, on generated slot tuples of all kinds: emitted words, max, regtemps,
    allocated set and constant count must be identical."""
    from . import emit_cases
    exe = ctx.driver()
    if exe is None:
        return {"emit_lines": 0}
    try:
        # plain variant: janetc_emit_ss shifts an int32 register >= 0x8000 by 16 (signed overflow, UBSan aborts); harmless
        hx = ctx.build.harness("plain", "c02emit", [EMIT_SRC])
    except BuildError as e:
        broken.append("harness emit_wrap.c does not compile against the current tree: %s" % str(e)[-300:])
        ctx.broken.append(broken[-1])
        return {"emit_lines": 0}
    lines = emit_cases.cases(ctx.rng.fork("emit"), 8000 if quick else 120000)
    chunks = [lines[i::8] for i in range(8)]

    def one(ch):
        a = subprocess.run([hx], input=("\n".join(ch) + "\n").encode(), stdout=subprocess.PIPE, stderr=subprocess.PIPE, timeout=600)
        b = subprocess.run([exe], input=("\n".join("emit " + l for l in ch) + "\n").encode(), stdout=subprocess.PIPE, stderr=subprocess.PIPE, timeout=600)
        return a.returncode, a.stdout.decode(errors="replace").splitlines(), b.stdout.decode(errors="replace").splitlines(), a.stderr.decode(errors="replace")[-300:]
    diffs = []
    n = 0
    with cf.ThreadPoolExecutor(8) as ex:
        for (rc, a, b, err), ch in zip(ex.map(one, chunks), chunks):
            if rc != 0 or len(a) != len(ch) or len(b) != len(ch):
                diffs.append({"line": "(process)", "impl": "rc=%s %s lines=%d" % (rc, err, len(a)), "model": "lines=%d" % len(b)})
                continue
            for l, x, y in zip(ch, a, b):
                n += 1
                if x.split() != y.split():
                    diffs.append({"line": l, "impl": x[:400], "model": y[:400]})
    if diffs:
        broken.append("correspondence Emit/Model vs real emit.c: %d differing lines, first %r" % (len(diffs), diffs[0]))
        ctx.broken.append(broken[-1])
    kinds = {}
    for l in lines:
        kinds[l.split()[0]] = kinds.get(l.split()[0], 0) + 1
    return {"emit_lines": n, "emit_diffs": len(diffs), "emit_first_diffs": diffs[:5], "emit_line_kinds": kinds, "emit_samples": lines[:3] + lines[-3:]}


def lean_stage(ctx, broken, quick):
    cov = {}
    cov.update(emit_correspondence(ctx, broken, quick))
    ctx.say("emit correspondence: %d lines, %d diffs" % (cov.get("emit_lines", 0), cov.get("emit_diffs", 0)))
    if THEOREMS:
        broken += ctx.obligations("JanetModel.Props.C02", THEOREMS)
        if not quick:
            ok, log = ctx.leanchecker("JanetModel.Props.C02")
            if not ok:
                broken.append("leanchecker JanetModel.Props.C02: " + log[-300:])
    return cov


def _ser_and_model(ser, exe, cases):
    fd, path = tempfile.mkstemp(prefix="c02tv-", suffix=".txt", dir="/var/tmp")
    try:
        with os.fdopen(fd, "w") as f:
            for cid, e0, src in cases:
                f.write("#CASE %s %d\n%s" % (cid, e0, src if src.endswith("\n") else src + "\n"))
        r = subprocess.run([ser, path], stdout=subprocess.PIPE, stderr=subprocess.PIPE, timeout=120)
    finally:
        os.unlink(path)
    if r.returncode != 0:
        return None, "serialiser rc=%s %s" % (r.returncode, r.stderr.decode(errors="replace")[-300:])
    lines = r.stdout.decode().splitlines()
    try:
        m = subprocess.run([exe], input=r.stdout, stdout=subprocess.PIPE, stderr=subprocess.PIPE, timeout=300)
    except subprocess.TimeoutExpired:
        return None, "model driver timeout"
    if m.returncode != 0:
        return None, "model driver rc=%s %s" % (m.returncode, m.stderr.decode(errors="replace")[-300:])
    outs = m.stdout.decode(errors="replace").split("\n")
    res = {}
    for l, o in zip(lines, outs):
        if l.startswith("run "):
            res[l.split()[1]] = o
        elif l.startswith("skip "):
            res[l.split()[1]] = "SKIP " + l
    return res, None


def tv_stage(ctx, broken, items, got):
    """items: generated cases (dicts with prog, ctx, src, e0, ref); got: observations of the real VM.
    Compiles every single-form case with the real compiler, executes the funcdefs in the Lean VM and compares with the
    real VM (and, through the caller, with the reference).  Returns (coverage dict, list of disagreements)."""
    exe = ctx.driver()
    if exe is None:
        broken.append("model driver jm_c02 does not build")
        return {"tv_programs": 0}, []
    try:
        ser = ctx.build.harness("plain", "c02ser", [SER_SRC])
    except BuildError as e:
        broken.append("harness ser.c does not compile against the current tree: %s" % str(e)[-300:])
        ctx.broken.append(broken[-1])
        return {"tv_programs": 0}, []
    cases = [("%d.%s" % (it["prog"], it["ctx"]), it["e0"], it["src"]) for it in items if it["ctx"] != "top" and it["ref"]["kind"] != "skip"]
    chunks = [cases[i:i + 150] for i in range(0, len(cases), 150)]
    res = {}
    with cf.ThreadPoolExecutor(16) as ex:
        for (r, err), ch in zip(ex.map(lambda c: _ser_and_model(ser, exe, c), chunks), chunks):
            if r is None:
                broken.append("translation validation pipeline: " + err)
                ctx.broken.append(broken[-1])
                continue
            res.update(r)
    n_cmp = n_unsup = n_skip = 0
    unsup_kinds = {}
    dis = []
    byid = {"%d.%s" % (it["prog"], it["ctx"]): it for it in items}
    for cid, o in sorted(res.items()):
        g = got.get(cid)
        if g is None or g["final"] is None or o.startswith("SKIP ") or g["final"].startswith("C "):
            n_skip += 1
            continue
        parts = o.split("\t")
        if parts[0].startswith("U "):
            n_unsup += 1
            unsup_kinds[parts[0][2:40]] = unsup_kinds.get(parts[0][2:40], 0) + 1
            continue
        n_cmp += 1
        if parts[0] != g["final"] or parts[1:] != g["trace"]:
            dis.append({"case": cid, "source": byid[cid]["src"], "e0": byid[cid]["e0"], "lean_vm": {"final": parts[0], "trace": parts[1:]}, "real_vm": g,
                        "reference": {"final": None if byid[cid]["ref"]["kind"] == "skip" else byid[cid]["ref"], }})
    return {"tv_programs": n_cmp, "tv_outside_model": n_unsup, "tv_outside_model_kinds": unsup_kinds, "tv_skipped_compile_error_or_multiform": n_skip,
            "tv_disagreements": len(dis)}, dis


COMPSER_SRC = os.path.join(VERIF, "harness/C02/compser.c")


def _compser_and_model(hx, exe, cases):
    """cases: (id, source).  Real compiler (raw, see compser.c) and compiler model on the same expanded forms.
    -> dict id -> (real text | None, model text | None, same flag | None, skip reason | None), error"""
    fd, path = tempfile.mkstemp(prefix="c02comp-", suffix=".txt", dir="/var/tmp")
    try:
        with os.fdopen(fd, "w") as f:
            for cid, src in cases:
                f.write("#CASE %s 1\n%s" % (cid, src if src.endswith("\n") else src + "\n"))
        r = subprocess.run([hx, path], stdout=subprocess.PIPE, stderr=subprocess.PIPE, timeout=300)
    finally:
        os.unlink(path)
    if r.returncode != 0:
        return None, "compser rc=%s %s" % (r.returncode, r.stderr.decode(errors="replace")[-300:])
    lines = r.stdout.decode(errors="replace").splitlines()
    inp = [l for l in lines if l.startswith("glob ") or l.startswith("comp ")]
    try:
        m = subprocess.run([exe], input=("\n".join(inp) + "\n").encode(), stdout=subprocess.PIPE, stderr=subprocess.PIPE, timeout=600)
    except subprocess.TimeoutExpired:
        return None, "model driver timeout (comp)"
    if m.returncode != 0:
        return None, "model driver rc=%s %s" % (m.returncode, m.stderr.decode(errors="replace")[-300:])
    outs = m.stdout.decode(errors="replace").split("\n")
    res = {}
    for l, o in zip(inp, outs):
        if l.startswith("comp "):
            res[l.split(" ", 2)[1]] = {"model": o, "form": l.split(" ", 2)[2] if l.count(" ") >= 2 else ""}
    for l in lines:
        if l.startswith("real "):
            _, cid, text = l.split(" ", 2)
            res.setdefault(cid, {})["real"] = text
        elif l.startswith("same "):
            _, cid, flag = l.split(" ", 2)
            res.setdefault(cid, {})["same"] = flag.strip() == "1"
        elif l.startswith("skip "):
            parts = l.split(" ", 2)
            res.setdefault(parts[1], {})["skip"] = parts[2] if len(parts) > 2 else ""
    nglob = sum(1 for l in inp if l.startswith("glob "))
    return (res, nglob), None


SMAP_RE = None


def _strip_smap(t):
    import re
    return re.sub(r" smap( -?\d+:-?\d+)*", " smap", t)


def compile_stage(ctx, broken, quick, general_items):
    """tie of Compile/Model.lean (compile.c + specials.c for the core fragment): for every generated program inside the
    fragment the model's funcdef tree -- instruction words, constants, environments, source map, closure bitset, arities,
    slot count, nested defs -- must equal the REAL compiler's, text for text.  Programs outside the fragment are counted.
    Two input families: the dedicated in-fragment generator (compgen.py x 10 contexts) and the general generator's programs
    (all contexts of the check) to measure which fraction of those the fragment reaches."""
    from . import compgen
    exe = ctx.driver()
    if exe is None:
        return {"comp_cases": 0}
    try:
        hx = ctx.build.harness("plain", "c02compser", [COMPSER_SRC])
    except BuildError as e:
        broken.append("harness compser.c (wrapper TU around compile.c) does not compile against the current tree: %s" % str(e)[-300:])
        ctx.broken.append(broken[-1])
        return {"comp_cases": 0}
    nprog = 250 if quick else 4000
    if broken:
        nprog *= 3
    progs = compgen.programs(ctx.rng.fork("compile"), nprog)
    fam = {cid: "core" for cid, _, _ in progs}
    feats_of = {cid: f for cid, _, f in progs}
    cases = [(cid, src) for cid, src, _ in progs]
    for it in general_items:
        if it["ctx"] in ("far", "far_tail", "far_upvalue", "edge", "edge1", "edge2"):
            continue      # 230-260 live vars: slow in the allocator model; the general family only measures the fragment's reach
        cid = "g%d.%s" % (it["prog"], it["ctx"])
        fam[cid] = "general"
        cases.append((cid, it["src"]))
    src_of = dict(cases)
    chunks = [cases[i:i + 200] for i in range(0, len(cases), 200)]
    res = {}
    nglob = 0
    with cf.ThreadPoolExecutor(16) as ex:
        for (r, err) in ex.map(lambda c: _compser_and_model(hx, exe, c), chunks):
            if r is None:
                broken.append("compile correspondence pipeline: " + err)
                ctx.broken.append(broken[-1])
                continue
            res.update(r[0])
            nglob = r[1]
    st = {f: {"compiled": 0, "in_fragment": 0, "near": 0, "far": 0, "outside": 0, "compile_error_or_multiform": 0, "diffs": 0, "unexpanded_differs": 0} for f in ("core", "general")}
    diffs = []
    feats = {}
    for cid, d in sorted(res.items()):
        f = st[fam.get(cid, "core")]
        if "real" not in d:
            f["compile_error_or_multiform"] += 1
            continue
        f["compiled"] += 1
        if d.get("same") is False:
            f["unexpanded_differs"] += 1
        mo = d.get("model") or "MISSING"
        if mo == "OUT":
            f["outside"] += 1
            continue
        f["in_fragment"] += 1
        tag, body = mo[:1], mo[1:].strip()
        f["near" if tag == "N" else "far"] += 1
        real = d["real"].strip()
        if " [ " in (" " + d.get("form", "") + " ") and body != real:
            # Lang.Expr bracket tuples carry no position (the compiler moves its mapping cursor on them): words only
            body, real = _strip_smap(body), _strip_smap(real)
        if body != real or tag == "-":
            f["diffs"] += 1
            diffs.append({"case": cid, "source": src_of.get(cid, "")[:3000], "real": real[:1500], "model": (tag + " " + body)[:1500]})
        for ft in feats_of.get(cid, []):
            feats[ft] = feats.get(ft, 0) + 1
    if res and feats.get("params>240", 0) < 20:
        # the many-parameters family (janetc_fn_moveargs / Compile/Model.fnMoveArgs) must be compared, not skipped
        broken.append("compile correspondence: only %d of the 27 programs with > 240 parameters are inside the model compiler's fragment"
                      % feats.get("params>240", 0))
        ctx.broken.append(broken[-1])
    if diffs:
        broken.append("correspondence Compile/Model vs real compile.c/specials.c: %d programs with differing funcdef trees, first %r" % (len(diffs), diffs[0]))
        ctx.broken.append(broken[-1])
    g = st["general"]
    return {"comp_cases": st["core"]["compiled"] + g["compiled"], "comp_core": st["core"], "comp_general": g,
            "comp_general_fraction_in_fragment": round(g["in_fragment"] / g["compiled"], 4) if g["compiled"] else None,
            "comp_core_fraction_in_fragment": round(st["core"]["in_fragment"] / st["core"]["compiled"], 4) if st["core"]["compiled"] else None,
            "comp_diffs": len(diffs), "comp_first_diffs": diffs[:3], "comp_core_feature_histogram": dict(sorted(feats.items())),
            "comp_globals_regenerated": nglob, "comp_contexts": compgen.CONTEXTS,
            "comp_sample": [c for c in cases[:2]]}


EXPAND = os.path.join(VERIF, "harness/C02/expand.janet")


def _expand_and_sem(janet, exe, cases):
    fd, path = tempfile.mkstemp(prefix="c02sem-", suffix=".txt", dir="/var/tmp")
    try:
        with os.fdopen(fd, "w") as f:
            for cid, e0, src in cases:
                f.write("#CASE %s %d\n%s" % (cid, e0, src if src.endswith("\n") else src + "\n"))
        r = subprocess.run([janet, EXPAND, path], stdout=subprocess.PIPE, stderr=subprocess.PIPE, timeout=300)
    finally:
        os.unlink(path)
    if r.returncode != 0:
        return None, "expand.janet rc=%s %s" % (r.returncode, r.stderr.decode(errors="replace")[-300:])
    lines = r.stdout.decode().splitlines()
    try:
        m = subprocess.run([exe], input=r.stdout, stdout=subprocess.PIPE, stderr=subprocess.PIPE, timeout=300)
    except subprocess.TimeoutExpired:
        return None, "model driver timeout (sem)"
    if m.returncode != 0:
        return None, "model driver rc=%s %s" % (m.returncode, m.stderr.decode(errors="replace")[-300:])
    outs = m.stdout.decode(errors="replace").split("\n")
    res = {}
    for l, o in zip(lines, outs):
        if l.startswith("sem "):
            res[l.split()[1]] = o
    return res, None


def sem_stage(ctx, broken, janet, items, got):
    """second reference: the Lean big-step semantics Lang/Sem run on the REAL macro expansion of every case (all contexts,
    including the multi-form top level), compared with the real compiler+VM result."""
    exe = ctx.driver()
    if exe is None:
        return {"sem_programs": 0}, []
    cases = [("%d.%s" % (it["prog"], it["ctx"]), it["e0"], it["src"]) for it in items if it["ref"]["kind"] != "skip"]
    chunks = [cases[i:i + 120] for i in range(0, len(cases), 120)]
    res = {}
    with cf.ThreadPoolExecutor(16) as ex:
        for (r, err), ch in zip(ex.map(lambda c: _expand_and_sem(janet, exe, c), chunks), chunks):
            if r is None:
                broken.append("Lang/Sem pipeline: " + err)
                ctx.broken.append(broken[-1])
                continue
            res.update(r)
    byid = {"%d.%s" % (it["prog"], it["ctx"]): it for it in items}
    n_cmp = n_unsup = n_skip = 0
    kinds = {}
    dis = []
    for cid, o in sorted(res.items()):
        g = got.get(cid)
        if g is None or g["final"] is None or g["final"].startswith("C "):
            n_skip += 1
            continue
        parts = o.split("\t")
        if parts[0].startswith("U "):
            n_unsup += 1
            kinds[parts[0][2:40]] = kinds.get(parts[0][2:40], 0) + 1
            continue
        n_cmp += 1
        if parts[0] != g["final"] or parts[1:] != g["trace"]:
            dis.append({"case": cid, "source": byid[cid]["src"], "e0": byid[cid]["e0"], "lean_sem": {"final": parts[0], "trace": parts[1:]}, "real": g})
    return {"sem_programs": n_cmp, "sem_outside_model": n_unsup, "sem_outside_model_kinds": kinds, "sem_skipped": n_skip, "sem_disagreements": len(dis)}, dis
