"""C02: generated slot tuples for the emit-layer correspondence (real emit.c/regalloc.c vs Emit/Model.lean)."""

IDX = [0, 1, 2, 0xEE, 0xEF, 0x100, 0x101, 0x1FF, 0x200, 1000, 0xFFFE, 0xFFFF]
NLIVE = [0, 1, 5, 100, 236, 238, 239, 240, 241, 242, 243, 250, 256, 257, 300]
OPS3 = [6, 8, 10, 12, 14, 33, 35, 58, 59, 60]      # add sub mul div mod gt lt in get put
KS = ["Kn", "Kt", "Kf", "K0", "K1", "K-1", "K127", "K-128", "K32767", "K32768", "K-32768", "K-32769", "K70000", "K123456789"]


def slot(r, kind=None, writable=False):
    kind = kind or r.choice(["near", "far", "up", "const", "ref"])
    if writable and kind == "const":
        kind = r.choice(["near", "far", "up", "ref"])
    if kind == "near":
        i = r.choice([0, 1, 2, 0xEE, 0xEF]) if r.chance(1, 2) else r.below(0xF0)
        return "L%d" % i
    if kind == "far":
        return "L%d" % (r.choice(IDX[5:]) if r.chance(1, 2) else r.range(0x100, 0xFFFF))
    if kind == "up":
        return "U%d.%d" % (r.choice([0, 1, 7, 255]) if r.chance(1, 2) else r.below(256), r.choice([0, 1, 239, 255]) if r.chance(1, 2) else r.below(256))
    if kind == "const":
        return r.choice(KS) if r.chance(3, 4) else "K%d" % (r.range(-100000, 100000))
    return "R%d" % r.below(4)


KINDS = ["near", "far", "up", "const", "ref"]


def cases(rng, n):
    out = []
    # every kind combination for every operand position, below and above the near/far boundary
    for nl in (5, 300):
        for k1 in KINDS:
            for k2 in KINDS:
                for k3 in KINDS:
                    for wr in (0, 1):
                        if wr and k1 == "const":
                            continue
                        out.append("sss %d %d %d %s %s %s" % (rng.choice(OPS3), nl, wr, slot(rng, k1), slot(rng, k2), slot(rng, k3)))
                for wr in (0, 1):
                    if wr and k1 == "const":
                        continue
                    out.append("ss %d %d %d %s %s" % (63, nl, wr, slot(rng, k1), slot(rng, k2)))
                    out.append("ssi %d %d %d %s %s %d" % (5, nl, wr, slot(rng, k1), slot(rng, k2), rng.range(-128, 127)))
                    out.append("ssu %d %d %d %s %s %d" % (61, nl, wr, slot(rng, k1), slot(rng, k2), rng.below(256)))
                if k1 != "const":
                    out.append("copy %d %s %s" % (nl, slot(rng, k1), slot(rng, k2)))
            for wr in (0, 1):
                if wr and k1 != "near" and k1 != "far":
                    continue      # janetc_emit_s with write-back is only used on local targets
                out.append("s %d %d %d %s" % (rng.choice([3, 49, 46, 66]), nl, wr, slot(rng, k1)))
            for wr in (0, 1):
                if wr and k1 == "const":
                    continue
                out.append("si %d %d %d %s %d" % (rng.choice([29, 30, 43]), nl, wr, slot(rng, k1), rng.range(-32768, 32767)))
                out.append("su %d %d %d %s %d" % (2, nl, wr, slot(rng, k1), rng.below(65536)))
    while len(out) < n:
        nl = rng.choice(NLIVE) if rng.chance(2, 3) else rng.below(400)
        c = rng.below(8)
        wr = rng.below(2)
        s1 = slot(rng, writable=bool(wr))
        if c == 0:
            out.append("sss %d %d %d %s %s %s" % (rng.choice(OPS3), nl, wr, s1, slot(rng), slot(rng)))
        elif c == 1:
            out.append("ss %d %d %d %s %s" % (63, nl, wr, s1, slot(rng)))
        elif c == 2:
            if wr and s1[0] != "L":
                wr = 0
            out.append("s %d %d %d %s" % (rng.choice([3, 49, 46, 66]), nl, wr, s1))
        elif c == 3:
            out.append("ssi %d %d %d %s %s %d" % (5, nl, wr, s1, slot(rng), rng.range(-128, 127)))
        elif c == 4:
            out.append("ssu %d %d %d %s %s %d" % (61, nl, wr, s1, slot(rng), rng.below(256)))
        elif c == 5:
            out.append("si %d %d %d %s %d" % (rng.choice([29, 30, 43]), nl, wr, s1, rng.range(-32768, 32767)))
        elif c == 6:
            out.append("su %d %d %d %s %d" % (2, nl, wr, s1, rng.below(65536)))
        else:
            out.append("copy %d %s %s" % (nl, slot(rng, writable=True), slot(rng)))
    return out
