THEOREMS = [
    "JanetModel.Props.C02.emit_sss_correct",
    "JanetModel.Props.C02.emit_ss_correct",
    "JanetModel.Props.C02.emit_s_correct",
    "JanetModel.Props.C02.emit_ssi_correct",
    "JanetModel.Props.C02.emit_ssu_correct",
    "JanetModel.Props.C02.emit_si_correct",
    "JanetModel.Props.C02.copy_correct",
    "JanetModel.Props.C02.regtemp_disjoint",
    "JanetModel.Props.C02.regtemp_model_eq",
    "JanetModel.Props.C02.sem_context_free",
    "JanetModel.Props.C02.frame_setup_shape",
    "JanetModel.Props.C02.mkRegs_omitted_nil",
    # session 3
    "JanetModel.Props.C02.sem_context_free_fn_used",
    "JanetModel.Props.C02.compile_model_matches_source",
    "JanetModel.Props.C02.vm_executes_emit_words",
    "JanetModel.Props.C02.vm_executes_compiler_words",
    "JanetModel.Props.C02.callPrim_frame_independent",
    "JanetModel.Props.C02.call_agrees",
    "JanetModel.Props.C02.control_and_data_agree",
    "JanetModel.Props.C02.run_of_reach",
    "JanetModel.Props.C02.compile_correct_calls",
    "JanetModel.Props.C02.compile_correct_partial",
    # session 4
    "JanetModel.Props.C02.compile_correct_statements",
    # session 4, second part
    "JanetModel.Props.C02.compile_correct_nary_calls",
]
