THEOREMS = [
    "JanetModel.Props.C02.emit_sss_correct_partial",
    "JanetModel.Props.C02.emit_ssi_correct_partial",
    "JanetModel.Props.C02.copy_correct_partial",
    "JanetModel.Props.C02.regtemp_disjoint",
]
