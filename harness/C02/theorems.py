THEOREMS = [
    "JanetModel.Props.C02.emit_sss_correct",
    "JanetModel.Props.C02.emit_ss_correct",
    "JanetModel.Props.C02.emit_s_correct",
    "JanetModel.Props.C02.emit_ssi_correct",
    "JanetModel.Props.C02.emit_ssu_correct",
    "JanetModel.Props.C02.emit_si_correct",
    "JanetModel.Props.C02.copy_correct",
    "JanetModel.Props.C02.regtemp_disjoint",
    "JanetModel.Props.C02.regtemp_model_eq",
    "JanetModel.Props.C02.sem_context_free",
    "JanetModel.Props.C02.frame_setup_shape",
    "JanetModel.Props.C02.mkRegs_omitted_nil",
]
