"""C02: S-expression AST for generated janet programs + a layout printer that records (line, column) of every
parenthesised form exactly as janet's parser will (1-based line, 1-based column of the opening delimiter)."""


class Sym:
    __slots__ = ("name",)

    def __init__(self, name):
        self.name = name

    def __repr__(self):
        return self.name

    def __eq__(self, o):
        return isinstance(o, Sym) and o.name == self.name

    def __hash__(self):
        return hash(("sym", self.name))


class Kw:
    __slots__ = ("name",)

    def __init__(self, name):
        self.name = name

    def __repr__(self):
        return ":" + self.name

    def __eq__(self, o):
        return isinstance(o, Kw) and o.name == self.name

    def __hash__(self):
        return hash(("kw", self.name))


class T:
    """tuple form: (..) or [..]; line/col are filled in by the printer (relative to the start of the printed text)"""
    __slots__ = ("xs", "br", "line", "col")

    def __init__(self, xs, br=False):
        self.xs = list(xs)
        self.br = br
        self.line = -1
        self.col = -1

    def __repr__(self):
        return flat(self)


class Lit:
    """literal constructor: kind in 'arr' (@[..]), 'tab' (@{..}), 'stc' ({..}); xs flat list (k v k v for tab/stc)"""
    __slots__ = ("kind", "xs")

    def __init__(self, kind, xs):
        self.kind = kind
        self.xs = list(xs)

    def __repr__(self):
        return flat(self)


def S(*xs):
    """build a paren form; strings starting with ':' become keywords, other strings symbols; use Str() for strings"""
    return T([conv(x) for x in xs])


def B(*xs):
    return T([conv(x) for x in xs], br=True)


class Str:
    __slots__ = ("s",)

    def __init__(self, s):
        self.s = s

    def __repr__(self):
        return '"%s"' % self.s

    def __eq__(self, o):
        return isinstance(o, Str) and o.s == self.s

    def __hash__(self):
        return hash(("str", self.s))


def conv(x):
    if isinstance(x, str):
        if x.startswith(":") and len(x) > 1:
            return Kw(x[1:])
        return Sym(x)
    return x


def atom_text(x):
    if x is None:
        return "nil"
    if x is True:
        return "true"
    if x is False:
        return "false"
    if isinstance(x, (int, float)):
        if float(x) == int(x):
            return str(int(x))
        return repr(float(x))
    if isinstance(x, (Sym, Kw, Str)):
        return repr(x)
    raise TypeError("atom %r" % (x,))


OPEN = {"arr": "@[", "tab": "@{", "stc": "{"}
CLOSE = {"arr": "]", "tab": "}", "stc": "}"}


def flat(x):
    if isinstance(x, T):
        return ("[" if x.br else "(") + " ".join(flat(y) for y in x.xs) + ("]" if x.br else ")")
    if isinstance(x, Lit):
        return OPEN[x.kind] + " ".join(flat(y) for y in x.xs) + CLOSE[x.kind]
    return atom_text(x)


def size(x):
    if isinstance(x, (T, Lit)):
        return 1 + sum(size(y) for y in x.xs)
    return 1


def depth(x):
    if isinstance(x, (T, Lit)):
        return 1 + max([depth(y) for y in x.xs] or [0])
    return 0


class Printer:
    """Emits text; tracks a cursor.  Long forms are broken: head and first argument on the first line, every further
    element on its own line (indent 1).  Positions of T nodes are stored on the nodes."""

    def __init__(self, width=70):
        self.out = []
        self.line = 1
        self.col = 1
        self.width = width

    def put(self, s):
        self.out.append(s)
        self.col += len(s)

    def nl(self, indent=0):
        self.out.append("\n" + " " * indent)
        self.line += 1
        self.col = 1 + indent

    def form(self, x, indent=0):
        if isinstance(x, (T, Lit)):
            if isinstance(x, T):
                x.line, x.col = self.line, self.col
                o, c = ("[", "]") if x.br else ("(", ")")
            else:
                o, c = OPEN[x.kind], CLOSE[x.kind]
            fl = flat(x)
            if len(fl) + self.col <= self.width or len(x.xs) <= 2:
                brk = False
            else:
                brk = True
            self.put(o)
            for i, y in enumerate(x.xs):
                if i > 0:
                    if brk and i >= 2:
                        self.nl(indent + 1)
                    else:
                        self.put(" ")
                self.form(y, indent + 1)
            self.put(c)
        else:
            self.put(atom_text(x))

    def text(self):
        return "".join(self.out)
