/* C02 translation validation, step 1: compile each case with the REAL compiler and serialise the resulting funcdef tree
 * (instruction words, constants, nested defs, environments, source map, closure bitset, arities) as protocol lines for
 * the Lean VM driver jm_c02.  Cases with more than one top-level form are skipped ("skip <id>"): their later forms embed
 * values computed by earlier ones.
 *
 * usage: ser <casefile>      (same "#CASE <id> <e0>" records as runner.janet) */
#include <janet.h>
#include <stdio.h>
#include <string.h>
#include <stdlib.h>
#include <inttypes.h>

static JanetTable *names;   /* function value -> symbol */

static Janet cf_emit(int32_t argc, Janet *argv) { (void)argc; return argv[0]; }
static Janet cf_res(int32_t argc, Janet *argv) { (void)argc; (void)argv; return janet_wrap_nil(); }

static void hexbytes(const uint8_t *s, int32_t n) { for (int32_t i = 0; i < n; i++) printf("%02x", s[i]); }

static int ser_value(Janet x, int depth) {
    if (depth > 32) { printf(" U"); return 0; }
    switch (janet_type(x)) {
        case JANET_NIL: printf(" N"); return 1;
        case JANET_BOOLEAN: printf(janet_unwrap_boolean(x) ? " T" : " F"); return 1;
        case JANET_NUMBER: { double d = janet_unwrap_number(x); uint64_t u; memcpy(&u, &d, 8); printf(" n%016" PRIx64, u); return 1; }
        case JANET_STRING: printf(" s"); hexbytes(janet_unwrap_string(x), janet_string_length(janet_unwrap_string(x))); return 1;
        case JANET_SYMBOL: printf(" y"); hexbytes(janet_unwrap_symbol(x), janet_string_length(janet_unwrap_symbol(x))); return 1;
        case JANET_KEYWORD: printf(" k"); hexbytes(janet_unwrap_keyword(x), janet_string_length(janet_unwrap_keyword(x))); return 1;
        case JANET_TUPLE: {
            const Janet *t = janet_unwrap_tuple(x);
            int32_t n = janet_tuple_length(t);
            printf(" %c%d", (janet_tuple_flag(t) & JANET_TUPLE_FLAG_BRACKETCTOR) ? 'b' : 't', n);
            int ok = 1;
            for (int32_t i = 0; i < n; i++) ok &= ser_value(t[i], depth + 1);
            return ok;
        }
        case JANET_STRUCT: {
            const JanetKV *st = janet_unwrap_struct(x);
            int32_t n = janet_struct_length(st), cap = janet_struct_capacity(st);
            printf(" q%d", n);
            int ok = 1;
            for (int32_t i = 0; i < cap; i++) if (!janet_checktype(st[i].key, JANET_NIL)) { ok &= ser_value(st[i].key, depth + 1); ok &= ser_value(st[i].value, depth + 1); }
            return ok;
        }
        case JANET_FUNCTION:
        case JANET_CFUNCTION: {
            Janet nm = janet_table_get(names, x);
            if (janet_checktype(nm, JANET_SYMBOL)) { printf(" c"); hexbytes(janet_unwrap_symbol(nm), janet_string_length(janet_unwrap_symbol(nm))); return 1; }
            printf(" U");
            return 0;
        }
        default: printf(" U"); return 0;
    }
}

static JanetFuncDef **alldefs; static int ndefs, capdefs;
static int add_def(JanetFuncDef *d) {
    if (ndefs == capdefs) { capdefs = capdefs ? capdefs * 2 : 64; alldefs = realloc(alldefs, sizeof(*alldefs) * capdefs); }
    alldefs[ndefs] = d;
    return ndefs++;
}
static int index_of(JanetFuncDef *d) { for (int i = 0; i < ndefs; i++) if (alldefs[i] == d) return i; return -1; }
static void collect(JanetFuncDef *d) { add_def(d); for (int32_t i = 0; i < d->defs_length; i++) collect(d->defs[i]); }

static void ser_def(int idx) {
    JanetFuncDef *d = alldefs[idx];
    printf("def %d %d %d %d %d %d %d\n", idx, d->arity, d->min_arity, d->max_arity, d->slotcount,
           !!(d->flags & JANET_FUNCDEF_FLAG_VARARG), !!(d->flags & JANET_FUNCDEF_FLAG_STRUCTARG));
    printf("code");
    for (int32_t i = 0; i < d->bytecode_length; i++) printf(" %x", d->bytecode[i]);
    printf("\nconsts");
    int ok = 1;
    for (int32_t i = 0; i < d->constants_length; i++) ok &= ser_value(d->constants[i], 0);
    printf("\ndefs");
    for (int32_t i = 0; i < d->defs_length; i++) printf(" %d", index_of(d->defs[i]));
    printf("\nenvs");
    for (int32_t i = 0; i < d->environments_length; i++) printf(" %d", d->environments[i]);
    printf("\nsmap");
    if (d->sourcemap) for (int32_t i = 0; i < d->bytecode_length; i++) printf(" %d %d", d->sourcemap[i].line, d->sourcemap[i].column);
    printf("\nbitset ");
    if (d->closure_bitset) { for (int32_t i = 0; i < d->slotcount; i++) putchar((d->closure_bitset[i >> 5] >> (i & 31)) & 1 ? '1' : '0'); if (d->slotcount == 0) putchar('e'); }
    else putchar('-');
    printf("\n");
    (void)ok;
}

static void do_case(const char *id, int e0, const char *src, size_t len, JanetTable *core) {
    JanetTable *env = janet_table(8);
    env->proto = core;
    janet_def(env, "emit", janet_wrap_cfunction(cf_emit), NULL);
    janet_def(env, "RES", janet_wrap_cfunction(cf_res), NULL);
    JanetParser parser;
    janet_parser_init(&parser);
    for (size_t i = 0; i < len; i++) janet_parser_consume(&parser, (uint8_t)src[i]);
    janet_parser_eof(&parser);
    int nforms = 0;
    Janet form = janet_wrap_nil();
    while (janet_parser_has_more(&parser)) { Janet f = janet_parser_produce(&parser); if (nforms == 0) form = f; nforms++; }
    if (janet_parser_status(&parser) == JANET_PARSE_ERROR || nforms != 1) { printf("skip %s forms=%d\n", id, nforms); janet_parser_deinit(&parser); return; }
    janet_gcroot(form);
    JanetCompileResult r = janet_compile(form, env, janet_cstring("prog"));
    if (r.status != JANET_COMPILE_OK) { printf("skip %s compile-error\n", id); janet_gcunroot(form); janet_parser_deinit(&parser); return; }
    ndefs = 0;
    collect(r.funcdef);
    printf("prog %s\n", id);
    for (int i = 0; i < ndefs; i++) ser_def(i);
    printf("run %s %d\n", id, e0);
    janet_gcunroot(form);
    janet_parser_deinit(&parser);
}

int main(int argc, char **argv) {
    if (argc < 2) return 2;
    janet_init();
    JanetTable *core = janet_core_env(NULL);
    janet_gcroot(janet_wrap_table(core));
    names = janet_table(1024);
    janet_gcroot(janet_wrap_table(names));
    for (int32_t i = 0; i < core->capacity; i++) {
        JanetKV *kv = core->data + i;
        if (!janet_checktype(kv->key, JANET_SYMBOL) || !janet_checktype(kv->value, JANET_TABLE)) continue;
        Janet v = janet_table_get(janet_unwrap_table(kv->value), janet_ckeywordv("value"));
        if (janet_checktype(v, JANET_FUNCTION) || janet_checktype(v, JANET_CFUNCTION)) janet_table_put(names, v, kv->key);
    }
    janet_table_put(names, janet_wrap_cfunction(cf_emit), janet_csymbolv("emit"));
    janet_table_put(names, janet_wrap_cfunction(cf_res), janet_csymbolv("RES"));
    FILE *f = fopen(argv[1], "rb");
    if (!f) return 2;
    fseek(f, 0, SEEK_END); long sz = ftell(f); fseek(f, 0, SEEK_SET);
    char *text = malloc(sz + 1);
    if (fread(text, 1, sz, f) != (size_t)sz) return 2;
    text[sz] = 0;
    fclose(f);
    char *p = text;
    char id[128] = ""; int e0 = 0; char *start = NULL;
    while (p && *p) {
        char *eol = strchr(p, '\n');
        size_t l = eol ? (size_t)(eol - p) : strlen(p);
        if (l >= 6 && !strncmp(p, "#CASE ", 6)) {
            if (start) do_case(id, e0, start, (size_t)(p - start), core);
            sscanf(p + 6, "%127s %d", id, &e0);
            start = eol ? eol + 1 : p + l;
        }
        p = eol ? eol + 1 : NULL;
    }
    if (start) do_case(id, e0, start, strlen(start), core);
    fflush(stdout);
    janet_deinit();
    return 0;
}
