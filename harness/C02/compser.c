/* C02 compile correspondence: wrapper TU around the REAL compile.c (+ specials.c through libjanet.a).
 *
 * The two bytecode passes that janetc_pop_funcdef runs after the compiler proper (janet_bytecode_movopt,
 * janet_bytecode_remove_noops -- modelled and proved behaviour preserving under C15, Bytecode/VMMovopt.lean,
 * VMPasses.lean) are switched off by function-like macros when c02_raw is set, so that what is serialised is the output
 * of compile.c + specials.c + emit.c + regalloc.c themselves: that is what the Lean model Compile/Model.lean mirrors.
 *
 * For every case: parse, macro-expand with the real `macex`, compile the EXPANDED form (raw), and print
 *   comp <id> <tokens of the expanded form>           (input of the Lean model, same token format as expand.janet)
 *   real <id> <canonical serialisation of the funcdef tree>
 *   same <id> <0|1>       (1: compiling the original, unexpanded form gives word-for-word the same funcdef tree)
 * Before the first case the part of the core environment the model needs is printed:
 *   glob <hexname> c                 cfunction
 *   glob <hexname> f <min> <max> <tag>   janet function (tag != 0: has a call-site optimizer, cfuns.c)
 *   glob <hexname> m | v | x         macro | var | other value
 *
 * usage: compser <casefile> */
#include "features.h"
#include <janet.h>
#include "compile.h"
#include "emit.h"
#include "vector.h"
#include "util.h"
#include "state.h"

static int c02_raw = 1;
#define janet_bytecode_movopt(d) do { if (!c02_raw) (janet_bytecode_movopt)(d); } while (0)
#define janet_bytecode_remove_noops(d) do { if (!c02_raw) (janet_bytecode_remove_noops)(d); } while (0)
#include "compile.c"
#undef janet_bytecode_movopt
#undef janet_bytecode_remove_noops

#include <stdio.h>
#include <string.h>
#include <stdlib.h>
#include <inttypes.h>

static JanetTable *names;   /* function value -> symbol */

static Janet cf_emit(int32_t argc, Janet *argv) { (void)argc; return argv[0]; }
static Janet cf_res(int32_t argc, Janet *argv) { (void)argc; (void)argv; return janet_wrap_nil(); }

typedef struct { char *p; size_t n, cap; } SB;
static void sb_put(SB *b, const char *s, size_t n) {
    if (b->n + n + 1 > b->cap) { b->cap = (b->cap + n + 64) * 2; b->p = realloc(b->p, b->cap); }
    memcpy(b->p + b->n, s, n); b->n += n; b->p[b->n] = 0;
}
static void sb_f(SB *b, const char *fmt, ...) {
    char tmp[128]; va_list ap; va_start(ap, fmt); int k = vsnprintf(tmp, sizeof tmp, fmt, ap); va_end(ap); sb_put(b, tmp, (size_t)k);
}
static void sb_hex(SB *b, const uint8_t *s, int32_t n) { for (int32_t i = 0; i < n; i++) sb_f(b, "%02x", s[i]); }

/* constants of a funcdef: same value tokens as ser.c */
static void ser_value(SB *b, Janet x, int depth) {
    if (depth > 32) { sb_f(b, " U"); return; }
    switch (janet_type(x)) {
        case JANET_NIL: sb_f(b, " N"); return;
        case JANET_BOOLEAN: sb_f(b, janet_unwrap_boolean(x) ? " T" : " F"); return;
        case JANET_NUMBER: { double d = janet_unwrap_number(x); uint64_t u; memcpy(&u, &d, 8); sb_f(b, " n%016" PRIx64, u); return; }
        case JANET_STRING: sb_f(b, " s"); sb_hex(b, janet_unwrap_string(x), janet_string_length(janet_unwrap_string(x))); return;
        case JANET_SYMBOL: sb_f(b, " y"); sb_hex(b, janet_unwrap_symbol(x), janet_string_length(janet_unwrap_symbol(x))); return;
        case JANET_KEYWORD: sb_f(b, " k"); sb_hex(b, janet_unwrap_keyword(x), janet_string_length(janet_unwrap_keyword(x))); return;
        case JANET_TUPLE: {
            const Janet *t = janet_unwrap_tuple(x);
            int32_t n = janet_tuple_length(t);
            sb_f(b, " %c%d", (janet_tuple_flag(t) & JANET_TUPLE_FLAG_BRACKETCTOR) ? 'b' : 't', n);
            for (int32_t i = 0; i < n; i++) ser_value(b, t[i], depth + 1);
            return;
        }
        case JANET_FUNCTION:
        case JANET_CFUNCTION: {
            Janet nm = janet_table_get(names, x);
            if (janet_checktype(nm, JANET_SYMBOL)) { sb_f(b, " c"); sb_hex(b, janet_unwrap_symbol(nm), janet_string_length(janet_unwrap_symbol(nm))); return; }
            sb_f(b, " U");
            return;
        }
        default: sb_f(b, " U"); return;
    }
}

/* the form handed to the compiler: token format of expand.janet / Driver parseExpr */
static void ser_form(SB *b, Janet x, int depth) {
    if (depth > 200) { sb_f(b, " U"); return; }
    switch (janet_type(x)) {
        case JANET_NIL: sb_f(b, " N"); return;
        case JANET_BOOLEAN: sb_f(b, janet_unwrap_boolean(x) ? " B1" : " B0"); return;
        case JANET_NUMBER: {
            double d = janet_unwrap_number(x);
            if (d == (double)(int64_t)d && d > -2147483647.0 && d < 2147483647.0 && !(d == 0 && 1.0 / d < 0)) { sb_f(b, " i%" PRId64, (int64_t)d); return; }
            uint8_t by[8]; memcpy(by, &d, 8); sb_f(b, " r"); sb_hex(b, by, 8); return;
        }
        case JANET_STRING: sb_f(b, " s"); sb_hex(b, janet_unwrap_string(x), janet_string_length(janet_unwrap_string(x))); return;
        case JANET_SYMBOL: sb_f(b, " y"); sb_hex(b, janet_unwrap_symbol(x), janet_string_length(janet_unwrap_symbol(x))); return;
        case JANET_KEYWORD: sb_f(b, " k"); sb_hex(b, janet_unwrap_keyword(x), janet_string_length(janet_unwrap_keyword(x))); return;
        case JANET_TUPLE: {
            const Janet *t = janet_unwrap_tuple(x);
            int32_t n = janet_tuple_length(t);
            if (janet_tuple_flag(t) & JANET_TUPLE_FLAG_BRACKETCTOR) sb_f(b, " [ %d", n);
            else sb_f(b, " ( %d %d %d", janet_tuple_sm_line(t), janet_tuple_sm_column(t), n);
            for (int32_t i = 0; i < n; i++) ser_form(b, t[i], depth + 1);
            return;
        }
        case JANET_ARRAY: {
            JanetArray *a = janet_unwrap_array(x);
            sb_f(b, " A %d", a->count);
            for (int32_t i = 0; i < a->count; i++) ser_form(b, a->data[i], depth + 1);
            return;
        }
        case JANET_STRUCT:
        case JANET_TABLE: {
            const JanetKV *kvs = NULL; int32_t cap = 0, len = 0;
            janet_dictionary_view(x, &kvs, &len, &cap);
            sb_f(b, " %c %d", janet_checktype(x, JANET_STRUCT) ? 'S' : 'T', 2 * len);
            for (int32_t i = 0; i < cap; i++) if (!janet_checktype(kvs[i].key, JANET_NIL)) { ser_form(b, kvs[i].key, depth + 1); ser_form(b, kvs[i].value, depth + 1); }
            return;
        }
        case JANET_FUNCTION:
        case JANET_CFUNCTION: {
            Janet nm = janet_table_get(names, x);
            if (janet_checktype(nm, JANET_SYMBOL)) { sb_f(b, " c"); sb_hex(b, janet_unwrap_symbol(nm), janet_string_length(janet_unwrap_symbol(nm))); return; }
            sb_f(b, " U");
            return;
        }
        default: sb_f(b, " U"); return;
    }
}

/* canonical text of a funcdef tree, depth first */
static void ser_def(SB *b, JanetFuncDef *d, int smap) {
    sb_f(b, " { %d %d %d %d %d %d code", d->arity, d->min_arity, d->max_arity, d->slotcount,
         !!(d->flags & JANET_FUNCDEF_FLAG_VARARG), !!(d->flags & JANET_FUNCDEF_FLAG_STRUCTARG));
    for (int32_t i = 0; i < d->bytecode_length; i++) sb_f(b, " %x", d->bytecode[i]);
    sb_f(b, " consts");
    for (int32_t i = 0; i < d->constants_length; i++) ser_value(b, d->constants[i], 0);
    sb_f(b, " envs");
    for (int32_t i = 0; i < d->environments_length; i++) sb_f(b, " %d", d->environments[i]);
    sb_f(b, " smap");
    if (smap && d->sourcemap) for (int32_t i = 0; i < d->bytecode_length; i++) sb_f(b, " %d:%d", d->sourcemap[i].line, d->sourcemap[i].column);
    sb_f(b, " bitset ");
    if (d->closure_bitset) { for (int32_t i = 0; i < d->slotcount; i++) sb_put(b, (d->closure_bitset[i >> 5] >> (i & 31)) & 1 ? "1" : "0", 1); if (d->slotcount == 0) sb_put(b, "e", 1); }
    else sb_put(b, "-", 1);
    sb_f(b, " defs");
    for (int32_t i = 0; i < d->defs_length; i++) ser_def(b, d->defs[i], smap);
    sb_f(b, " }");
}

static Janet macex_fn;

static void do_case(const char *id, const char *src, size_t len, JanetTable *core) {
    JanetTable *env = janet_table(8);
    env->proto = core;
    janet_def(env, "emit", janet_wrap_cfunction(cf_emit), NULL);
    janet_def(env, "RES", janet_wrap_cfunction(cf_res), NULL);
    JanetParser parser;
    janet_parser_init(&parser);
    for (size_t i = 0; i < len; i++) janet_parser_consume(&parser, (uint8_t)src[i]);
    janet_parser_eof(&parser);
    int nforms = 0;
    Janet form = janet_wrap_nil();
    while (janet_parser_has_more(&parser)) { Janet f = janet_parser_produce(&parser); if (nforms == 0) form = f; nforms++; }
    if (janet_parser_status(&parser) == JANET_PARSE_ERROR || nforms != 1) { printf("skip %s forms=%d\n", id, nforms); janet_parser_deinit(&parser); return; }
    janet_gcroot(form);
    int lock = janet_gclock();
    Janet expanded = janet_wrap_nil();
    JanetFiber *fib = janet_fiber(janet_unwrap_function(macex_fn), 64, 1, &form);
    fib->env = env;
    JanetSignal sig = janet_continue(fib, janet_wrap_nil(), &expanded);
    if (sig != JANET_SIGNAL_OK) { printf("skip %s macex-error\n", id); goto done; }
    c02_raw = 1;
    JanetCompileResult r = janet_compile(expanded, env, janet_cstring("prog"));
    if (r.status != JANET_COMPILE_OK) { printf("skip %s compile-error %s\n", id, (const char *)r.error); goto done; }
    {
        SB f = {0}, a = {0}, o = {0};
        ser_form(&f, expanded, 0);
        ser_def(&a, r.funcdef, 1);
        printf("comp %s%s\n", id, f.p);
        printf("real %s%s\n", id, a.p);
        /* the unexpanded form must compile to the same words (source map excluded: a macro call's own position) */
        JanetTable *env2 = janet_table(8);
        env2->proto = core;
        janet_def(env2, "emit", janet_wrap_cfunction(cf_emit), NULL);
        janet_def(env2, "RES", janet_wrap_cfunction(cf_res), NULL);
        JanetCompileResult r2 = janet_compile(form, env2, janet_cstring("prog"));
        int same = 0;
        if (r2.status == JANET_COMPILE_OK) {
            SB x = {0}, y = {0};
            ser_def(&x, r.funcdef, 0);
            ser_def(&y, r2.funcdef, 0);
            same = x.n == y.n && !memcmp(x.p, y.p, x.n);
            free(x.p); free(y.p);
        }
        printf("same %s %d\n", id, same);
        free(f.p); free(a.p); free(o.p);
    }
done:
    janet_gcunlock(lock);
    janet_gcunroot(form);
    janet_parser_deinit(&parser);
}

int main(int argc, char **argv) {
    if (argc < 2) return 2;
    janet_init();
    JanetTable *core = janet_core_env(NULL);
    janet_gcroot(janet_wrap_table(core));
    names = janet_table(1024);
    janet_gcroot(janet_wrap_table(names));
    for (int32_t i = 0; i < core->capacity; i++) {
        JanetKV *kv = core->data + i;
        if (!janet_checktype(kv->key, JANET_SYMBOL) || !janet_checktype(kv->value, JANET_TABLE)) continue;
        JanetTable *ent = janet_unwrap_table(kv->value);
        Janet v = janet_table_get(ent, janet_ckeywordv("value"));
        if (janet_checktype(v, JANET_FUNCTION) || janet_checktype(v, JANET_CFUNCTION)) janet_table_put(names, v, kv->key);
    }
    janet_table_put(names, janet_wrap_cfunction(cf_emit), janet_csymbolv("emit"));
    janet_table_put(names, janet_wrap_cfunction(cf_res), janet_csymbolv("RES"));
    /* the global environment as the compiler sees it (janet_resolve_ext) */
    for (int32_t i = 0; i < core->capacity; i++) {
        JanetKV *kv = core->data + i;
        if (!janet_checktype(kv->key, JANET_SYMBOL)) continue;
        const uint8_t *sym = janet_unwrap_symbol(kv->key);
        JanetBinding b = janet_resolve_ext(core, sym);
        printf("glob ");
        for (int32_t j = 0; j < janet_string_length(sym); j++) printf("%02x", sym[j]);
        if (b.type == JANET_BINDING_MACRO || b.type == JANET_BINDING_DYNAMIC_MACRO) printf(" m\n");
        else if (b.type == JANET_BINDING_VAR || b.type == JANET_BINDING_DYNAMIC_DEF) printf(" v\n");
        else if (b.type == JANET_BINDING_DEF && janet_checktype(b.value, JANET_CFUNCTION)) printf(" c\n");
        else if (b.type == JANET_BINDING_DEF && janet_checktype(b.value, JANET_FUNCTION)) {
            JanetFuncDef *d = janet_unwrap_function(b.value)->def;
            printf(" f %d %d %d\n", d->min_arity, d->max_arity, (int)(d->flags & JANET_FUNCDEF_FLAG_TAG));
        } else printf(" x\n");
    }
    printf("glob %s c\nglob %s c\n", "656d6974", "524553");   /* emit, RES: defined per case as cfunctions */
    if (janet_resolve(core, janet_csymbol("macex"), &macex_fn) != JANET_BINDING_DEF || !janet_checktype(macex_fn, JANET_FUNCTION)) return 3;
    FILE *f = fopen(argv[1], "rb");
    if (!f) return 2;
    fseek(f, 0, SEEK_END); long sz = ftell(f); fseek(f, 0, SEEK_SET);
    char *text = malloc(sz + 1);
    if (fread(text, 1, sz, f) != (size_t)sz) return 2;
    text[sz] = 0;
    fclose(f);
    char *p = text;
    char id[128] = ""; int e0 = 0; char *start = NULL;
    while (p && *p) {
        char *eol = strchr(p, '\n');
        size_t l = eol ? (size_t)(eol - p) : strlen(p);
        if (l >= 6 && !strncmp(p, "#CASE ", 6)) {
            if (start) do_case(id, start, (size_t)(p - start), core);
            sscanf(p + 6, "%127s %d", id, &e0);
            start = eol ? eol + 1 : p + l;
        }
        p = eol ? eol + 1 : NULL;
    }
    if (start) do_case(id, start, strlen(start), core);
    fflush(stdout);
    janet_deinit();
    return 0;
}
