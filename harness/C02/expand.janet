# C02: macro-expand generated programs with the REAL macros and serialise the core-language forms (with the source
# positions of the user's forms) for the Lean reference semantics Lang/Sem (driver jm_c02, command "sem").
# A macro call form's own position would be lost by macex (its expansion is a fresh, unmapped tuple that the compiler
# attributes to the position of the call); it is kept by wrapping the call as (upscope <call>) carrying that position.
#
# usage: janet expand.janet <casefile>       output:  sem <id> <e0> <nforms> <tokens...>

(def root (table/getproto (make-env)))
(def names @{})
(loop [[k v] :pairs root :when (and (symbol? k) (table? v))]
  (def x (v :value))
  (when (or (function? x) (cfunction? x)) (put names x k)))

(defn macro? [h] (and (symbol? h) (get (get root h) :macro)))

(defn keepmap [old new]
  (def [l c] (tuple/sourcemap old))
  (tuple/setmap new l c))

(var wrap nil)
(defn wrapqq [x]
  (cond
    (and (tuple? x) (= :parens (tuple/type x)) (= 2 (length x)) (= 'unquote (x 0))) (keepmap x (tuple 'unquote (wrap (x 1))))
    (tuple? x) (keepmap x (if (= :parens (tuple/type x)) (tuple ;(map wrapqq x)) (tuple/brackets ;(map wrapqq x))))
    (array? x) (map wrapqq x)
    x))
(set wrap (fn wrap [x]
  (cond
    (and (tuple? x) (= :parens (tuple/type x)) (> (length x) 0))
    (let [h (x 0)]
      (cond
        (= h 'quote) x
        (= h 'quasiquote) (keepmap x (tuple 'quasiquote (wrapqq (get x 1))))
        (let [inner (keepmap x (tuple ;(map wrap x)))
              [l c] (tuple/sourcemap x)]
          (if (and (macro? h) (> l 0)) (tuple/setmap (tuple 'upscope inner) l c) inner))))
    (tuple? x) (keepmap x (tuple/brackets ;(map wrap x)))
    (array? x) (map wrap x)
    (struct? x) (struct ;(mapcat (fn [[k v]] [(wrap k) (wrap v)]) (pairs x)))
    (table? x) (table ;(mapcat (fn [[k v]] [(wrap k) (wrap v)]) (pairs x)))
    x)))

(defn hex [s] (string/join (map |(string/format "%02x" $) (string/bytes s)) ""))

(defn ser [x out]
  (case (type x)
    :nil (array/push out "N")
    :boolean (array/push out (if x "B1" "B0"))
    :number (if (and (= x (math/floor x)) (< (math/abs x) 2147483647))
              (array/push out (string "i" (string/format "%d" x)))
              (let [m (marshal x)] (array/push out (string "r" (hex (string/slice m 1))))))
    :string (array/push out (string "s" (hex x)))
    :symbol (array/push out (string "y" (hex x)))
    :keyword (array/push out (string "k" (hex x)))
    :tuple (do
             (if (= :parens (tuple/type x))
               (let [[l c] (tuple/sourcemap x)] (array/push out "(" (string l) (string c) (string (length x))))
               (array/push out "[" (string (length x))))
             (each y x (ser y out)))
    :array (do (array/push out "A" (string (length x))) (each y x (ser y out)))
    :struct (do (array/push out "S" (string (* 2 (length x)))) (eachp [k v] x (ser k out) (ser v out)))
    :table (do (array/push out "T" (string (* 2 (length x)))) (eachp [k v] x (ser k out) (ser v out)))
    (let [n (get names x)]
      (if n (array/push out (string "c" (hex n))) (array/push out "U")))))

(defn do-case [id e0 src]
  (def p (parser/new))
  (parser/consume p src)
  (parser/eof p)
  (def out @[])
  (var n 0)
  (var ok true)
  (while (parser/has-more p)
    (def form (parser/produce p))
    (def r (protect (macex (wrap form))))
    (if (r 0) (do (ser (r 1) out) (++ n)) (set ok false)))
  (if (and ok (not= :error (parser/status p)))
    (print "sem " id " " e0 " " n " " (string/join out " "))
    (print "skip " id)))

(defn main [_ path]
  (def text (slurp path))
  (var id nil)
  (var e0 0)
  (def cur @"")
  (defn flush-case [] (when id (do-case id e0 (string cur))) (buffer/clear cur))
  (each line (string/split "\n" text)
    (if (string/has-prefix? "#CASE " line)
      (do (flush-case) (def parts (string/split " " line)) (set id (parts 1)) (set e0 (scan-number (parts 2))))
      (do (buffer/push cur line) (buffer/push cur "\n"))))
  (flush-case))
