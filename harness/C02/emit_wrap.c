/* C02 tie (a): the REAL emit.c / regalloc.c on generated slot tuples.  Wrapper TU: includes the two files (so this object
 * replaces emit.o / regalloc.o at link time), builds a fresh function scope per line, constructs JanetSlots, calls the real
 * emitter and prints the emitted instruction words and the allocator state.  The same lines go to the Lean model
 * (jm_c02 "emit ..."), outputs must be identical.
 *
 *   sss <op> <nlive> <wr> <s1> <s2> <s3> | ss <op> <nlive> <wr> <s1> <s2> | s <op> <nlive> <wr> <s1>
 *   ssi <op> <nlive> <wr> <s1> <s2> <imm> | ssu ... <imm> | si <op> <nlive> <wr> <s1> <imm> | su ... | copy <nlive> <dest> <src>
 *   slots: L<index>  U<env>.<index>  K<int> Kn Kt Kf  R<id>
 *   -> w <hex words...> | max <n> temps <n> alloc <regs (without 240..255)...> | consts <n>                              */
#include "regalloc.c"
#include "emit.c"
#include "compile.h"
#include <stdio.h>
#include <string.h>
#include <stdlib.h>

static JanetArray *refs[64];

static JanetSlot mkslot(const char *t, JanetcRegisterAllocator *ra) {
    JanetSlot s = janetc_cslot(janet_wrap_nil());
    if (t[0] == 'L') {
        s.flags = JANET_SLOT_NAMED;
        s.index = atoi(t + 1);
        s.envindex = -1;
        janetc_regalloc_touch(ra, s.index);
    } else if (t[0] == 'U') {
        s.flags = JANET_SLOT_NAMED;
        s.envindex = atoi(t + 1);
        s.index = atoi(strchr(t, '.') + 1);
    } else if (t[0] == 'K') {
        if (t[1] == 'n') s = janetc_cslot(janet_wrap_nil());
        else if (t[1] == 't') s = janetc_cslot(janet_wrap_true());
        else if (t[1] == 'f') s = janetc_cslot(janet_wrap_false());
        else s = janetc_cslot(janet_wrap_number((double)atol(t + 1)));
    } else if (t[0] == 'R') {
        int id = atoi(t + 1) % 64;
        if (!refs[id]) { refs[id] = janet_array(1); janet_array_push(refs[id], janet_wrap_nil()); janet_gcroot(janet_wrap_array(refs[id])); }
        s = janetc_cslot(janet_wrap_array(refs[id]));
        s.flags |= JANET_SLOT_REF | JANET_SLOT_NAMED | JANET_SLOT_MUTABLE | JANET_SLOTTYPE_ANY;
        s.flags &= ~JANET_SLOT_CONSTANT;
    }
    return s;
}

int main(void) {
    janet_init();
    char line[512];
    while (fgets(line, sizeof line, stdin)) {
        char *tok[12]; int n = 0;
        for (char *p = strtok(line, " \n"); p && n < 12; p = strtok(NULL, " \n")) tok[n++] = p;
        if (n == 0) { printf("bad-op\n"); continue; }
        JanetCompiler c;
        memset(&c, 0, sizeof c);
        c.env = janet_table(0);
        c.recursion_guard = JANET_RECURSION_GUARD;
        c.result.status = JANET_COMPILE_OK;
        c.current_mapping.line = -1; c.current_mapping.column = -1;
        JanetScope scope;
        janetc_scope(&scope, &c, JANET_SCOPE_FUNCTION, "f");
        JanetcRegisterAllocator *ra = &c.scope->ra;
        int ok = 1;
        if (!strcmp(tok[0], "copy") && n == 4) {
            int nlive = atoi(tok[1]);
            for (int i = 0; i < nlive; i++) janetc_regalloc_1(ra);
            JanetSlot d = mkslot(tok[2], ra), s = mkslot(tok[3], ra);
            janetc_copy(&c, d, s);
        } else if (n >= 5) {
            int op = atoi(tok[1]), nlive = atoi(tok[2]), wr = atoi(tok[3]);
            for (int i = 0; i < nlive; i++) janetc_regalloc_1(ra);
            JanetSlot s1 = mkslot(tok[4], ra);
            if (!strcmp(tok[0], "s") && n == 5) janetc_emit_s(&c, (uint8_t)op, s1, wr);
            else if (!strcmp(tok[0], "si") && n == 6) janetc_emit_si(&c, (uint8_t)op, s1, (int16_t)atoi(tok[5]), wr);
            else if (!strcmp(tok[0], "su") && n == 6) janetc_emit_su(&c, (uint8_t)op, s1, (uint16_t)atoi(tok[5]), wr);
            else if (!strcmp(tok[0], "ss") && n == 6) { JanetSlot s2 = mkslot(tok[5], ra); janetc_emit_ss(&c, (uint8_t)op, s1, s2, wr); }
            else if (!strcmp(tok[0], "ssi") && n == 7) { JanetSlot s2 = mkslot(tok[5], ra); janetc_emit_ssi(&c, (uint8_t)op, s1, s2, (int8_t)atoi(tok[6]), wr); }
            else if (!strcmp(tok[0], "ssu") && n == 7) { JanetSlot s2 = mkslot(tok[5], ra); janetc_emit_ssu(&c, (uint8_t)op, s1, s2, (uint8_t)atoi(tok[6]), wr); }
            else if (!strcmp(tok[0], "sss") && n == 7) { JanetSlot s2 = mkslot(tok[5], ra); JanetSlot s3 = mkslot(tok[6], ra); janetc_emit_sss(&c, (uint8_t)op, s1, s2, s3, wr); }
            else ok = 0;
        } else ok = 0;
        if (!ok) { printf("bad-op\n"); }
        else {
            printf("w");
            for (int32_t i = 0; i < janet_v_count(c.buffer); i++) printf(" %x", c.buffer[i]);
            printf(" | max %d temps %d alloc", ra->max, ra->regtemps);
            {
                int32_t a = -1, b = -1;
                for (int32_t r = 0; r <= ra->count * 32; r++) {
                    int on = r < ra->count * 32 && (r < 240 || r > 255) && (ra->chunks[r >> 5] & (1u << (r & 31)));
                    if (on) { if (a < 0) a = r; b = r; }
                    else if (a >= 0) { printf(" %d-%d", a, b); a = -1; }
                }
            }
            printf(" | consts %d", janet_v_count(scope.consts));
            if (c.result.status == JANET_COMPILE_ERROR) printf(" | error");
            printf("\n");
        }
        janetc_popscope(&c);
        janet_v_free(c.buffer);
        janet_v_free(c.mapbuffer);
    }
    janet_deinit();
    return 0;
}
