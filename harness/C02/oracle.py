"""C02: program generation, execution on the real implementation, reference interpretation, comparison.

Used by checks/C02.py.  Every random choice derives from the SplitMix64 handed in (program i uses rng.fork("p<i>"))."""
import os
import re
import subprocess
import tempfile
import concurrent.futures as cf

from . import gen, refint
from .ast import flat, size, depth

HERE = os.path.dirname(os.path.abspath(__file__))
RUNNER = os.path.join(HERE, "runner.janet")
FAR_CTX = {"far", "far_tail", "far_upvalue", "edge", "edge1", "edge2"}
LIMIT_PREFIX = "C cannot capture local in closure"


def make_program(rng, i, big=False):
    r = rng.fork("p%d" % i)
    budget = r.range(150, 400) if big else r.range(15, 140)
    g = gen.Gen(r, budget=budget, maxdepth=6 if big else r.range(3, 6), err_rate=r.choice([3, 6, 20, 0]), closures=not r.chance(2, 5))
    st, res = g.program(r.range(3, 9) if big else r.range(1, 6))
    return st, res, sorted(g.features)


def gen_cases(seed_state, lo, hi, big_every, contexts):
    """worker: build programs lo..hi-1; returns list of dict(id, ctx, src, e0, ref, feats, size, depth, text)"""
    from vlib.core import SplitMix64
    rng = SplitMix64(0)
    rng.s = seed_state
    out = []
    for i in range(lo, hi):
        st, res, feats = make_program(rng, i, big=(big_every and i % big_every == 0))
        sz = sum(size(s) for s in st) + size(res)
        dp = max([depth(s) for s in st] + [depth(res)])
        hint = reduce_hint_pattern(st + [res])
        for ctx in contexts:
            src, e0 = gen.embed(ctx, st, res)
            forms = gen.context_forms(ctx, st, res)
            o = refint.run_program(forms)
            out.append({"prog": i, "ctx": ctx, "src": src, "e0": e0, "ref": o, "feats": feats, "size": sz, "depth": dp, "hintpat": hint})
    return out


def gen_boundary_cases(first_id, lo, hi, contexts):
    """worker: the deterministic operand-width-boundary family (gen.boundary_programs) lo..hi-1 as items like gen_cases';
    program ids first_id + index; `boundary` = the family member's name"""
    out = []
    progs = gen.boundary_programs()
    for j in range(lo, min(hi, len(progs))):
        name, st, res = progs[j]
        sz = sum(size(s) for s in st) + size(res)
        dp = max([depth(s) for s in st] + [depth(res)])
        for ctx in contexts:
            src, e0 = gen.embed(ctx, st, res)
            o = refint.run_program(gen.context_forms(ctx, st, res), fuel=2000000)
            out.append({"prog": first_id + j, "ctx": ctx, "src": src, "e0": e0, "ref": o, "feats": ["boundary:" + name.rstrip("0123456789").rstrip("-")], "size": sz, "depth": dp,
                        "hintpat": False, "boundary": name})
    return out


def ref_final(o):
    if o["kind"] == "V":
        return "V " + o["val"]
    if o["kind"] == "X":
        return "X %s %d %d" % (o["val"], o["line"], o["col"])
    return "SKIP " + o["val"]


def run_impl(janet, cases, timeout=300, env=None):
    """cases: list of (id, e0, src).  Returns dict id -> {"trace": [...], "final": str}; ids missing if the process died."""
    fd, path = tempfile.mkstemp(prefix="c02cases-", suffix=".txt", dir="/var/tmp")
    try:
        with os.fdopen(fd, "w") as f:
            for cid, e0, src in cases:
                f.write("#CASE %s %d\n%s" % (cid, e0, src if src.endswith("\n") else src + "\n"))
        try:
            r = subprocess.run([janet, RUNNER, path], stdout=subprocess.PIPE, stderr=subprocess.PIPE, timeout=timeout, env=env, preexec_fn=_limits)
            out, rc, err = r.stdout.decode(errors="replace"), r.returncode, r.stderr.decode(errors="replace")
        except subprocess.TimeoutExpired as e:
            out, rc, err = (e.stdout or b"").decode(errors="replace"), None, "timeout"
    finally:
        os.unlink(path)
    got = {}
    cur = None
    for line in out.splitlines():
        if line.startswith("#BEGIN "):
            cur = line[7:]
            got[cur] = {"trace": [], "final": None}
        elif line.startswith("#END "):
            cur = None
        elif cur is not None:
            if line.startswith("T "):
                got[cur]["trace"].append(line[2:])
            elif got[cur]["final"] is None:
                got[cur]["final"] = line
    return got, rc, err


def _limits():
    import resource
    resource.setrlimit(resource.RLIMIT_AS, (3 << 30, 3 << 30))
    resource.setrlimit(resource.RLIMIT_CPU, (60, 60))


def run_impl_parallel(janet, cases, jobs=16, timeout=30, env=None, chunk=60):
    """Runs the cases in many short-lived janet processes.  A process that hangs / is killed / crashes loses only its
    chunk: the cases without output are re-run one by one (5 s each); a case that still does not complete gets the
    observation final = "DIED rc=<..>" and is compared like any other result (it is a wrong result)."""
    chunks = [cases[i:i + chunk] for i in range(0, len(cases), chunk)]
    got, problems = {}, []

    def one(c, t):
        return run_impl(janet, c, t, env)
    with cf.ThreadPoolExecutor(jobs) as ex:
        retry = []
        for (g, rc, err), ch in zip(ex.map(lambda c: one(c, timeout), chunks), chunks):
            got.update({k: v for k, v in g.items() if v["final"] is not None})
            if rc != 0:
                retry += [c for c in ch if c[0] not in g or g[c[0]]["final"] is None]
        singles = list(ex.map(lambda c: one([c], 5), retry))
        for (g, rc, err), c in zip(singles, retry):
            if c[0] in g and g[c[0]]["final"] is not None:
                got[c[0]] = g[c[0]]
            else:
                tr = g.get(c[0], {}).get("trace", [])
                got[c[0]] = {"trace": tr, "final": "DIED rc=%s" % rc}
                problems.append({"case": c[0], "rc": rc, "stderr": err[-800:]})
    return got, problems


# ---------------------------------------------------------------------- attribution of failures to known root causes
def has_closure(src):
    return "(fn" in src or "(defn" in src


REDUCE_OPS = {"+", "-", "*", "/", "%", "mod", "div", "band", "bor", "bxor", "<", ">", "<=", ">=", "=", "not=", "in", "get", "next", "cmp"}


def reduce_hint_pattern(forms):
    """(set v E) where E contains an n-ary (>=3 operand) inlined reduction reading v in a position that is read after the
    accumulator was first written"""
    from .ast import T, Sym

    def mentions(e, v):
        if isinstance(e, T) and not e.br and e.xs and isinstance(e.xs[0], Sym) and e.xs[0].name in REDUCE_OPS and len(e.xs) >= 4:
            first = 3 if e.xs[0].name in {"+", "-", "*", "/", "%", "mod", "div", "band", "bor", "bxor"} else 2
            for y in e.xs[first:]:
                if y == Sym(v):
                    return True
        if hasattr(e, "xs"):
            return any(mentions(y, v) for y in e.xs)
        return False

    def walk(x):
        if isinstance(x, T) and not x.br and len(x.xs) == 3 and isinstance(x.xs[0], Sym) and isinstance(x.xs[1], Sym):
            h = x.xs[0].name
            if h == "set" and mentions(x.xs[2], x.xs[1].name):
                return True
        if hasattr(x, "xs"):
            return any(walk(y) for y in x.xs)
        return False
    return any(walk(f) for f in forms)


REST_PAT = re.compile(r"\((?:def|var) \[[^\]\n]*& ")


PARAMS_PAT = re.compile(r"\(fn\s+\[p0\s+p1\s+(?:p\d+\s+){238,}")


def attribute(ctx, src):
    """candidate known root causes for a failing (ctx, program), most specific first"""
    sigs = []
    if PARAMS_PAT.search(src):
        sigs.append("params-past-temp-registers")
    if ctx in FAR_CTX and REST_PAT.search(src):
        sigs.append("destructure-rest-far-registers")
    if ctx in FAR_CTX and has_closure(src):
        sigs.append("far-upvalue-index-truncated")
    return sigs
