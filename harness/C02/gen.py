"""C02: typed random generator of janet programs (expression-under-test E = statements + result expression) and the
embedding contexts.  Every random choice comes from the SplitMix64 passed in.

Types: n number, b boolean, s string, k keyword, a array of numbers, t tuple of numbers, d table keyword->number,
f<k> function of k numbers returning a number, fa array of 0-ary closures, x any (serialisable) value.
Programs terminate by construction (loop counters are read-only for the body, recursion templates count down)."""
from .ast import Sym, Kw, T, Lit, Str, S, B, Printer, size, depth

KWS = ["a", "b", "c", "k"]
STRS = ["E:boom", "s1", "hello", "x-y"]


class Scope:
    def __init__(self, parent=None, fn=False, loop=False):
        self.vars = {}       # name -> (type, mutable)
        self.parent = parent
        self.fn = fn
        self.loop = loop

    def all(self):
        out = {}
        s = self
        chain = []
        while s:
            chain.append(s)
            s = s.parent
        for s in reversed(chain):
            out.update(s.vars)
        return out

    def can_break(self):
        s = self
        while s:
            if s.loop:
                return "loop"
            if s.fn:
                return "fn"
            s = s.parent
        return None


class Gen:
    def __init__(self, rng, budget=120, maxdepth=6, err_rate=20, closures=True):
        self.r = rng
        self.budget = budget
        self.maxdepth = maxdepth
        self.counter = 0
        self.err_rate = err_rate      # 1/err_rate of statements may raise
        self.features = set()
        self.closures = closures      # False: no fn / defn / closure anywhere (so the far contexts compile on a tree that rejects far captures)
        self.reserved = set()   # loop counters / recursion names: never shadowed

    # ------------------------------------------------------------------ helpers
    def fresh(self, prefix, sc, noshadow=False):
        if not noshadow and self.r.chance(1, 6):
            cands = [n for n, (t, m) in sc.all().items() if n[0] == prefix[0] and n not in self.reserved and n not in ("a", "m", "b", "k", "kv")]
            if cands:
                self.features.add("shadow")
                return self.r.choice(sorted(cands))
        self.counter += 1
        return "%s%d" % (prefix, self.counter)

    def vars_of(self, sc, ty, mutable=None):
        return sorted(n for n, (t, m) in sc.all().items() if t == ty and (mutable is None or m == mutable))

    def spend(self, n=1):
        self.budget -= n

    def low(self, d):
        return self.budget <= 0 or d >= self.maxdepth

    def lit_n(self):
        r = self.r
        c = r.below(20)
        if c < 12:
            return r.range(-3, 12)
        if c < 15:
            return r.choice([0, 1, 2])
        if c < 17:
            return r.choice([100, 255, 256, 1000])
        if c < 19:
            return r.choice([32767, 32768, -32768, -32769, 40000, 70000])
        return r.choice([1000000, 123456789])

    # ------------------------------------------------------------------ expressions
    def pn(self, sc):
        """order-insensitive numeric expression for table/struct LITERAL entries (janet evaluates those in hash order)"""
        r = self.r
        self.spend()
        vs = self.vars_of(sc, "n")
        c = r.below(4)
        if c == 0 or not vs:
            return self.lit_n()
        if c == 1:
            return S("+", Sym(r.choice(vs)), r.range(0, 5))
        return Sym(r.choice(vs))

    def n(self, sc, d):
        """numeric expression"""
        r = self.r
        self.spend()
        vs = self.vars_of(sc, "n")
        if self.low(d):
            if vs and r.chance(2, 3):
                return Sym(r.choice(vs))
            return self.lit_n()
        c = r.below(34)
        if c < 4:
            return Sym(r.choice(vs)) if vs else self.lit_n()
        if c < 6:
            return self.lit_n()
        if c < 10:
            op = r.choice(["+", "-", "+", "*"])
            if op == "*":
                return S("*", self.n(sc, d + 1), r.range(-2, 3))
            k = 3 if r.chance(1, 6) else 2
            return S(op, *[self.n(sc, d + 1) for _ in range(k)])
        if c < 11:
            return S(r.choice(["mod", "%"]), self.n(sc, d + 1), r.choice([2, 3, 5, 7]))
        if c < 13:
            self.features.add("if")
            return S("if", self.b(sc, d + 1), self.n(sc, d + 1), self.n(sc, d + 1))
        if c < 15:
            self.features.add("do")
            inner = Scope(sc)
            st = self.stmts(inner, d + 1, r.range(1, 2))
            return S("do", *st, self.n(inner, d + 1))
        if c < 16:
            self.features.add("let")
            inner = Scope(sc)
            binds = []
            for _ in range(r.range(1, 2)):
                v = self.n(inner, d + 1)
                nm = self.fresh("x", inner)
                binds += [Sym(nm), v]
                inner.vars[nm] = ("n", False)
            return S("let", B(*binds), self.n(inner, d + 1))
        if c < 19:
            f = self.call(sc, d)
            if f is not None:
                return f
            return self.lit_n()
        if c < 20 and not self.closures:
            return self.lit_n()
        if c < 20:
            self.features.add("iife")
            inner = Scope(sc, fn=True)
            nm = self.fresh("x", inner)
            inner.vars[nm] = ("n", False)
            body = self.fnbody(inner, d + 1)
            return S(S("fn", B(nm), *body), self.n(sc, d + 1))
        if c < 21:
            arrs = self.vars_of(sc, "a") + self.vars_of(sc, "t")
            if arrs:
                return S("length", Sym(r.choice(arrs)))
            return self.lit_n()
        if c < 23:
            arrs = self.vars_of(sc, "a") + self.vars_of(sc, "t")
            if arrs:
                self.features.add("index")
                nm = r.choice(arrs)
                if r.chance(1, 2):
                    return S("get", Sym(nm), r.range(0, 4), 0)
                return S("or", S("get", Sym(nm), self.n(sc, d + 1)), 0)
            ds = self.vars_of(sc, "d")
            if ds:
                return S("get", Sym(r.choice(ds)), Kw(r.choice(KWS)), 0)
            return self.lit_n()
        if c < 24:
            self.features.add("emit-in-expr")
            return S("emit", self.n(sc, d + 1))
        if c < 26:
            ms = [v for v in self.vars_of(sc, "n", True)]
            if ms:
                self.features.add("set-expr")
                return S("set", Sym(r.choice(ms)), self.n(sc, d + 1))
            return self.lit_n()
        if c < 27:
            self.features.add("cond")
            return S("cond", self.b(sc, d + 1), self.n(sc, d + 1), self.b(sc, d + 1), self.n(sc, d + 1), self.n(sc, d + 1))
        if c < 28:
            self.features.add("case")
            return S("case", self.k(sc, d + 1), Kw("a"), self.n(sc, d + 1), Kw("b"), self.n(sc, d + 1), self.n(sc, d + 1))
        if c < 29:
            return S(r.choice(["min", "max"]), self.n(sc, d + 1), self.n(sc, d + 1))
        if c < 30:
            return S(r.choice(["inc", "dec", "math/abs"]), self.n(sc, d + 1))
        if c < 31:
            arrs = self.vars_of(sc, "a")
            if arrs:
                self.features.add("if-let")
                nm = self.fresh("x", sc, noshadow=True)
                inner = Scope(sc)
                inner.vars[nm] = ("n", False)
                return S("if-let", B(nm, S("get", Sym(r.choice(arrs)), r.range(0, 5))), self.n(inner, d + 1), self.n(sc, d + 1))
            return self.lit_n()
        if c < 32:
            self.features.add("and-or-value")
            return S("or", S("and", self.b(sc, d + 1), self.n(sc, d + 1)), self.n(sc, d + 1))
        if c < 33:
            arrs = self.vars_of(sc, "a") + self.vars_of(sc, "t")
            if arrs:
                self.features.add("splice-call")
                return S("+", self.n(sc, d + 1), S("splice", Sym(r.choice(arrs))))
            return self.lit_n()
        self.features.add("when-value")
        return S("or", S("when", self.b(sc, d + 1), self.n(sc, d + 1)), self.n(sc, d + 1))

    def call(self, sc, d):
        r = self.r
        fs = [(n, t) for n, (t, m) in sorted(sc.all().items()) if t in ("f0", "f1", "f2", "fv", "fo", "fk", "fn", "fd")]
        if not fs:
            return None
        nm, t = r.choice(fs)
        self.features.add("call-" + t)
        if t == "f0":
            return S(nm)
        if t == "f1":
            return S(nm, self.n(sc, d + 1))
        if t == "f2":
            if r.chance(1, 6):
                self.features.add("apply")
                return S("apply", nm, B(self.n(sc, d + 1), self.n(sc, d + 1)))
            return S(nm, self.n(sc, d + 1), self.n(sc, d + 1))
        if t == "fv":    # [x & rest]
            return S(nm, *[self.n(sc, d + 1) for _ in range(r.range(1, 4))])
        if t == "fo":    # [x &opt y]
            return S(nm, *[self.n(sc, d + 1) for _ in range(r.range(1, 2))])
        if t == "fk":    # [x &keys {:k k}]
            if r.chance(1, 2):
                return S(nm, self.n(sc, d + 1), Kw("k"), self.n(sc, d + 1))
            return S(nm, self.n(sc, d + 1))
        if t == "fn":    # [x &named k]
            if r.chance(1, 2):
                return S(nm, self.n(sc, d + 1), Kw("k"), self.n(sc, d + 1))
            return S(nm, self.n(sc, d + 1))
        if t == "fd":    # [[p q] z]
            return S(nm, B(self.n(sc, d + 1), self.n(sc, d + 1)), self.n(sc, d + 1))

    def b(self, sc, d):
        r = self.r
        self.spend()
        vs = self.vars_of(sc, "b")
        if self.low(d):
            if vs and r.chance(1, 2):
                return Sym(r.choice(vs))
            return r.choice([True, False, S("<", self.n(sc, d + 1), self.lit_n())])
        c = r.below(16)
        if c < 7:
            op = r.choice(["<", ">", "<=", ">=", "=", "not="])
            return S(op, self.n(sc, d + 1), self.n(sc, d + 1))
        if c < 8:
            return S("not", self.b(sc, d + 1))
        if c < 10:
            self.features.add("and-or")
            return S(r.choice(["and", "or"]), self.b(sc, d + 1), self.b(sc, d + 1))
        if c < 11:
            self.features.add("const-cond")
            return r.choice([True, False, None, 1])
        if c < 12:
            return S(r.choice(["even?", "odd?", "zero?", "pos?", "neg?"]), self.n(sc, d + 1))
        if c < 13:
            return S("nil?", self.x(sc, d + 1))
        if c < 14:
            arrs = self.vars_of(sc, "a")
            if arrs:
                return S("empty?", Sym(r.choice(arrs)))
        if c < 15 and vs:
            return Sym(r.choice(vs))
        return S("<", self.n(sc, d + 1), self.n(sc, d + 1), self.n(sc, d + 1))

    def k(self, sc, d):
        r = self.r
        self.spend()
        vs = self.vars_of(sc, "k")
        if vs and r.chance(1, 2):
            return Sym(r.choice(vs))
        if not self.low(d) and r.chance(1, 4):
            return S("if", self.b(sc, d + 1), Kw(r.choice(KWS)), Kw(r.choice(KWS)))
        return Kw(r.choice(KWS))

    def a(self, sc, d):
        r = self.r
        self.spend()
        vs = self.vars_of(sc, "a")
        if vs and (self.low(d) or r.chance(1, 3)):
            return Sym(r.choice(vs))
        c = r.below(6)
        if c < 2 or self.low(d):
            return Lit("arr", [self.n(sc, d + 1) for _ in range(r.range(0, 3))])
        if c < 3:
            return S("array", *[self.n(sc, d + 1) for _ in range(r.range(0, 3))])
        if c < 4:
            self.features.add("seq")
            inner = Scope(sc, loop=True)
            i = self.fresh("i", inner)
            inner.vars[i] = ("n", False)
            return S("seq", B(i, Kw("range"), B(0, r.range(1, 4))), self.n(inner, d + 1))
        if c < 5 and vs:
            return S("array/slice", Sym(r.choice(vs)))
        return S("array/concat", Lit("arr", []), self.t(sc, d + 1))

    def t(self, sc, d):
        r = self.r
        self.spend()
        vs = self.vars_of(sc, "t")
        if vs and (self.low(d) or r.chance(1, 3)):
            return Sym(r.choice(vs))
        c = r.below(5)
        if c < 2 or self.low(d):
            return B(*[self.n(sc, d + 1) for _ in range(r.range(0, 3))])
        if c < 3:
            return S("tuple", *[self.n(sc, d + 1) for _ in range(r.range(0, 3))])
        if c < 4:
            self.features.add("quasiquote")
            items = []
            for _ in range(r.range(1, 4)):
                cc = r.below(4)
                if cc == 0:
                    items.append(r.range(0, 9))
                elif cc == 1:
                    items.append(S("unquote", self.n(sc, d + 1)))
                elif cc == 2:
                    arrs = self.vars_of(sc, "a") + self.vars_of(sc, "t")
                    if arrs:
                        self.features.add("qq-splice")
                        items.append(S("unquote", S("splice", Sym(r.choice(arrs)))))
                    else:
                        items.append(S("unquote", self.n(sc, d + 1)))
                else:
                    items.append(S("unquote", self.n(sc, d + 1)))
            return S("quasiquote", T(items))
        arrs = self.vars_of(sc, "a")
        if arrs:
            return S("tuple/slice", Sym(r.choice(arrs)))
        return B(self.n(sc, d + 1))

    def dct(self, sc, d):
        r = self.r
        self.spend()
        vs = self.vars_of(sc, "d")
        if vs and r.chance(1, 3):
            return Sym(r.choice(vs))
        ks = KWS[: r.range(1, 3)]
        xs = []
        if r.chance(1, 3):
            for kk in ks:
                xs += [Kw(kk), self.n(sc, d + 1)]
            return S("table", *xs)
        for kk in ks:
            xs += [Kw(kk), self.pn(sc)]
        return Lit("tab", xs)

    def x(self, sc, d):
        """any serialisable value"""
        r = self.r
        c = r.below(14)
        if c < 5:
            return self.n(sc, d)
        if c < 6:
            return self.b(sc, d)
        if c < 7:
            self.spend()
            return Str(r.choice(STRS[1:]))
        if c < 8:
            return self.k(sc, d)
        if c < 10:
            return self.t(sc, d)
        if c < 11:
            return self.a(sc, d)
        if c < 12:
            return self.dct(sc, d)
        if c < 13:
            self.spend()
            self.features.add("struct")
            if r.chance(1, 2):
                return S("struct", Kw("a"), self.n(sc, d + 1), Kw("b"), self.x(sc, d + 2))
            return Lit("stc", [Kw("a"), self.pn(sc), Kw("b"), self.pn(sc)])
        self.spend()
        self.features.add("quote")
        return S("quote", T([Sym("p"), r.range(0, 5), Kw("q"), T([1, Sym("z")], br=r.chance(1, 2))]))

    # ------------------------------------------------------------------ functions
    def fnbody(self, inner, d):
        """statements + numeric result for a function body whose scope `inner` already holds the parameters"""
        r = self.r
        st = self.stmts(inner, d, r.range(0, 2))
        if r.chance(1, 5) and not self.low(d):
            self.features.add("early-return")
            st.append(S("if", self.b(inner, d + 1), S("break", self.n(inner, d + 1))))
        return st + [self.n(inner, d)]

    def deffn(self, sc, d):
        """returns (form, name, type)"""
        r = self.r
        self.spend(3)
        kind = r.choice(["f0", "f1", "f2", "f2", "fv", "fo", "fk", "fn", "fd", "rec", "rec", "tailrec", "counter"])
        nm = self.fresh("f", sc)
        inner = Scope(sc, fn=True)
        self.features.add("fn-" + kind)
        use_defn = r.chance(1, 2)

        def mk(params, body, ty, named=False):
            if use_defn:
                return S("defn", nm, B(*params), *body), nm, ty
            if named or r.chance(1, 3):
                return S("def", nm, S("fn", nm + "_", B(*params), *body)), nm, ty
            return S("def", nm, S("fn", B(*params), *body)), nm, ty
        if kind in ("f0", "f1", "f2"):
            ps = []
            for _ in range(int(kind[1])):
                p = self.fresh("p", inner)
                inner.vars[p] = ("n", False)
                ps.append(p)
            return mk(ps, self.fnbody(inner, d + 1), kind)
        if kind == "fv":
            p, rest = self.fresh("p", inner), self.fresh("r", inner)
            inner.vars[p] = ("n", False)
            inner.vars[rest] = ("t", False)
            return mk([p, "&", rest], self.fnbody(inner, d + 1), "fv")
        if kind == "fo":
            p, q = self.fresh("p", inner), self.fresh("q", inner)
            inner.vars[p] = ("n", False)
            inner.vars[q] = ("n", False)
            body = [S("default", q, self.lit_n())] + self.fnbody(inner, d + 1)
            return mk([p, "&opt", q], body, "fo")
        if kind == "fk":
            p, q = self.fresh("p", inner), self.fresh("q", inner)
            inner.vars[p] = ("n", False)
            body = [S("def", q + "v", S("or", q, 0))]
            inner.vars[q + "v"] = ("n", False)
            body += self.fnbody(inner, d + 1)
            return mk([p, "&keys", Lit("stc", [Kw("k"), Sym(q)])], body, "fk")
        if kind == "fn":
            p = self.fresh("p", inner)
            inner.vars[p] = ("n", False)
            body = [S("def", "kv", S("or", "k", 0))]
            inner.vars["kv"] = ("n", False)
            body += self.fnbody(inner, d + 1)
            return mk([p, "&named", "k"], body, "fn")
        if kind == "fd":
            p, q, z = self.fresh("p", inner), self.fresh("q", inner), self.fresh("z", inner)
            for v in (p, q, z):
                inner.vars[v] = ("n", False)
            return mk([B(p, q), z], self.fnbody(inner, d + 1), "fd")
        if kind in ("rec", "tailrec"):
            # named recursion counting down; exposed as f1 taking a small argument
            nm = self.fresh("f", sc, noshadow=True)
            self.reserved.add(nm)
            n_, acc = self.fresh("n", inner, noshadow=True), self.fresh("c", inner, noshadow=True)
            self.reserved.add(n_)
            inner.vars[n_] = ("n", False)
            if kind == "rec":
                step = self.n(inner, d + 2)
                body = [S("if", S("<=", n_, 0), self.lit_n(), S("+", step, S(nm, S("-", n_, 1))))]
                form = S("defn", nm, B(n_), *body) if use_defn else S("def", nm, S("fn", nm, B(n_), *body))
                wrap = self.fresh("f", sc)
                return S("upscope", form, S("def", wrap, S("fn", B("q_"), S(nm, S("mod", "q_", 5))))), wrap, "f1"
            inner.vars[acc] = ("n", False)
            step = self.n(inner, d + 2)
            body = [S("if", S("<=", n_, 0), acc, S(nm, S("-", n_, 1), S("+", acc, step)))]
            form = S("defn", nm, B(n_, acc), *body) if use_defn else S("def", nm, S("fn", nm, B(n_, acc), *body))
            wrap = self.fresh("f", sc)
            return S("upscope", form, S("def", wrap, S("fn", B("q_"), S(nm, S("mod", "q_", 6), 0)))), wrap, "f1"
        # counter: closure over a mutable variable
        v = self.fresh("v", sc)
        form = S("upscope", S("var", v, self.lit_n()), S("def", nm, S("fn", B(), S("set", v, S("+", v, r.range(1, 3))))))
        sc.vars[v] = ("n", True)
        return form, nm, "f0"

    # ------------------------------------------------------------------ (set v (f .. v ..)) for variadic inlined functions
    def set_selfref(self, sc, d):
        """(set v (op x1 .. xk)) with the target variable itself among the operands, at any position, arity 2..5, for the
        functions the compiler inlines as n-ary reductions / comparison chains (they accumulate into a hinted target)"""
        r = self.r
        self.features.add("set-selfref")
        v = self.fresh("s", sc, noshadow=True)
        self.reserved.add(v)
        out = [S("var", v, self.pn(sc))]
        for _ in range(r.range(1, 3)):
            op = r.choice(["+", "-", "*", "<", ">", "<=", ">=", "=", "not=", "+", "-", "<", ">="])
            k = r.range(2, 5)
            ops = [self.pn(sc) if r.chance(3, 4) else self.lit_n() for _ in range(k)]
            for pos in set([r.below(k)] + ([r.below(k)] if r.chance(1, 3) else [])):
                ops[pos] = Sym(v)
            self.features.add("set-selfref-%s" % ("cmp" if op in ("<", ">", "<=", ">=", "=", "not=") else "arith"))
            out.append(S("set", v, S(op, *ops)))
            out.append(S("emit", v))
            if op in ("<", ">", "<=", ">=", "=", "not="):
                out.append(S("set", v, S("if", v, r.range(1, 9), r.range(-9, 0))))   # back to a number
        return S("upscope", *out)

    # ------------------------------------------------------------------ parameter-list combinations x argument counts
    def sig_calls(self, sc, d):
        """callee with a random combination of required / &opt / & rest | &keys | &named parameters, called (through a tuple, so
        that no compile-time arity check applies) with an argument count between min and max+2, in tail and in non-tail
        position, right after a call that leaves non-nil values above the caller's frame"""
        r = self.r
        self.features.add("sig-calls")
        nreq, nopt = r.range(0, 2), r.range(0, 3)
        tail = r.choice(["none", "rest", "keys", "named", "rest", "keys"])
        self.features.add("sig-%d-%d-%s" % (nreq, nopt, tail))
        tname = self.fresh("f", sc, noshadow=True)
        hname = self.fresh("h", sc, noshadow=True)
        dname = self.fresh("f", sc, noshadow=True)
        c1, c2 = self.fresh("f", sc, noshadow=True), self.fresh("f", sc, noshadow=True)
        for nm in (tname, hname, dname, c1, c2):
            self.reserved.add(nm)
        req = ["rq%d" % i for i in range(nreq)]
        opt = ["op%d" % i for i in range(nopt)]
        params = list(req)
        if opt:
            params += ["&opt"] + opt
        ret = [Sym(x) for x in req + opt]
        if tail == "rest":
            params += ["&", "more"]
            ret.append(Sym("more"))
        elif tail == "keys":
            params += ["&keys", Lit("stc", [Kw("k"), Sym("kk"), Kw("j"), Sym("jj")])]
            ret += [Sym("kk"), Sym("jj")]
        elif tail == "named":
            params += ["&named", "k", "j"]
            ret += [Sym("k"), Sym("j")]
        callee = S("defn", tname, B(*params), B(*ret))
        lo, hi = nreq, nreq + nopt
        nargs = r.range(lo, hi + 2) if r.chance(3, 4) else r.range(max(0, lo - 1), hi + 3)
        args = [r.range(1, 99) for _ in range(min(nargs, hi))]
        extra = nargs - len(args)
        if extra > 0:
            if tail in ("keys", "named"):
                pool = [Kw("k"), r.range(100, 199), Kw("j"), r.range(200, 299), Kw("c"), 7]
                args += pool[:extra]
            else:
                args += [r.range(300, 399) for _ in range(extra)]
        mkcall = lambda: S(S(hname, 0), *args)          # fresh nodes each time: positions are stored on the nodes
        dirty = S("defn", dname, B("&", "xs"), S("length", "xs"))
        dargs = [r.range(10, 90) for _ in range(r.range(3, 7))]
        mkd = lambda: S(dname, *dargs)
        callerT = S("defn", c1, B(), mkd(), mkcall())
        callerN = S("defn", c2, B(), mkd(), S("def", "res_", mkcall()), mkd(), "res_")
        order = [S("emit", S(c1)), S("emit", S(c2))]
        if r.chance(1, 2):
            order.reverse()
        return S("upscope", callee, S("def", hname, S("tuple", tname)), dirty, callerT, callerN, *order)

    # ------------------------------------------------------------------ quasiquote over every container kind
    def qq_template(self, sc, d, depth, indexed_parent=True, force=None, pure=False):
        """template for (quasiquote ...): tuples, bracket tuples, arrays, tables, structs nested, with unquotes (and splices in
        indexed containers) that build runtime values; dictionary entries are order-insensitive (hash order)"""
        r = self.r
        self.spend()
        if depth <= 0 or self.budget < -40:
            c = r.below(5)
            if c == 0:
                return r.range(0, 9)
            if c == 1:
                return Sym(r.choice(["p", "q", "z"]))
            if c == 2:
                return Kw(r.choice(KWS))
            return S("unquote", self.pn(sc) if (pure or not indexed_parent) else (self.n(sc, d + 2) if r.chance(1, 3) else self.pn(sc)))
        kind = force or r.choice(["tup", "tup", "btup", "arr", "arr", "tab", "stc"])
        self.features.add("qq-" + kind)
        if kind in ("tup", "btup", "arr"):
            items = []
            if kind == "tup":
                items.append(Sym(r.choice(["p", "q", "r"])))
            for _ in range(r.range(2, 3)):
                c = r.below(6)
                if force and c >= 3 and r.chance(2, 3):
                    c = 0
                if c < 3 and force:
                    # a nested container that is certainly built at run time
                    items.append(T([Sym(r.choice(["p", "q", "r"])), S("unquote", self.pn(sc)), self.qq_template(sc, d, depth - 2, True, None, pure)]) if r.chance(1, 2)
                                 else self.qq_template(sc, d, max(depth - 1, 1), True, r.choice(["tup", "btup", "arr", "stc"]), pure))
                elif c < 3:
                    items.append(self.qq_template(sc, d, depth - 1, True, None, pure))
                elif c == 3:
                    items.append(S("unquote", self.n(sc, d + 2) if (r.chance(1, 2) and not pure) else self.pn(sc)))
                elif c == 4:
                    arrs = self.vars_of(sc, "a") + self.vars_of(sc, "t")
                    if arrs:
                        self.features.add("qq-splice")
                        items.append(S("unquote", S("splice", Sym(r.choice(arrs)))))
                    else:
                        items.append(r.range(0, 9))
                else:
                    items.append(r.range(0, 9))
            if kind == "tup":
                return T(items)
            if kind == "btup":
                return T(items, br=True)
            return Lit("arr", items)
        xs = []
        for kk in KWS[: r.range(1, 3)]:
            xs += [Kw(kk), self.qq_template(sc, d, depth - 1, False, None, True)]
        return Lit("tab" if kind == "tab" else "stc", xs)

    def qq_statement(self, sc, d):
        """quasiquoted containers in hinted and unhinted positions: (set local ..), (def ..), (var ..), call argument,
        return position of a function"""
        r = self.r
        self.features.add("qq-containers")
        mk = lambda: S("quasiquote", self.qq_template(sc, d, r.range(1, 3), True, r.choice([None, "arr", "tup", "btup", "tab", "stc"])))
        c = r.below(5)
        if c == 0:
            v = self.fresh("u", sc, noshadow=True)
            self.reserved.add(v)
            return S("upscope", S("var", v, r.choice([None, 0])), S("set", v, mk()), S("emit", v))
        if c == 1:
            v = self.fresh("u", sc, noshadow=True)
            self.reserved.add(v)
            return S("upscope", S("def", v, mk()), S("emit", v))
        if c == 2:
            v = self.fresh("u", sc, noshadow=True)
            self.reserved.add(v)
            return S("upscope", S("var", v, mk()), S("set", v, S("tuple", v, mk())), S("emit", v))
        if c == 3:
            return S("emit", mk())
        if not self.closures:
            return S("emit", S("tuple", mk(), mk()))
        return S("emit", S(S("fn", B(), mk())))

    # ------------------------------------------------------------------ nested loops creating closures at every level
    def nested_closure_loops(self, sc, d):
        """2-3 nested loops (while / for / each / loop with one or two bindings / seq); closures are created at every
        nesting level (always in the innermost), capture loop variables and per-iteration defs / vars of EVERY enclosing
        level, mutate captured vars, are stored in one array that lives outside all loops, and are called in later
        iterations as well as after the loops.  Exercises the loop-as-function rewrite of nested loops."""
        r = self.r
        self.features.add("nested-closure-loops")
        G = self.fresh("g", sc, noshadow=True)
        self.reserved.add(G)
        maxlevel = 3 if r.chance(1, 4) else 2
        loop = self._nest(sc, d + 1, G, 1, maxlevel, [], [])
        sc.vars[G] = ("fa", False)
        tail = [S("each", "g_", G, S("emit", S("g_")))]
        if r.chance(1, 3):
            tail.append(S("each", "g_", G, S("emit", S("g_"))))
        return S("upscope", S("def", G, Lit("arr", [])), loop, *tail)

    def _closure(self, scope, d, caps, mcaps):
        r = self.r
        cs = Scope(scope, fn=True)
        body = []
        if mcaps and r.chance(1, 2):
            v = r.choice(mcaps)
            self.features.add("mutate-captured")
            body.append(S("set", v, S("+", v, r.range(1, 3))))
        picks = [Sym(x) for x in caps if r.chance(2, 3)] or [Sym(caps[-1])]
        extra = self.n(cs, d + 2) if r.chance(1, 3) and not self.low(d) else r.range(0, 3)
        body.append(S("+", *picks, *[Sym(v) for v in mcaps if r.chance(1, 2)], extra))
        return S("fn", B(), *body)

    def _nest(self, sc, d, G, level, maxlevel, caps, mcaps):
        r = self.r
        self.spend(4)
        kind = r.choice(["while", "for", "each", "loop", "loop2", "seq"])
        self.features.add("nest-" + kind)
        inner = Scope(sc, loop=True)
        caps = list(caps)
        mcaps = list(mcaps)
        k = 2 if (maxlevel == 3 or r.chance(1, 2)) else 3
        i = self.fresh("i", inner, noshadow=True)
        self.reserved.add(i)
        inner.vars[i] = ("n", False)
        caps.append(i)
        j = None
        if kind == "loop2":
            j = self.fresh("j", inner, noshadow=True)
            self.reserved.add(j)
            inner.vars[j] = ("n", False)
            caps.append(j)
        body = []
        if r.chance(1, 2):
            dn = self.fresh("x", inner, noshadow=True)
            self.reserved.add(dn)
            body.append(S("def", dn, S("+", S("*", i, 10), r.range(0, 5))))
            inner.vars[dn] = ("n", False)
            caps.append(dn)
        if r.chance(1, 2):
            vn = self.fresh("v", inner, noshadow=True)
            self.reserved.add(vn)
            body.append(S("var", vn, S("+", i, r.choice([100, 200, 1000]))))
            inner.vars[vn] = ("n", True)
            mcaps.append(vn)
        if r.chance(1, 3):
            body.append(S("each", "g_", G, S("emit", S("g_"))))          # closures of earlier iterations, called later
        if level < maxlevel and r.chance(1, 2):
            body.append(S("array/push", G, self._closure(inner, d, caps, mcaps)))
        if level < maxlevel and not (kind == "loop2" and level + 1 >= maxlevel and r.chance(1, 2)):
            body.append(self._nest(inner, d + 1, G, level + (2 if kind == "loop2" else 1), maxlevel, caps, mcaps))
        else:
            body.append(S("array/push", G, self._closure(inner, d, caps, mcaps)))
        if r.chance(1, 4):
            body.append(S("emit", Sym(r.choice(caps))))
        if r.chance(1, 5):
            self.features.add("break")
            body.append(S("if", S(">", i, r.range(0, 2)), S("break")))
        if kind == "while":
            cnt = self.fresh("w", sc, noshadow=True)
            self.reserved.add(cnt)
            return S("upscope", S("var", cnt, 0), S("while", S("<", cnt, k), S("def", i, S("+", cnt, r.range(0, 4))), *body, S("++", cnt)))
        if kind == "for":
            return S("for", i, 0, k, *body)
        if kind == "each":
            return S("each", i, B(*[r.range(1, 9) for _ in range(k)]), *body)
        if kind == "loop":
            return S("loop", B(i, Kw("range"), B(0, k)), *body)
        if kind == "loop2":
            return S("loop", B(i, Kw("range"), B(0, k), j, Kw("in"), B(*[r.range(10, 40) for _ in range(2)])), *body)
        return S("seq", B(i, Kw("range"), B(0, k)), *body, i)

    # ------------------------------------------------------------------ closures escaping from nested non-loop scopes
    ESC_KINDS = ["do", "if-do", "when", "unless", "let", "if-let", "cond", "if-else", "upscope-do"]

    def escaping_closures(self, sc, d):
        """2-4 nested NON-loop scopes (do / if-do / when / unless / let / if-let / cond branch / else branch, upscope mixed in);
        locals (def and var) are defined at every level; closures created at depth >= 2 capture them (read, or count on a
        captured var) and escape: pushed to an array that lives outside, assigned to an outer var, or returned as the value
        of the nested scopes; optionally the whole thing is the body of a function that returns the closures.  AFTER the inner
        scopes have closed the enclosing scope defines 1-4 further locals (def / var / destructured / built from nested calls
        that need temporaries); the closures are called afterwards (twice: counters) and the later locals are observed and
        mutated.  A captured local's register must stay reserved for as long as the function that owns it compiles."""
        r = self.r
        self.features.add("escaping-closures")
        G = self.fresh("g", sc, noshadow=True)
        self.reserved.add(G)
        store = r.choice(["array", "array", "array", "var", "var", "value"])
        self.features.add("esc-store-" + store)
        maker = r.chance(1, 4)
        home = sc
        caps0 = []
        if maker:
            self.features.add("esc-returned-from-fn")
            home = Scope(sc, fn=True)
            p = self.fresh("p", home, noshadow=True)
            self.reserved.add(p)
            home.vars[p] = ("n", False)
            caps0 = [(p, 0, False)]
        levels = r.range(2, 4)
        self.features.add("esc-levels-%d" % levels)
        body = []
        if store == "array":
            body.append(S("def", G, Lit("arr", [])))
        elif store == "var":
            body.append(S("var", G, None))
        if r.chance(1, 3):          # a local of the enclosing scope defined BEFORE the nest (keeps its register throughout)
            nm = self.fresh("x", home, noshadow=True)
            self.reserved.add(nm)
            body.append(S("def", nm, self.pn(home)))
            home.vars[nm] = ("n", False)
            caps0.append((nm, 0, False))
        nest = self._esc_level(home, d + 1, G, store, 1, levels, 0, caps0)
        body.append(S("def", G, nest) if store == "value" else nest)
        calls = self._esc_calls(G, store)
        body += self._esc_later(home, d, calls, r.range(1, 4))
        if maker:
            later = [Sym(n) for n, (t, m) in home.vars.items() if t == "n" and n not in [c[0] for c in caps0]]
            R = self.fresh("g", sc, noshadow=True)
            self.reserved.add(R)
            mk = self.fresh("f", sc, noshadow=True)
            self.reserved.add(mk)
            body.append(B(G, *later))
            form = S("defn", mk, B(caps0[0][0]), *body) if r.chance(1, 2) else S("def", mk, S("fn", B(caps0[0][0]), *body))
            out = [form, S("def", R, S(mk, r.range(1, 9)))]
            if r.chance(1, 2):      # frames of other calls overwrite the dead frame of the maker
                out.append(S("emit", S("tuple", r.range(10, 20), S("+", "a", r.range(1, 5)), S("-", "m", 1))))
            rcalls = self._esc_calls(None, store, lambda: S(R, 0))
            out += [rcalls(), S("emit", S("tuple/slice", R, 1))]
            if r.chance(1, 2):
                out.append(rcalls())
            return S("upscope", *out)
        return S("upscope", *body)

    def _esc_calls(self, G, store, ge=None):
        """-> function building (fresh nodes each time) the statement that calls every escaped closure and emits the results"""
        ge = ge or (lambda: Sym(G))
        if store == "array":
            return lambda: S("each", "g_", ge(), S("emit", S("g_")))
        return lambda: S("when", ge(), S("emit", S(ge())))

    def _esc_later(self, home, d, calls, k):
        """the locals defined after the nested scopes have closed + calls of the escaped closures + observation"""
        r = self.r
        out = []
        names = []
        for _ in range(k):
            c = r.below(10)
            nm = self.fresh("y", home, noshadow=True)
            self.reserved.add(nm)
            if c < 3:
                out.append(S("def", nm, self.pn(home)))
                home.vars[nm] = ("n", False)
            elif c < 6:
                out.append(S("var", nm, self.pn(home)))
                home.vars[nm] = ("n", True)
            elif c < 8:       # nested calls: temporaries are allocated (and freed) before the local gets its register
                self.features.add("esc-later-temporaries")
                out.append(S(r.choice(["def", "var"]), nm, S("+", S("*", self.pn(home), 2), S("-", self.pn(home), r.range(1, 3)), S("length", B(self.pn(home), self.pn(home))))))
                home.vars[nm] = ("n", out[-1].xs[0].name == "var")
            elif c < 9:
                self.features.add("esc-later-destructure")
                nm2 = self.fresh("y", home, noshadow=True)
                self.reserved.add(nm2)
                out.append(S("def", B(nm, nm2), B(self.pn(home), self.pn(home))))
                home.vars[nm] = ("n", False)
                home.vars[nm2] = ("n", False)
                names.append(nm2)
            else:
                out.append(S("def", nm, self.n(home, d + 1)))
                home.vars[nm] = ("n", False)
            names.append(nm)
            if r.chance(1, 4):
                out.append(calls())
        out.append(calls())
        out.append(S("emit", B(*names)))
        muts = [n for n in names if home.vars[n][1]]
        if muts and r.chance(2, 3):
            # the later local is written, the closures run again (counters), the later locals are read again
            self.features.add("esc-later-mutated")
            v = r.choice(muts)
            out.append(S("set", v, S("+", v, r.range(1, 5))) if r.chance(1, 2) else S("++", v))
            out.append(calls())
            out.append(S("emit", B(*names)))
        elif r.chance(1, 2):
            out.append(calls())
        return out

    def _esc_cond(self, sc, d, want):
        """condition that is (mostly) `want` at run time without being a compile-time constant: `a` is 3 in every context"""
        r = self.r
        if r.chance(1, 5) and not self.low(d):
            return self.b(sc, d + 1)
        if want:
            return r.choice([lambda: S("=", "a", 3), lambda: S("<", "a", r.range(4, 12)), lambda: S(">=", "a", r.range(0, 3)), lambda: S("number?", "a"),
                             lambda: S("<", 0, "a", 5)])()
        return r.choice([lambda: S(">", "a", r.range(3, 9)), lambda: S("=", "a", r.range(4, 9)), lambda: S("<", "a", r.range(-3, 3)), lambda: S("nil?", "a")])()

    def _esc_closure(self, d, caps):
        """0-ary closure over the captured locals: reads them; counts on one of the captured vars"""
        r = self.r
        deep = [c for c in caps if c[1] >= 2]
        must = r.choice(deep)
        body = []
        mdeep = [c for c in caps if c[2]]
        if mdeep and r.chance(2, 3):
            self.features.add("esc-counter")
            v = r.choice([c for c in mdeep if c[1] >= 2] or mdeep)[0]
            body.append(S("set", v, S("+", v, r.range(1, 3))) if r.chance(2, 3) else S("++", v))
        picks = [c[0] for c in caps if c is must or r.chance(1, 2)]
        if len(picks) == 1 and r.chance(1, 2):
            body.append(Sym(picks[0]))
        else:
            body.append(S("+", *picks, r.range(0, 3)))
        self.features.add("esc-capture-depth-%d" % min(must[1], 5))
        return S("fn", B(), *body)

    def _esc_level(self, sc, d, G, store, level, levels, sdepth, caps):
        """one nesting level; sdepth = number of compiler scopes between the enclosing function scope and this level's parent"""
        r = self.r
        self.spend(4)
        kind = r.choice(self.ESC_KINDS)
        self.features.add("esc-" + kind)
        inner = Scope(sc)
        caps = list(caps)
        add = {"do": 1, "if-do": 2, "when": 2, "unless": 2, "let": 1, "if-let": 2, "cond": 2, "if-else": 2, "upscope-do": 1}[kind]
        here = sdepth + add
        body = []
        binds = []

        def local(mut, init=None):
            nm = self.fresh("v" if mut else "x", inner, noshadow=True)
            self.reserved.add(nm)
            inner.vars[nm] = ("n", mut)
            caps.append((nm, here, mut))
            return nm
        if kind == "let":
            for _ in range(r.range(1, 2)):
                v = self.pn(inner) if r.chance(2, 3) else self.n(inner, d + 1)
                binds += [Sym(local(False)), v]
        elif kind == "if-let":
            v = S("get", "b", r.range(0, 2)) if r.chance(1, 2) else self.pn(sc)
            binds = [Sym(local(False)), v]
        innermost = level >= levels
        ndef = r.range(1, 2) if (innermost and not binds) else r.range(0, 2)
        for _ in range(ndef):
            mut = r.chance(1, 2)
            init = self.pn(inner) if r.chance(2, 3) else self.n(inner, d + 1)
            nm = local(mut)
            body.append(S("var" if mut else "def", nm, init))
        if r.chance(1, 4) and not self.low(d):
            body.append(self.stmt(inner, d + 1))
        elif r.chance(1, 4):
            body.append(S("emit", Sym(caps[-1][0]) if caps else self.lit_n()))
        has_deep = any(c[1] >= 2 for c in caps)

        def stored():
            clo = self._esc_closure(d, caps)
            if store == "array":
                return S("array/push", G, clo)
            if store == "var":
                return S("set", G, clo)
            return clo
        if not innermost:
            if store == "array" and has_deep and r.chance(1, 3):
                body.append(stored())
            nxt = self._esc_level(inner, d + 1, G, store, level + 1, levels, here, caps)
            body.append(nxt)
            if store != "value" and r.chance(1, 3):
                # locals of THIS level after the deeper scopes closed, closures called from here
                calls = self._esc_calls(G, store)
                self.features.add("esc-intermediate-later")
                body += self._esc_later(inner, d, calls, r.range(1, 2))
        else:
            body.append(stored())
        # ---- wrap
        if kind == "do":
            return S("do", *body)
        if kind == "upscope-do":
            return S("upscope", S("do", *body))
        if kind == "let":
            return S("let", B(*binds), *body)
        blk = body[0] if len(body) == 1 and r.chance(1, 2) and kind in ("if-let",) else S("do", *body)
        if kind == "if-do":
            els = [] if (store == "value" or r.chance(1, 2)) else [S("emit", self.pn(sc))]
            return S("if", self._esc_cond(sc, d, True), blk, *els)
        if kind == "if-else":
            return S("if", self._esc_cond(sc, d, False), None if store == "value" or r.chance(1, 2) else S("emit", self.pn(sc)), blk)
        if kind == "when":
            return S("when", self._esc_cond(sc, d, True), *body)
        if kind == "unless":
            return S("unless", self._esc_cond(sc, d, False), *body)
        if kind == "if-let":
            els = [] if (store == "value" or r.chance(1, 2)) else [S("emit", self.pn(sc))]
            return S("if-let", B(*binds), blk, *els)
        # cond: the nest is the branch at a random position, earlier conditions are false
        pos = r.range(0, 2)
        xs = []
        for _ in range(pos):
            xs += [self._esc_cond(sc, d, False), None if store == "value" else S("emit", self.pn(sc))]
        xs += [self._esc_cond(sc, d, True), blk]
        if r.chance(1, 2):
            xs.append(None if store == "value" else S("emit", self.pn(sc)))
        return S("cond", *xs)

    # ------------------------------------------------------------------ same-name locals: inner one captured, outer one used afterwards
    SHD_KINDS = ["do", "do", "do-do", "upscope-do", "if-do", "if-else", "when", "unless", "let", "cond", "while", "for", "fn-param"]
    SHD_VALUE_KINDS = ["do", "do", "do-do", "upscope-do", "if-do", "if-else", "let", "cond", "fn-param"]

    def shadowed_captures(self, sc, d):
        """A local X (def or var) of the enclosing scope; then 1-3 nested scopes (do / do in do / upscope+do / if branch /
        else branch / when / unless / let binding / cond branch / while body / for body / function parameter) in which ANOTHER
        local of the same name X is defined (def, var, let binding, parameter; its initialiser may read the enclosing X) and is
        captured by a closure that reads it or counts on it; the closure is called on the spot, or escapes into an array / a var
        that lives outside, or the nest is used as a value in a call whose next argument is X.  AFTER the inner scope has
        closed, X is used again where it means the OUTER local: read, read as a call argument, read inside another closure,
        in an if branch, in a loop body, copied into a later local, assigned (set / ++ / += / set inside a closure) when it
        is a var; intermediate levels that have their own X do the same after the deeper level closed.  Then the escaped
        closures run (they still mean the inner X) and the outer X is observed once more.  A name whose scope has closed must
        not resolve any more, whether or not its register is kept alive for a closure."""
        r = self.r
        self.features.add("shadowed-captures")
        self.spend(6)
        X = self.fresh("x", sc, noshadow=True)
        self.reserved.add(X)
        omut = r.chance(1, 2)
        self.features.add("shd-outer-" + ("var" if omut else "def"))
        out = [S("var" if omut else "def", X, self.pn(sc))]
        sc.vars[X] = ("n", omut)
        store = r.choice(["none", "none", "array", "array", "var", "value"])
        self.features.add("shd-store-" + store)
        G = None
        if store in ("array", "var"):
            G = self.fresh("g", sc, noshadow=True)
            self.reserved.add(G)
            out.append(S("def", G, Lit("arr", [])) if store == "array" else S("var", G, None))
        f0 = None
        if r.chance(1, 4):            # the outer X is captured as well (before the nest)
            self.features.add("shd-outer-captured")
            f0 = self.fresh("f", sc, noshadow=True)
            self.reserved.add(f0)
            out.append(S("def", f0, S("fn", B(), S("+", X, r.range(0, 3)))))
        levels = r.choice([1, 1, 2, 2, 2, 3])
        self.features.add("shd-levels-%d" % levels)
        nest = self._shd_level(sc, d + 1, X, G, store, 1, levels)
        if store == "value":
            # the later read is the next argument of the same call
            out.append(S("emit", S("tuple", nest, Sym(X), *([S("+", X, r.range(1, 5))] if r.chance(1, 2) else []))))
        else:
            out.append(nest)
        out += self._shd_uses(sc, d, X, omut, r.range(1, 3))
        if G is not None:
            calls = self._esc_calls(G, store)
            out.append(calls())
            if r.chance(1, 2):
                out += self._shd_uses(sc, d, X, omut, 1)
                out.append(calls())
        if f0 is not None:
            out.append(S("emit", S(f0)))
        return S("upscope", *out)

    def _shd_closure(self, X, mut):
        """0-ary closure over the (innermost visible) X: reads it; counts on it when it is a var"""
        r = self.r
        body = []
        if mut and r.chance(2, 3):
            self.features.add("shd-counter")
            body.append(S("set", X, S("+", X, r.range(1, 3))) if r.chance(2, 3) else S("++", X))
        c = r.below(3)
        body.append(Sym(X) if c == 0 else S("+", X, r.range(0, 3)) if c == 1 else S("+", X, "a"))
        return S("fn", B(), *body)

    def _shd_uses(self, sc, d, X, mut, k):
        """k uses of X in scope sc (X means sc's own / enclosing local here), each observed through emit"""
        r = self.r
        out = []
        for _ in range(k):
            c = r.below(14 if mut else 9)
            if c == 0:
                self.features.add("shd-use-read")
                out.append(S("emit", Sym(X)))
            elif c == 1:
                self.features.add("shd-use-call-arg")
                out.append(S("emit", S("tuple", r.range(0, 9), Sym(X), S("+", X, r.range(1, 5)))))
            elif c == 2:
                self.features.add("shd-use-in-closure")
                out.append(S("emit", S(S("fn", B(), S("+", X, r.range(0, 3)) if r.chance(1, 2) else Sym(X)))))
            elif c == 3:
                self.features.add("shd-use-in-if-branch")
                want = r.chance(1, 2)
                out.append(S("if", self._esc_cond(sc, d, want), S("emit", S("+", X, 100)), S("emit", S("-", X, 100))))
            elif c == 4:
                self.features.add("shd-use-in-loop-body")
                i = self.fresh("i", sc, noshadow=True)
                self.reserved.add(i)
                out.append(S("for", i, 0, r.range(1, 3), S("emit", S("+", X, i))))
            elif c == 5:
                self.features.add("shd-use-in-loop-body")
                w = self.fresh("w", sc, noshadow=True)
                self.reserved.add(w)
                out.append(S("upscope", S("var", w, 0), S("while", S("<", w, r.range(1, 3)), S("emit", S("*", X, S("+", w, 1))), S("++", w))))
            elif c == 6:
                self.features.add("shd-use-later-local")
                y = self.fresh("y", sc, noshadow=True)
                self.reserved.add(y)
                out.append(S("def", y, Sym(X)) if r.chance(1, 2) else S("var", y, S("+", X, r.range(1, 5))))
                sc.vars[y] = ("n", out[-1].xs[0].name == "var")
                out.append(S("emit", B(y, X)))
            elif c == 7:
                self.features.add("shd-use-in-do")
                out.append(S("do", S("def", "t_", S("*", X, 2)), S("emit", S("+", "t_", X))))
            elif c == 8:
                self.features.add("shd-use-random-expr")
                out.append(S("emit", S("+", X, self.n(sc, d + 1))))
            elif c < 11:
                self.features.add("shd-use-set")
                out.append(S("set", X, S("+", X, r.range(1, 5))))
                out.append(S("emit", Sym(X)))
            elif c == 11:
                self.features.add("shd-use-set")
                out.append(S("++", X) if r.chance(1, 2) else S("+=", X, r.range(2, 5)))
                out.append(S("emit", Sym(X)))
            elif c == 12:
                self.features.add("shd-use-set-in-closure")
                out.append(S(S("fn", B(), S("set", X, S("+", X, r.range(1, 5))))))
                out.append(S("emit", Sym(X)))
            else:
                self.features.add("shd-use-set-in-branch")
                out.append(S("when", self._esc_cond(sc, d, True), S("set", X, S("-", X, r.range(1, 5)))))
                out.append(S("emit", Sym(X)))
        return out

    def _shd_level(self, cur, d, X, G, store, level, levels):
        r = self.r
        self.spend(4)
        value = store == "value"
        innermost = level >= levels
        kind = r.choice(self.SHD_VALUE_KINDS if value else self.SHD_KINDS)
        self.features.add("shd-" + kind)
        inner = Scope(cur, fn=(kind == "fn-param"), loop=kind in ("while", "for"))
        binds_x = kind in ("let", "fn-param")
        defines = innermost or binds_x or r.chance(1, 2)
        emut = cur.all()[X][1]            # the enclosing X
        body = []
        if not binds_x and r.chance(1, 4):
            self.features.add("shd-enclosing-read-before-shadowed")
            body.append(S("emit", Sym(X)))

        def init():
            c = r.below(4)
            if c == 0:
                self.features.add("shd-init-reads-enclosing")
                return S("+", X, r.choice([10, 20, 100]))
            if c == 1:
                self.features.add("shd-init-reads-enclosing")
                return S("*", X, r.range(2, 3))
            if c == 2:
                return self.pn(cur)
            return r.range(20, 99)
        xinit = init() if defines else None
        mut = emut
        if defines:
            mut = (not binds_x) and r.chance(1, 2)
            self.features.add("shd-inner-" + ("binding" if binds_x else "var" if mut else "def"))
            if not binds_x:
                body.append(S("var" if mut else "def", X, xinit))
            inner.vars[X] = ("n", mut)
        if defines or r.chance(1, 3):
            # closure(s) over the innermost visible X
            disp = r.choice(["call", "call", "iife"]) if store in ("none", "value") else r.choice(["escape", "escape", "escape", "call+escape"])
            self.features.add("shd-closure-" + disp)
            if "call" in disp:
                f = self.fresh("f", inner, noshadow=True)
                self.reserved.add(f)
                body.append(S("def", f, self._shd_closure(X, mut)))
                inner.vars[f] = ("f0", False)
                body.append(S("emit", S(f)))
                if mut and r.chance(1, 2):
                    body.append(S("emit", S("tuple", S(f), X)))
            if disp == "iife":
                body.append(S("emit", S(self._shd_closure(X, mut))))
            if "escape" in disp:
                clo = self._shd_closure(X, mut)
                body.append(S("array/push", G, clo) if store == "array" else S("set", G, clo))
        if r.chance(1, 5) and not self.low(d) and kind != "fn-param":
            body.append(self.stmt(inner, d + 1))
        if not innermost:
            body.append(self._shd_level(inner, d + 1, X, G, "none" if value else store, level + 1, levels))
            if defines or r.chance(1, 2):
                # this level's X (or the enclosing one seen through this level) after the deeper scope closed
                self.features.add("shd-intermediate-use")
                body += self._shd_uses(inner, d, X, mut, 1)
        if value:
            c = r.below(3)
            body.append(Sym(X) if c == 0 else S(S("fn", B(), X)) if c == 1 else S("+", X, 1))
        # ---- wrap
        if kind == "do":
            return S("do", *body)
        if kind == "do-do":
            return S("do", S("emit", self.pn(cur)), S("do", *body)) if r.chance(1, 2) else S("do", S("do", *body))
        if kind == "upscope-do":
            return S("upscope", S("do", *body))
        if kind == "let":
            return S("let", B(X, xinit), *body)
        if kind == "fn-param":
            return S(S("fn", B(X), *body), xinit)
        if kind == "while":
            w = self.fresh("w", cur, noshadow=True)
            self.reserved.add(w)
            return S("upscope", S("var", w, 0), S("while", S("<", w, r.range(1, 2)), *body, S("++", w)))
        if kind == "for":
            i = self.fresh("i", cur, noshadow=True)
            self.reserved.add(i)
            return S("for", i, 0, r.range(1, 2), *body)
        blk = S("do", *body)
        if kind == "if-do":
            els = [S("+", X, 1000)] if value else ([] if r.chance(1, 2) else [S("emit", self.pn(cur))])
            return S("if", self._esc_cond(cur, d, True), blk, *els)
        if kind == "if-else":
            return S("if", self._esc_cond(cur, d, False), S("+", X, 1000) if value else None if r.chance(1, 2) else S("emit", self.pn(cur)), blk)
        if kind == "when":
            return S("when", self._esc_cond(cur, d, True), *body)
        if kind == "unless":
            return S("unless", self._esc_cond(cur, d, False), *body)
        # cond: the nest is the branch at a random position, earlier conditions are false
        xs = []
        for _ in range(r.range(0, 2)):
            xs += [self._esc_cond(cur, d, False), S("-", X, 1000) if value else S("emit", self.pn(cur))]
        xs += [self._esc_cond(cur, d, True), blk]
        if r.chance(1, 2):
            xs.append(S("-", X, 2000) if value else S("emit", self.pn(cur)))
        return S("cond", *xs)

    # ------------------------------------------------------------------ statements
    def loop_body(self, inner, d):
        r = self.r
        k = r.range(1, 3)
        at = r.range(0, k) if r.chance(1, 4) else -1
        st = []
        for i in range(k + 1):
            if i == at:
                self.features.add("break")
                st.append(S("if", self.b(inner, d + 1), S("break", *([self.n(inner, d + 1)] if r.chance(1, 4) else []))))
            if i < k:
                st.append(self.stmt(inner, d))
        return st

    def stmts(self, sc, d, k):
        return [self.stmt(sc, d) for _ in range(k)]

    def stmt(self, sc, d):
        r = self.r
        self.spend()
        if self.low(d):
            c = r.below(3)
            if c == 0:
                return S("emit", self.n(sc, d + 1))
            nm = self.fresh("x", sc)
            f = S("def" if c == 1 else "var", nm, self.n(sc, d + 1))
            sc.vars[nm] = ("n", c == 2)
            return f
        c = r.below(48)
        if c == 46:
            if self.closures:
                return self.escaping_closures(sc, d)
            return S("emit", self.x(sc, d + 1))
        if c == 47:
            if self.closures:
                return self.shadowed_captures(sc, d)
            return S("emit", self.x(sc, d + 1))
        if c < 5:
            nm = self.fresh("x", sc)
            mut = r.chance(1, 2)
            f = S("var" if mut else "def", nm, self.n(sc, d + 1))
            sc.vars[nm] = ("n", mut)
            return f
        if c < 7:
            ty = r.choice(["a", "t", "d", "b", "k"])
            nm = self.fresh(ty, sc)
            v = {"a": self.a, "t": self.t, "d": self.dct, "b": self.b, "k": self.k}[ty](sc, d + 1)
            sc.vars[nm] = (ty, False)
            return S("def", nm, v)
        if c < 9:
            self.features.add("destructure")
            cc = r.below(4)
            p, q = self.fresh("x", sc, noshadow=(cc == 2)), self.fresh("y", sc)
            if cc == 0:
                f = S(r.choice(["def", "var"]), B(p, q), B(self.n(sc, d + 1), self.n(sc, d + 1)))
                sc.vars[p] = ("n", f.xs[0].name == "var")
                sc.vars[q] = ("n", f.xs[0].name == "var")
                return f
            if cc == 1:
                f = S("def", Lit("stc", [Kw("a"), Sym(p), Kw("b"), Sym(q)]), S("struct", Kw("a"), self.n(sc, d + 1), Kw("b"), self.n(sc, d + 1)))
                sc.vars[p] = ("n", False)
                sc.vars[q] = ("n", False)
                return f
            if cc == 2:
                self.features.add("destructure-rest")
                f = S("def", B(p, "&", q), self.a(sc, d + 1))
                sc.vars[p + "n"] = ("n", False)
                sc.vars[q] = ("t", False)
                return S("upscope", f, S("def", p + "n", S("or", p, 0)))
            f = S("def", B(p, B(q)), B(self.n(sc, d + 1), B(self.n(sc, d + 1))))
            sc.vars[p] = ("n", False)
            sc.vars[q] = ("n", False)
            return f
        if c < 12:
            ms = self.vars_of(sc, "n", True)
            if ms:
                v = r.choice(ms)
                cc = r.below(4)
                if cc == 0:
                    return S("++", v)
                if cc == 1:
                    return S("+=", v, self.n(sc, d + 1))
                return S("set", v, self.n(sc, d + 1))
            return S("emit", self.n(sc, d + 1))
        if c < 16 and r.chance(1, 2):
            return self.qq_statement(sc, d)
        if c < 16 and r.chance(1, 2):
            return self.set_selfref(sc, d)
        if c < 16 and self.closures and r.chance(1, 2):
            return self.sig_calls(sc, d)
        if c < 16:
            return S("emit", self.x(sc, d + 1))
        if c < 17:
            return S("print", Str(r.choice(["p", "q:"])), self.n(sc, d + 1))
        if c < 19:
            arrs = self.vars_of(sc, "a")
            if arrs:
                self.features.add("array-mutate")
                cc = r.below(3)
                if cc == 0:
                    return S("array/push", Sym(r.choice(arrs)), self.n(sc, d + 1))
                if cc == 1:
                    return S("put", Sym(r.choice(arrs)), r.range(0, 3), self.n(sc, d + 1))
                return S("set", S(Sym(r.choice(arrs)), r.range(0, 3)), self.n(sc, d + 1))
            ds = self.vars_of(sc, "d")
            if ds:
                self.features.add("table-mutate")
                if r.chance(1, 2):
                    return S("put", Sym(r.choice(ds)), Kw(r.choice(KWS)), self.n(sc, d + 1))
                return S("set", S(Sym(r.choice(ds)), Kw(r.choice(KWS))), self.n(sc, d + 1))
            return S("emit", self.n(sc, d + 1))
        if c < 21:
            self.features.add("when")
            inner = Scope(sc)
            return S(r.choice(["when", "unless"]), self.b(sc, d + 1), *self.stmts(inner, d + 1, r.range(1, 2)))
        if c < 23:
            self.features.add("if-stmt")
            return S("if", self.b(sc, d + 1), self.stmt(Scope(sc), d + 1), self.stmt(Scope(sc), d + 1))
        if c < 26:
            self.features.add("while")
            i = self.fresh("w", sc, noshadow=True)
            self.reserved.add(i)
            sc.vars[i] = ("n", False)
            inner = Scope(sc, loop=True)
            body = self.loop_body(inner, d + 1)
            # counter visible (read-only for the generator) after the loop as well
            w = S("while", S("<", i, r.range(1, 4)), *body, S("++", i))
            # reading the counter inside the body: allow through an alias
            return S("upscope", S("var", i, 0), w)
        if c < 29:
            self.features.add("for")
            inner = Scope(sc, loop=True)
            i = self.fresh("i", inner)
            inner.vars[i] = ("n", False)
            return S("for", i, r.range(0, 1), r.range(1, 4), *self.loop_body(inner, d + 1))
        if c < 31:
            self.features.add("each")
            inner = Scope(sc, loop=True)
            e = self.fresh("e", inner)
            inner.vars[e] = ("n", False)
            src = self.a(sc, d + 1) if r.chance(1, 2) else self.t(sc, d + 1)
            return S("each", e, src, *self.loop_body(inner, d + 1))
        if c < 33:
            self.features.add("loop")
            inner = Scope(sc, loop=True)
            i = self.fresh("i", inner)
            inner.vars[i] = ("n", False)
            head = [Sym(i), Kw("range"), B(0, r.range(1, 4))]
            if r.chance(1, 2):
                head += [Kw("when"), self.b(inner, d + 1)]
            if r.chance(1, 3):
                srcv = self.t(inner, d + 1)
                j = self.fresh("j", inner)
                inner.vars[j] = ("n", False)
                head += [Sym(j), Kw("in"), srcv]
            return S("loop", T(head, br=True), *self.loop_body(inner, d + 1))
        if c < 41 and not self.closures:
            return S("emit", self.x(sc, d + 1))
        if c < 38:
            form, nm, ty = self.deffn(sc, d)
            sc.vars[nm] = (ty, False)
            return form
        if c < 40 and r.chance(1, 2):
            return self.nested_closure_loops(sc, d)
        if c < 40:
            # closures created in a loop, each capturing the loop variable and an outer mutable
            self.features.add("closures-in-loop")
            fs = self.fresh("g", sc)
            inner = Scope(sc, loop=True)
            i = self.fresh("i", inner)
            inner.vars[i] = ("n", False)
            kind = r.below(3)
            clo_scope = Scope(inner, fn=True)
            clo = S("fn", B(), *self.fnbody(clo_scope, d + 2))
            if kind == 0:
                loop = S("for", i, 0, r.range(1, 3), S("array/push", fs, clo))
            elif kind == 1:
                loop = S("each", i, B(*[self.lit_n() for _ in range(r.range(1, 3))]), S("def", i + "l", S("*", i, 2)), S("array/push", fs, clo))
            else:
                cnt = self.fresh("w", sc, noshadow=True)
                self.reserved.add(cnt)
                loop = S("upscope", S("var", cnt, 0), S("while", S("<", cnt, r.range(1, 3)), S("def", i, S("+", cnt, 10)),
                                                       S("array/push", fs, clo), S("++", cnt)))
            sc.vars[fs] = ("fa", False)
            return S("upscope", S("def", fs, Lit("arr", [])), loop, S("each", "g_", fs, S("emit", S("g_"))))
        if c < 41:
            fas = self.vars_of(sc, "fa")
            if fas:
                return S("each", "g_", Sym(r.choice(fas)), S("emit", S("g_")))
            return S("emit", self.n(sc, d + 1))
        if c < 43:
            self.features.add("do-stmt")
            inner = Scope(sc)
            return S("do", *self.stmts(inner, d + 1, r.range(1, 3)))
        if c < 44:
            self.features.add("upscope")
            return S("upscope", *self.stmts(sc, d + 1, r.range(1, 2)))
        if c < 46 and self.err_rate and r.chance(3, self.err_rate):
            self.features.add("error")
            cc = r.below(5)
            if cc == 0:
                return S("error", Str("E:boom"))
            if cc == 1:
                return S("if", self.b(sc, d + 1), S("error", Kw("bad")))
            if cc == 2:
                self.features.add("rt-error")
                return S("emit", S("+", self.n(sc, d + 1), Kw("a")))
            if cc == 3:
                self.features.add("rt-error")
                return S("emit", S("in", B(1, 2), self.n(sc, d + 1)))
            return S("when", self.b(sc, d + 1), S("error", B(self.n(sc, d + 1), Kw("t"))))
        cb = sc.can_break()
        if cb == "fn" and r.chance(1, 2):
            self.features.add("early-return")
            return S("if", self.b(sc, d + 1), S("break", self.n(sc, d + 1)))
        return S("emit", self.x(sc, d + 1))

    # ------------------------------------------------------------------ whole expression-under-test
    def program(self, nstmts):
        sc = Scope()
        sc.vars["a"] = ("n", False)
        sc.vars["m"] = ("n", True)
        sc.vars["b"] = ("a", False)
        st = self.stmts(sc, 1, nstmts)
        # result: a tuple observing several things
        obs = [self.n(sc, 2)]
        for ty in ("n", "a", "t", "d", "b", "k"):
            vs = self.vars_of(sc, ty)
            if vs:
                obs.append(Sym(self.r.choice(vs)))
        obs.append(Sym("m"))
        obs.append(Sym("b"))
        res = B(*obs)
        muts = collect_muts(st + [res]) | {"m"}
        st = [hazard_fix(s, muts) for s in st]
        res = hazard_fix(res, muts)
        return st, res


# ---------------------------------------------------------------------- late-read hazard
# janet reads a mutable variable that is used directly as an operand when the operation executes, not when the operand
# is "evaluated": (tuple m (set m 5)) is (5 5) in every context.  The reference semantics snapshots operands left to
# right, so the generator keeps programs out of that corner: an operand whose value may alias a variable's slot and
# that is followed by a sibling operand which may assign variables is wrapped as (+ operand 0).
ASSIGN = {"set", "++", "--", "+=", "-=", "*="}
PURE_HEADS = None


def _pure_heads():
    global PURE_HEADS
    if PURE_HEADS is None:
        from . import refint
        PURE_HEADS = set(refint.PRIMS) | {"RES"}
        PURE_HEADS -= {"apply"}
    return PURE_HEADS


def impure(x):
    if isinstance(x, Lit):
        return any(impure(y) for y in x.xs)
    if not isinstance(x, T):
        return False
    if not x.br and x.xs:
        h = x.xs[0]
        if isinstance(h, Sym):
            if h.name in ASSIGN:
                return True
            if h.name == "quote":
                return False
            if h.name not in _pure_heads() and h.name not in refint_names():
                return True
        else:
            return True
    return any(impure(y) for y in x.xs)


def refint_names():
    from . import refint
    return refint.SPECIALS | refint.MACROS | {"unquote", "splice"}


def aliasing(x, muts):
    """may the value slot of x be a mutable variable's own slot?"""
    if isinstance(x, Sym):
        return x.name in muts
    if isinstance(x, T) and not x.br and x.xs and isinstance(x.xs[0], Sym):
        h = x.xs[0].name
        if h in ASSIGN:
            return True
        if h in ("do", "upscope", "let") and len(x.xs) > 1:
            return aliasing(x.xs[-1], muts)
        if h in ("def", "var"):
            return False
    return False


def snap(x):
    return S("+", x, 0)


DATA_MUT = {"put", "array/push", "array/pop", "array/concat"}


def mutates_data(x):
    """may evaluating x change the CONTENTS of an array / table (a spliced operand is read when the call is made)"""
    if impure(x):
        return True
    if isinstance(x, T) and not x.br and x.xs and isinstance(x.xs[0], Sym) and x.xs[0].name in DATA_MUT:
        return True
    if isinstance(x, (T, Lit)):
        return any(mutates_data(y) for y in x.xs)
    return False


def splice_arg(x):
    """(splice A) or (unquote (splice A)) -> the form holding A, else None"""
    if isinstance(x, T) and not x.br and len(x.xs) == 2 and isinstance(x.xs[0], Sym):
        if x.xs[0].name == "splice":
            return x
        if x.xs[0].name == "unquote":
            return splice_arg(x.xs[1])
    return None


def snap_splice(sp):
    if not (isinstance(sp.xs[1], T) and sp.xs[1].xs and sp.xs[1].xs[0] == Sym("tuple/slice")):
        sp.xs[1] = S("tuple/slice", sp.xs[1])


def fix_operands(ops, muts):
    for i in range(len(ops)):
        if aliasing(ops[i], muts) and any(impure(y) for y in ops[i + 1:]):
            ops[i] = snap(ops[i])
        sp = splice_arg(ops[i])
        if sp is not None and any(mutates_data(y) for y in ops[i + 1:]):
            snap_splice(sp)
    return ops


def hazard_fix(x, muts):
    if isinstance(x, Lit):
        x.xs = fix_operands([hazard_fix(y, muts) for y in x.xs], muts)
        return x
    if not isinstance(x, T):
        return x
    if x.br:
        x.xs = fix_operands([hazard_fix(y, muts) for y in x.xs], muts)
        return x
    if not x.xs:
        return x
    h = x.xs[0]
    if isinstance(h, Sym) and h.name == "quote":
        return x
    if isinstance(h, Sym) and h.name == "quasiquote":
        ops = []

        def walk(q):
            if isinstance(q, T) and not q.br and q.xs and q.xs[0] == Sym("unquote"):
                inner = q.xs[1]
                if isinstance(inner, T) and inner.xs and inner.xs[0] == Sym("splice"):
                    inner.xs[1] = hazard_fix(inner.xs[1], muts)
                    ops.append(q)
                else:
                    q.xs[1] = hazard_fix(inner, muts)
                    ops.append(q)
                return
            if isinstance(q, (T, Lit)):
                for y in q.xs:
                    walk(y)
        walk(x.xs[1])
        for i, q in enumerate(ops):
            sp = splice_arg(q)
            if sp is not None:
                if any(mutates_data(p.xs[1]) for p in ops[i + 1:]):
                    snap_splice(sp)
            elif aliasing(q.xs[1], muts) and any(impure(p.xs[1]) for p in ops[i + 1:]):
                q.xs[1] = snap(q.xs[1])
        return x
    hn = h.name if isinstance(h, Sym) else None
    if hn in ("fn", "defn", "defn-", "varfn"):
        k = 1
        while k < len(x.xs) and not (isinstance(x.xs[k], T) and x.xs[k].br):
            k += 1
        x.xs = x.xs[:k + 1] + [hazard_fix(y, muts) for y in x.xs[k + 1:]]
        return x
    if hn in ("let", "if-let", "when-let", "loop", "seq") and isinstance(x.xs[1], T):
        bt = x.xs[1]
        if hn in ("loop", "seq"):
            bt.xs = [y if isinstance(y, (Sym, Kw)) else hazard_fix(y, muts) for y in bt.xs]
        else:
            bt.xs = [y if i % 2 == 0 else hazard_fix(y, muts) for i, y in enumerate(bt.xs)]
        x.xs = x.xs[:2] + [hazard_fix(y, muts) for y in x.xs[2:]]
        return x
    if hn in ("def", "var", "for", "each", "eachk", "eachp", "default"):
        x.xs = x.xs[:2] + [hazard_fix(y, muts) for y in x.xs[2:]]
        return x
    x.xs = [hazard_fix(y, muts) for y in x.xs]
    if isinstance(h, Sym) and h.name in ("+=", "-=", "*=") and impure(x.xs[2]):
        op = h.name[0]
        return S("set", x.xs[1], S(op, snap(x.xs[1]), x.xs[2]))
    if isinstance(h, Sym) and h.name == "set" and isinstance(x.xs[1], T):
        tgt = x.xs[1]
        ops = fix_operands([tgt.xs[0], tgt.xs[1], x.xs[2]], muts)
        tgt.xs[0], tgt.xs[1] = ops[0], ops[1]
        return x
    if isinstance(h, Sym) and h.name in refint_names():
        return x
    # ordinary application: head + arguments are operands
    x.xs = fix_operands(x.xs, muts)
    return x


def collect_muts(forms):
    out = set()

    def pat(p):
        if isinstance(p, Sym):
            out.add(p.name)
        elif isinstance(p, (T, Lit)):
            for y in p.xs:
                pat(y)

    def walk(x):
        if isinstance(x, (T, Lit)):
            if isinstance(x, T) and not x.br and len(x.xs) >= 3 and x.xs[0] == Sym("var"):
                pat(x.xs[1])
            for y in x.xs:
                walk(y)
    for f in forms:
        walk(f)
    return out


# ---------------------------------------------------------------------- contexts
HDR = "(def a 3) (var m 10) (def b @[1 2 3])"
NFAR = 262
NEDGE = 233


def far_defs(n=NFAR):
    return " ".join("(var l%d %d)" % (i, i) for i in range(n))


def print_block(stmts, pre, res):
    """every statement starts in column 1 on its own line; then one wrapper line `pre`; then the result expression in
    column 1.  Line 1 of the block = first statement.  Fills in positions on the AST nodes."""
    p = Printer()
    for f in stmts:
        p.form(f, 0)
        p.nl(0)
    p.put(pre)
    p.nl(0)
    p.form(res, 0)
    return p.text()


CONTEXTS = ["top", "fn_tail", "fn_used", "fn_dropped", "loop", "far", "far_tail", "upvalue", "far_upvalue", "branch", "arg", "edge", "edge1", "edge2"]

WRAP = {
    # ctx: (head line, pre line, post)
    "top": (HDR, "(RES", ")"),
    "fn_tail": ("(RES ((fn [] " + HDR, "#", ")))"),
    "fn_used": ("(RES ((fn [] " + HDR, "(def r_", ") r_)))"),
    "fn_dropped": ("(RES ((fn [] " + HDR, "#", ":dropped)))"),
    "loop": ("(RES ((fn [] (var res_ nil) (var k_ 0) (while (< k_ 1) " + HDR, "(set res_", ") (++ k_)) res_)))"),
    "far": ("(RES ((fn [] %FAR% " + HDR, "(def r_", ") r_)))"),
    "far_tail": ("(RES ((fn [] %FAR% " + HDR, "#", ")))"),
    "upvalue": ("(RES ((fn [] " + HDR + " ((fn []", "#", ")))))"),
    "far_upvalue": ("(RES ((fn [] " + HDR + " ((fn [] %FAR%", "#", ")))))"),
    "branch": ("(RES ((fn [c_] " + HDR + " (if c_ (do", "#", ") :no)) true))"),
    "arg": ("(RES ((fn [] " + HDR + " (first (tuple (do", "#", ") 1 2)))))"),
    # locals of E straddle the reserved temporaries 0xF0-0xFF and the near/far boundary
    "edge": ("(RES ((fn [] %EDGE% " + HDR, "#", ")))"),
    # 239 / 235 live vars (measured: the counts at which a near/far boundary mutant of janetc_regnear shows most often)
    "edge1": ("(RES ((fn [] %EDGE1% " + HDR, "#", ")))"),
    "edge2": ("(RES ((fn [] %EDGE2% " + HDR, "(def r_", ") r_)))"),
}


def embed(ctx, stmts, res):
    """returns (source text, e0): E starts on line e0+1, so relative line = line - e0 (1-based inside E)."""
    head, pre, post = WRAP[ctx]
    head = head.replace("%FAR%", far_defs()).replace("%EDGE%", far_defs(NEDGE)).replace("%EDGE1%", far_defs(NEDGE + 6)).replace("%EDGE2%", far_defs(NEDGE + 2))
    return head + "\n" + print_block(stmts, pre, res) + "\n" + post + "\n", 1


def context_forms(ctx, stmts, res):
    """the same embedding as an AST for the reference interpreter (positions of E's nodes are kept as assigned by
    print_block: the wrapper nodes get no meaningful position)"""
    hdr = [S("def", "a", 3), S("var", "m", 10), S("def", "b", Lit("arr", [1, 2, 3]))]
    fard = [S("var", "l%d" % i, i) for i in range(NFAR)]
    st = list(stmts)
    if ctx == "top":
        return hdr + st + [S("RES", res)]
    if ctx == "fn_tail":
        return [S("RES", S(S("fn", B(), *hdr, *st, res)))]
    if ctx == "fn_used":
        return [S("RES", S(S("fn", B(), *hdr, *st, S("def", "r_", res), "r_")))]
    if ctx == "fn_dropped":
        return [S("RES", S(S("fn", B(), *hdr, *st, res, ":dropped")))]
    if ctx == "loop":
        return [S("RES", S(S("fn", B(), S("var", "res_", None), S("var", "k_", 0),
                             S("while", S("<", "k_", 1), *hdr, *st, S("set", "res_", res), S("++", "k_")), "res_")))]
    if ctx == "far":
        return [S("RES", S(S("fn", B(), *fard, *hdr, *st, S("def", "r_", res), "r_")))]
    if ctx == "far_tail":
        return [S("RES", S(S("fn", B(), *fard, *hdr, *st, res)))]
    if ctx == "upvalue":
        return [S("RES", S(S("fn", B(), *hdr, S(S("fn", B(), *st, res)))))]
    if ctx == "far_upvalue":
        return [S("RES", S(S("fn", B(), *hdr, S(S("fn", B(), *fard, *st, res)))))]
    if ctx == "branch":
        return [S("RES", S(S("fn", B("c_"), *hdr, S("if", "c_", S("do", *st, res), ":no")), True))]
    if ctx == "arg":
        return [S("RES", S(S("fn", B(), *hdr, S("first", S("tuple", S("do", *st, res), 1, 2)))))]
    if ctx == "edge":
        return [S("RES", S(S("fn", B(), *fard[:NEDGE], *hdr, *st, res)))]
    if ctx == "edge1":
        return [S("RES", S(S("fn", B(), *fard[:NEDGE + 6], *hdr, *st, res)))]
    if ctx == "edge2":
        return [S("RES", S(S("fn", B(), *fard[:NEDGE + 2], *hdr, *st, S("def", "r_", res), "r_")))]
    raise ValueError(ctx)


# ---------------------------------------------------------------------- operand-width boundaries (session 4c)
# Deterministic family: one small program per place where the compiler chooses between an 8-bit / 16-bit / constant
# form by an index, a count or a value, at the values b-1, b, b+1 of every bound b (regenerated bounds:
# tools/gen/compile.py -> Gen/Compile.lean, obligations `operand_bounds_fit_fields*` in Props/C02).
#   destructure()        positional pattern index  i < 0x100   -> GET_INDEX with an 8-bit index, else IN with a constant key
#   janetc_fn            parameter k <-> stack slot k, also past the reserved temporaries 0xF0..0xFF and past 0xFF
#   can_be_imm (cfuns.c) INT8_MIN..INT8_MAX  -> *_IMMEDIATE forms of + - * and of the comparisons
#   janetc_loadconst     INT16_MIN..INT16_MAX -> LOAD_INTEGER, else LOAD_CONSTANT
#   janetc_pushslots     tuple / array / struct / table constructors and calls with 255 / 256 / 257 operands
#   get / in / put       with index 254..257
# Every program is embedded in all contexts (so also behind 262 live locals, where every slot is far) and judged by the
# independent reference interpreter like the random programs.
BOUNDARY_LENGTHS = [255, 256, 257, 258, 300]
BOUNDARY_EDGE = [255, 256, 257]


def _fill(name, n, base=1000):
    """(def <name> @[]) (for i_ 0 n (array/push <name> (+ base i_)))"""
    return [S("def", name, Lit("arr", [])), S("for", "i_", 0, n, S("array/push", name, S("+", base, "i_")))]


def _around(n, prefix="s"):
    idx = sorted({i for i in (0, 1, 238, 239, 240, 241, 253, 254, 255, 256, 257, 258, n - 2, n - 1) if 0 <= i < n})
    return [Sym("%s%d" % (prefix, i)) for i in idx]


def boundary_programs():
    """-> list of (name, stmts, res)"""
    out = []
    for n in BOUNDARY_LENGTHS:
        pat = B(*["s%d" % i for i in range(n)])
        out.append(("destructure-def-%d" % n, _fill("xs", n) + [S("def", pat, "xs")], B(*_around(n))))
        pat = B(*["s%d" % i for i in range(n)])
        out.append(("destructure-var-%d" % n, _fill("xs", n) + [S("var", pat, "xs"), S("set", "s0", S("+", "s0", "s%d" % (n - 1)))],
                    B(S("+", *["s%d" % i for i in range(n)]), *_around(n))))
        pat = B(*["s%d" % i for i in range(n)])
        out.append(("destructure-fnparam-%d" % n, _fill("xs", n), S(S("fn", B(pat), B(*_around(n))), "xs")))
        out.append(("destructure-tuple-rhs-%d" % n, [S("def", B(*["s%d" % i for i in range(n)]), B(*[2000 + i for i in range(n)]))], B(*_around(n))))
    for k in BOUNDARY_EDGE:
        # `& rest` after k positional elements
        pat = B(*(["s%d" % i for i in range(k)] + ["&", "r"]))
        out.append(("destructure-rest-after-%d" % k, _fill("xs", k + 3) + [S("def", pat, "xs")], B("s0", "s%d" % (k - 2), "s%d" % (k - 1), "r")))
        pat = B(*(["s%d" % i for i in range(k)] + ["&", "r"]))
        out.append(("destructure-fnparam-rest-after-%d" % k, _fill("xs", k + 3), S(S("fn", B(pat), B("s0", "s%d" % (k - 1), "r")), "xs")))
        # nested pattern at index k (the element before it and after it are plain symbols)
        pat = B(*(["s%d" % i for i in range(k)] + [B("p", "q"), "z"]))
        out.append(("destructure-nested-at-%d" % k, _fill("xs", k) + [S("array/push", "xs", B(":x", k)), S("array/push", "xs", ":z"), S("def", pat, "xs")],
                    B("s0", "s%d" % (k - 1), "p", "q", "z")))
        pat = B(*(["s%d" % i for i in range(k)] + [Lit("stc", [Kw("k"), Sym("p")]), "z"]))
        out.append(("destructure-nested-struct-at-%d" % k, _fill("xs", k) + [S("array/push", "xs", Lit("stc", [Kw("k"), k])), S("array/push", "xs", ":z"), S("var", pat, "xs")],
                    B("s%d" % (k - 1), "p", "z")))
    # parameters: parameter k is stack slot k, also past the reserved temporaries 0xF0-0xFF and past 8 bits
    for n in (239, 240, 241, 255, 256, 257, 300):
        ps = ["p%d" % i for i in range(n)]
        out.append(("fn-params-%d" % n, [S("def", "f_", S("fn", B(*ps), B(*_around(n, "p"))))], S("f_", *[3000 + i for i in range(n)])))
    for n in (239, 241, 256):
        ps = ["p%d" % i for i in range(n)] + ["&", "r"]
        out.append(("fn-params-rest-%d" % n, [S("def", "f_", S("fn", B(*ps), B("p0", "p%d" % (n - 1), "r")))], S("f_", *[3000 + i for i in range(n + 2)])))
        ps = ["p%d" % i for i in range(n)] + ["&opt", "o1", "o2"]
        out.append(("fn-params-opt-%d" % n, [S("def", "f_", S("fn", B(*ps), B("p0", "p%d" % (n - 1), "o1", "o2")))], S("f_", *[3000 + i for i in range(n + 1)])))
    # 8-bit signed immediates of the arithmetic / comparison forms (m = 10)
    vals = [126, 127, 128, 129, -127, -128, -129, -130, 255, 256, 266, -246, -256]
    obs = []
    for v in vals:
        obs += [S("+", "m", v), S("-", "m", v), S("*", "m", v), S("+", v, "m"), S("<", "m", v), S(">", "m", v), S("=", "m", v), S("not=", "m", v),
                S("<=", "m", v), S(">=", "m", v), S("+", "a", "m", v), S("<", "a", "m", v)]
    out.append(("imm8-arith-compare", [], B(*obs)))
    # 16-bit LOAD_INTEGER vs LOAD_CONSTANT
    ks = [32766, 32767, 32768, 32769, -32767, -32768, -32769, -32770, 65535, 65536, 65537, -65535, -65536, 98304]
    out.append(("imm16-loadconst", [S("def", "k%d" % i, v) for i, v in enumerate(ks)] + [S("var", "acc", 0)] + [S("set", "acc", S("+", "acc", v)) for v in ks],
                B("acc", *(["k%d" % i for i in range(len(ks))] + list(ks) + [S("+", "m", 32767), S("+", "m", 32768), S("<", "m", -32769)]))))
    # constructors / calls with 255, 256, 257 operands (janetc_pushslots: PUSH_3 groups + remainder)
    for n in BOUNDARY_EDGE:
        els = [(Sym("m") if i % 50 == 7 else Sym("a") if i % 50 == 9 else 4000 + i) for i in range(n)]
        peek = [0, 1, 7, 9, 253, 254, n - 2, n - 1]
        out.append(("tuple-literal-%d" % n, [S("def", "t_", B(*els))], B(S("length", "t_"), *[S("in", "t_", i) for i in peek])))
        out.append(("array-literal-%d" % n, [S("def", "t_", Lit("arr", els))], B(S("length", "t_"), *[S("get", "t_", i) for i in peek])))
        kv = []
        for i in range(n):
            kv += [i, els[i]]
        out.append(("struct-literal-%d" % n, [S("def", "t_", Lit("stc", kv))], B(S("length", "t_"), *[S("get", "t_", i) for i in peek + [n]])))
        out.append(("table-literal-%d" % n, [S("def", "t_", Lit("tab", kv))], B(S("length", "t_"), *[S("in", "t_", i) for i in peek])))
        out.append(("call-args-%d" % n, [S("defn", "f_", B("&", "r"), B(S("length", "r"), S("in", "r", 0), S("in", "r", n - 2), S("in", "r", n - 1)))], S("f_", *els)))
        out.append(("add-operands-%d" % n, [], S("+", *els)))
    # get / in / put with an index around 8 bits
    out.append(("index-forms", _fill("xs", 300),
                B(*([S("get", "xs", i) for i in (254, 255, 256, 257)] + [S("in", "xs", i) for i in (254, 255, 256, 257)] + [S("xs", i) for i in (255, 256)]
                    + [S("do", S("put", "xs", 255, ":p"), S("put", "xs", 256, ":q"), B(S("xs", 0), S("xs", 255), S("xs", 256)))]))))
    return out
