"""C02 compile correspondence: generator of programs INSIDE the fragment modelled by lean/JanetModel/Compile/Model.lean
(constants, locals, global functions, do / upscope / if / def / var / set / while / break / fn with symbol parameters and
self name, closures over upvalues, closures created in loops (loop-as-function rewrite), calls and tail calls, bracket
tuple and array literals), embedded in contexts that change the target register / tail flag / number of live locals.
The programs are only COMPILED (real compiler vs model, word for word), never run, so they need not terminate.

Every random choice derives from the SplitMix64 handed in."""

CFUNS = ["emit", "tuple", "array", "string", "type", "array/push", "struct", "table", "keyword", "symbol", "print"]
# janet functions of the core environment without a call-site optimizer: (name, min arity, max arity)
JFUNS = [("identity", 1, 1), ("first", 1, 1), ("last", 1, 1), ("inc", 1, 1), ("dec", 1, 1), ("not", 1, 1), ("nil?", 1, 1)]


class G:
    def __init__(self, rng, closures=True, depth=4):
        self.r = rng
        self.closures = closures
        self.maxdepth = depth
        self.n = 0
        self.feats = set()

    def fresh(self, vis):
        # 1/5: shadow a visible name
        if vis and self.r.chance(1, 5):
            return self.r.choice(vis)[0]
        self.n += 1
        return "v%d" % self.n

    def lit(self):
        k = self.r.below(12)
        self.feats.add("lit")
        if k == 0:
            return "nil"
        if k == 1:
            return self.r.choice(["true", "false"])
        if k <= 4:
            return str(self.r.range(-3, 40))
        if k == 5:
            return str(self.r.choice([32767, 32768, -32768, -32769, 70000, 1000000, -70000]))
        if k == 6:
            return self.r.choice(["1.5", "-0.25", "1e100", "-0.0", "0.0", "3.0"])
        if k == 7:
            return '"%s"' % self.r.choice(["", "a", "hello", "x y"])
        if k == 8:
            return ":" + self.r.choice(["a", "b", "key", "k2"])
        if k == 9:
            return "[]"
        if k == 10:
            return "()"
        return str(self.r.range(0, 9))

    def expr(self, vis, d, infn, inloop):
        """vis: list of (name, mutable) visible, innermost last"""
        r = self.r
        if d >= self.maxdepth:
            k = r.below(3)
        else:
            k = r.below(25)
        if k == 0 or (k == 1 and not vis):
            return self.lit()
        if k == 1 or k == 2:
            if vis:
                self.feats.add("local")
                return r.choice(vis)[0]
            return self.lit()
        if k <= 6:
            self.feats.add("call")
            return self.call(vis, d, infn, inloop)
        if k == 7:
            self.feats.add("do")
            return "(do " + self.body(list(vis), d + 1, infn, inloop, r.range(0, 3)) + ")"
        if k == 8:
            self.feats.add("upscope")
            return "(upscope " + self.body(vis, d + 1, infn, inloop, r.range(1, 2)) + ")"
        if k <= 11:
            self.feats.add("if")
            c = self.expr(vis, d + 1, infn, inloop) if not r.chance(1, 6) else r.choice(["true", "false", "nil", "1", ":k"])
            if r.chance(1, 6):
                self.feats.add("if-const-cond")
            t = self.expr(list(vis), d + 1, infn, inloop)
            if r.chance(2, 3):
                return "(if %s %s %s)" % (c, t, self.expr(list(vis), d + 1, infn, inloop))
            return "(if %s %s)" % (c, t)
        if k == 12 and infn:
            nm = self.fresh(vis)
            self.feats.add("def")
            e = self.expr(vis, d + 1, infn, inloop)
            vis.append((nm, False))
            return "(def %s %s)" % (nm, e)
        if k == 13 and infn:
            nm = self.fresh(vis)
            self.feats.add("var")
            e = self.expr(vis, d + 1, infn, inloop)
            vis.append((nm, True))
            return "(var %s %s)" % (nm, e)
        if k <= 15:
            muts = [v for v in vis if v[1] and all(w[0] != v[0] or w is v for w in vis[vis.index(v):])]
            muts = [v for i, v in enumerate(vis) if v[1] and not any(w[0] == v[0] for w in vis[i + 1:])]
            if muts:
                self.feats.add("set")
                return "(set %s %s)" % (r.choice(muts)[0], self.expr(vis, d + 1, infn, inloop))
            return self.call(vis, d, infn, inloop)
        if k <= 17:
            self.feats.add("while")
            c = self.expr(list(vis), d + 1, infn, True) if not r.chance(1, 8) else r.choice(["true", "false", "nil"])
            return "(while %s %s)" % (c, self.body(list(vis), d + 1, infn, True, r.range(0, 3)))
        if k == 18 and (inloop or infn):
            self.feats.add("break")
            if r.chance(1, 2):
                return "(break)"
            return "(break %s)" % self.expr(vis, d + 1, infn, inloop)
        if k == 19:
            self.feats.add("btup")
            return "[" + " ".join(self.expr(vis, d + 1, infn, inloop) for _ in range(r.range(1, 4))) + "]"
        if k == 20:
            self.feats.add("arr")
            return "@[" + " ".join(self.expr(vis, d + 1, infn, inloop) for _ in range(r.range(0, 4))) + "]"
        if k <= 22 and self.closures:
            return self.fn(vis, d)
        if k == 24 and self.closures and infn and d <= 1 and r.chance(2, 3):
            return self.escape(vis, d, infn, inloop)
        if k == 23 and self.closures and infn and d <= 1 and r.chance(2, 3):
            return self.shadow(vis, d, infn, inloop)
        return self.call(vis, d, infn, inloop)

    def call(self, vis, d, infn, inloop):
        r = self.r
        k = r.below(10)
        if k <= 5:
            h = r.choice(CFUNS)
            n = r.range(0, 5)
        elif k <= 7:
            h, mn, mx = r.choice(JFUNS)
            n = r.range(mn, mx)
        elif k == 8 and vis:
            h = r.choice(vis)[0]
            n = r.range(0, 4)
        else:
            h = self.expr(vis, d + 1, infn, inloop)
            if not h.startswith("(") or h.startswith("()"):
                h = "emit"
            n = r.range(0, 3)
        return "(" + " ".join([h] + [self.expr(vis, d + 1, infn, inloop) for _ in range(n)]) + ")"

    def fn(self, vis, d):
        r = self.r
        self.feats.add("fn")
        inner = list(vis)
        head = ""
        k = r.below(4)
        if k == 0:
            nm = self.fresh(vis)
            head = nm + " "
            self.feats.add("fn-self")
        elif k == 1:
            head = ":nm "
        ps = []
        for _ in range(r.range(0, 3)):
            self.n += 1
            ps.append("p%d" % self.n)
        if head and head != ":nm " and not r.chance(1, 6):
            inner.append((head.strip(), False))
        for p in ps:
            inner.append((p, False))
        if vis:
            self.feats.add("fn-may-capture")
        return "(fn %s[%s] %s)" % (head, " ".join(ps), self.body(inner, d + 1, True, False, r.range(0, 3)))

    def escape(self, vis, d, infn, inloop):
        """closures that escape from 2-4 nested NON-loop scopes (do / if + do / else branch + do / upscope + do), capturing
        defs and vars defined at every level (read, set), stored in an array or a var of the enclosing scope; after the nest
        has closed the enclosing scope defines 1-4 more locals (and evaluates calls that need temporaries), then calls the
        closures and reads the later locals.  The registers of the captured locals must stay reserved up to the function scope,
        so the later locals' registers (every instruction word after the nest) depend on popscope forwarding the pairs."""
        r = self.r
        self.feats.add("escape")

        def new():
            self.n += 1
            return "v%d" % self.n

        def small(v):
            return self.expr(v, self.maxdepth, infn, inloop)

        def val(v):
            return small(v) if r.chance(2, 3) else self.expr(v, max(d + 2, self.maxdepth - 1), infn, inloop)
        g = new()
        store = r.choice(["array", "array", "var"])
        self.feats.add("escape-" + store)
        levels = r.range(2, 4)
        out = ["(def %s @[])" % g if store == "array" else "(var %s nil)" % g]
        vis.append((g, store == "var"))
        call = (lambda: "((first %s))" % g) if store == "array" else (lambda: "(%s)" % g)

        def closure(caps):
            body = []
            for nm, mut in caps:
                if mut and r.chance(1, 2):
                    body.append("(set %s (inc %s))" % (nm, nm))
                elif r.chance(2, 3):
                    body.append(nm)
            body.append(caps[-1][0])
            if r.chance(1, 3):
                body[-1] = "[%s]" % " ".join(c[0] for c in caps)
            return "(fn [] %s)" % " ".join(body)

        def stored(caps):
            return ("(array/push %s %s)" if store == "array" else "(set %s %s)") % (g, closure(caps))

        def later(v, k):
            o = []
            names = []
            for _ in range(k):
                c = r.below(6)
                if c < 4:
                    nm = new()
                    e = val(v)
                    o.append("(%s %s %s)" % ("def" if c < 2 else "var", nm, e))
                    v.append((nm, c >= 2))
                    names.append(nm)
                else:
                    o.append(self.call(v, self.maxdepth - 1, infn, inloop))
            o.append(call())
            if names:
                o.append("[%s]" % " ".join(names) if r.chance(1, 2) else "(tuple %s %s)" % (call(), " ".join(names)))
            return o

        def level(l, v, caps, sdepth):
            kind = r.choice(["do", "if-do", "if-else", "upscope-do", "do-do"])
            self.feats.add("escape-" + kind)
            here = sdepth + (1 if kind in ("do", "upscope-do") else 2)
            v = list(v)
            caps = list(caps)
            b = []
            for _ in range(r.range(1, 2) if l == levels else r.range(0, 2)):
                nm = new()
                mut = r.chance(1, 2)
                b.append("(%s %s %s)" % ("var" if mut else "def", nm, val(v)))
                v.append((nm, mut))
                caps.append((nm, mut))
            if r.chance(1, 4):
                b.append(small(v))
            if l == levels:
                b.append(stored(caps))
            else:
                if caps and here >= 2 and r.chance(1, 3):
                    b.append(stored(caps))
                b.append(level(l + 1, v, caps, here))
                if r.chance(1, 3):
                    b += later(v, r.range(1, 2))
            blk = "(do %s)" % " ".join(b)
            c = val(v) if not r.chance(1, 4) else r.choice(["true", "false", "nil", ":k"])
            if kind == "do":
                return blk
            if kind == "do-do":
                return "(do %s %s)" % (small(v), blk) if r.chance(1, 2) else "(do %s)" % blk
            if kind == "upscope-do":
                return "(upscope %s)" % blk
            if kind == "if-do":
                return "(if %s %s)" % (c, blk) if r.chance(1, 2) else "(if %s %s %s)" % (c, blk, small(v))
            return "(if %s %s %s)" % (c, small(v), blk)
        out.append(level(1, vis, [], 0))
        out += later(vis, r.range(1, 4))
        return "(upscope %s)" % " ".join(out)

    def shadow(self, vis, d, infn, inloop):
        """a local X of the enclosing scope; 1-3 nested scopes (do / do in do / upscope + do / if branch / else branch / while
        body / function parameter) that define ANOTHER local of the same name X (def / var / parameter; the initialiser may
        read the enclosing X) captured by a closure (read, set) which is called on the spot or escapes into an array / var
        outside; after the inner scope has closed X is read again (plain, call argument, tuple, inside another closure, if
        branch, while body, initialiser of a later local) and set when it is a var, where it means the OUTER local.  The
        register / upvalue index of every such use depends on popscope making the closed scope's names invisible, captured or
        not."""
        r = self.r
        self.feats.add("shadow")

        def new():
            self.n += 1
            return "v%d" % self.n

        def small(v):
            return self.expr(v, self.maxdepth, infn, inloop)
        X = new()
        omut = r.chance(1, 2)
        self.feats.add("shadow-outer-" + ("var" if omut else "def"))
        out = ["(%s %s %s)" % ("var" if omut else "def", X, small(vis))]
        vis.append((X, omut))
        store = r.choice(["none", "none", "array", "var"])
        self.feats.add("shadow-store-" + store)
        g = None
        if store != "none":
            g = new()
            out.append("(def %s @[])" % g if store == "array" else "(var %s nil)" % g)
            vis.append((g, store == "var"))
        if r.chance(1, 4):
            self.feats.add("shadow-outer-captured")
            out.append("(fn [] %s)" % X if r.chance(1, 2) else "(emit (fn [] (tuple %s)))" % X)
        levels = r.choice([1, 1, 2, 2, 3])
        self.feats.add("shadow-levels-%d" % levels)

        def closure(mut):
            body = []
            if mut and r.chance(2, 3):
                body.append("(set %s (inc %s))" % (X, X))
            body.append(r.choice([X, "(inc %s)" % X, "[%s]" % X, "(tuple %s a)" % X if any(w[0] == "a" for w in vis) else X]))
            return "(fn [] %s)" % " ".join(body)

        def uses(v, mut, k):
            o = []
            for _ in range(k):
                c = r.below(11 if mut else 8)
                self.feats.add("shadow-use-%d" % c if c < 8 else "shadow-use-set")
                if c == 0:
                    o.append(X)
                elif c == 1:
                    o.append("(emit %s)" % X)
                elif c == 2:
                    o.append("(tuple %s %s (inc %s))" % (small(v), X, X))
                elif c == 3:
                    o.append("((fn [] %s))" % X if r.chance(1, 2) else "(emit (fn [] (inc %s)))" % X)
                elif c == 4:
                    o.append("(if %s (emit %s) (emit [%s]))" % (small(v), X, X))
                elif c == 5:
                    o.append("(while (emit %s) (emit (inc %s)) (break))" % (X, X))
                elif c == 6:
                    nm = new()
                    o.append("(%s %s %s)" % (r.choice(["def", "var"]), nm, r.choice([X, "(inc %s)" % X])))
                    v.append((nm, o[-1].startswith("(var")))
                    o.append("[%s %s]" % (nm, X))
                elif c == 7:
                    o.append("(do (def %s (dec %s)) (emit %s))" % (new(), X, X))
                elif c == 8:
                    o.append("(set %s (inc %s))" % (X, X))
                elif c == 9:
                    o.append("((fn [] (set %s %s)))" % (X, small(v)))
                else:
                    o.append("(if %s (set %s %s))" % (small(v), X, small(v)))
                    o.append("(emit %s)" % X)
            return o

        def level(l, v, emut):
            kind = r.choice(["do", "do", "do-do", "upscope-do", "if-do", "if-else", "while", "fn-param"])
            self.feats.add("shadow-" + kind)
            param = kind == "fn-param"
            defines = l == levels or param or r.chance(1, 2)
            v0 = list(v)             # what the enclosing scope sees (condition, argument)
            v = list(v)
            b = []
            if not param and r.chance(1, 4):
                b.append("(emit %s)" % X)
            init = r.choice(["(inc %s)" % X, "(tuple %s)" % X, small(v), small(v)])
            mut = emut
            if defines:
                mut = (not param) and r.chance(1, 2)
                self.feats.add("shadow-inner-" + ("param" if param else "var" if mut else "def"))
                if not param:
                    b.append("(%s %s %s)" % ("var" if mut else "def", X, init))
                v.append((X, mut))
            if defines or r.chance(1, 3):
                c = r.below(3)
                if store == "none" or c == 0:
                    self.feats.add("shadow-closure-called")
                    if r.chance(1, 2):
                        f = new()
                        b.append("(def %s %s)" % (f, closure(mut)))
                        v.append((f, False))
                        b.append("(emit (%s))" % f)
                    else:
                        b.append("(emit (%s))" % closure(mut))
                if store != "none":
                    self.feats.add("shadow-closure-escapes")
                    b.append(("(array/push %s %s)" if store == "array" else "(set %s %s)") % (g, closure(mut)))
            if r.chance(1, 4):
                b.append(small(v))
            if l < levels:
                b.append(level(l + 1, v, mut))
                if defines or r.chance(1, 2):
                    self.feats.add("shadow-intermediate-use")
                    b += uses(v, mut, 1)
            if r.chance(1, 3):
                b.append(r.choice([X, "((fn [] %s))" % X]))
            blk = "(do %s)" % " ".join(b)
            c = small(v0) if not r.chance(1, 4) else r.choice(["true", "false", "nil", ":k"])
            if kind == "do":
                return blk
            if kind == "do-do":
                return "(do %s %s)" % (small(vis), blk) if r.chance(1, 2) else "(do %s)" % blk
            if kind == "upscope-do":
                return "(upscope %s)" % blk
            if kind == "if-do":
                return "(if %s %s)" % (c, blk) if r.chance(1, 2) else "(if %s %s %s)" % (c, blk, X)
            if kind == "if-else":
                return "(if %s %s %s)" % (c, X, blk)
            if kind == "while":
                return "(while %s %s (break))" % (c, " ".join(b))
            return "((fn [%s] %s) %s)" % (X, " ".join(b), init)
        nest = level(1, vis, omut)
        if r.chance(1, 4):
            self.feats.add("shadow-nest-as-argument")
            out.append("(tuple %s %s)" % (nest, X))
        else:
            out.append(nest)
        out += uses(vis, omut, r.range(1, 3))
        if g is not None:
            out.append("((first %s))" % g if store == "array" else "(%s)" % g)
            if r.chance(1, 2):
                out += uses(vis, omut, 1)
        return "(upscope %s)" % " ".join(out)

    def body(self, vis, d, infn, inloop, n):
        return " ".join(self.expr(vis, d, infn, inloop) for _ in range(n))


CONTEXTS = ["top", "fn_tail", "fn_used", "fn_dropped", "branch", "arg", "loop", "upvalue", "far", "edge"]


def embed(ctx, stmts):
    """stmts: source of the statements (their last one is the value)"""
    live = " ".join("(var l%d %d)" % (i, i) for i in range(262 if ctx == "far" else 235))
    if ctx == "top":
        return "(RES (do %s))" % stmts
    if ctx == "fn_tail":
        return "(RES ((fn [] (def a 3) (var m 10) %s)))" % stmts
    if ctx == "fn_used":
        return "(RES ((fn [] (def a 3) (var m 10) (def r_ (do %s)) r_)))" % stmts
    if ctx == "fn_dropped":
        return "(RES ((fn [] (def a 3) (var m 10) %s :dropped)))" % stmts
    if ctx == "branch":
        return "(RES ((fn [c_] (def a 3) (var m 10) (if c_ (do %s) :no)) true))" % stmts
    if ctx == "arg":
        return "(RES ((fn [] (def a 3) (var m 10) (first (tuple (do %s) 1 2)))))" % stmts
    if ctx == "loop":
        return "(RES ((fn [] (var res_ nil) (var k_ 0) (while (emit k_) (def a 3) (var m 10) (set res_ (do %s)) (set k_ nil)) res_)))" % stmts
    if ctx == "upvalue":
        return "(RES ((fn [] (def a 3) (var m 10) ((fn [] %s)))))" % stmts
    if ctx in ("far", "edge"):
        return "(RES ((fn [] %s (def a 3) (var m 10) %s)))" % (live, stmts)
    raise ValueError(ctx)


def many_params():
    """deterministic family: functions with 239 .. 300 symbol parameters.  From the 241st on the parameter's register is 16 above
    the stack slot its argument arrives in (the allocator skips the temporaries 0xF0-0xFF): `janetc_fn_moveargs` (fix 71c4f8f)
    emits the entry moves, Compile/Model.lean `fnMoveArgs` mirrors them.  -> list of (id, source, feature list)"""
    out = []
    for n in (239, 240, 241, 242, 255, 256, 257, 258, 272, 273, 300):
        ps = " ".join("p%d" % i for i in range(n))
        args = " ".join(str(3000 + i) for i in range(n))
        picks = sorted({0, 1, 238, 239, 240, 241, 254, 255, 256, 257, n - 2, n - 1} & set(range(n)))
        use = " ".join("p%d" % i for i in picks)
        ft = ["params>240" if n > 240 else "params<=240", "params=%d" % n]
        out.append(("pm%d.plain" % n, "(RES ((fn [%s] (tuple %s)) %s))" % (ps, use, args), ft))
        out.append(("pm%d.self" % n, "(RES ((fn self_ [%s] (def a 3) (var m 10) (set m p%d) (tuple m a %s)) %s))" % (ps, n - 1, use, args), ft + ["params-self"]))
        out.append(("pm%d.inner" % n, "(RES ((fn [] (def a 3) (first (tuple ((fn [%s] (if p%d (tuple %s) :no)) %s) a)))))" % (ps, n - 1, use, args), ft))
    return out


def programs(rng, n):
    """-> list of (id, source, feature list); program i appears in every context"""
    out = many_params()
    for i in range(n):
        r = rng.fork("cp%d" % i)
        g = G(r, closures=not r.chance(1, 3), depth=r.range(2, 5))
        for ctx in CONTEXTS:
            gg = G(rng.fork("cp%d" % i), closures=g.closures, depth=g.maxdepth)
            gg.r.next()
            gg.r.next()
            vis = [] if ctx == "top" else [("a", False), ("m", True)]
            infn = True
            stmts = gg.body(vis, 0, infn, False, gg.r.range(1, 5))
            if ctx in ("far", "edge") and (i % 3 != 0 or ("(fn" in stmts)):
                # captures of far registers are (deliberately) rejected by the compiler; keep these contexts closure free
                # (every third program only: the allocator model is slow with > 240 live registers)
                continue
            out.append(("%d.%s" % (i, ctx), embed(ctx, stmts), sorted(gg.feats)))
    return out
