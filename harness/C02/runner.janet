# C02 runner: evaluates generated programs with the real parser / compiler / VM and prints canonical observations.
#
# usage: janet runner.janet <casefile>
# casefile:  records  "#CASE <id> <e0>\n<source text>\n"   (e0 = 1-based line of the record's source at which the
#            expression under test starts; error lines are reported relative to it)
# output per record:
#   #BEGIN <id>
#   T <trace line>            (one per effect, in order: `print` output lines and "E <ser>" for (emit x))
#   V <ser value> | X <ser error> <relline> <col> | C <compile error text>
#   #END <id>

(defn sernum [x]
  (cond
    (= x 0) "0"
    (and (= x (math/floor x)) (<= (math/abs x) 9007199254740992)) (string/format "%.0f" x)
    (let [m (marshal x) out @"R"]
      (for i 1 (length m) (buffer/push out (string/format "%02x" (m i))))
      (string out))))

(defn ser [x &opt d]
  (default d 0)
  (if (> d 8) "..."
    (case (type x)
      :nil "nil"
      :boolean (if x "true" "false")
      :number (sernum x)
      :string (string "\"" x "\"")
      :keyword (string ":" x)
      :symbol (string x)
      :tuple (let [inner (string/join (map |(ser $ (+ d 1)) x) " ")]
               (if (= :brackets (tuple/type x)) (string "[" inner "]") (string "(" inner ")")))
      :array (string "@[" (string/join (map |(ser $ (+ d 1)) x) " ") "]")
      :struct (string "{" (string/join (sort (seq [[k v] :pairs x] (string (ser k (+ d 1)) " " (ser v (+ d 1))))) " ") "}")
      :table (string "@{" (string/join (sort (seq [[k v] :pairs x] (string (ser k (+ d 1)) " " (ser v (+ d 1))))) " ") "}")
      :buffer (string "@\"" x "\"")
      :function "<function>"
      :cfunction "<cfunction>"
      (string "<" (type x) ">"))))

(defn sererr [e]
  (if (and (string? e) (not (string/has-prefix? "E:" e))) "<rt>"
    (if (or (string? e) (keyword? e) (number? e) (nil? e) (boolean? e) (tuple? e) (array? e) (struct? e) (table? e) (symbol? e))
      (ser e)
      "<rt>")))

(defn run-case [id e0 src]
  (def out @"")
  (var result nil)
  (def env (make-env))
  (put env 'emit @{:value (fn emit [x] (buffer/push out "E " (ser x) "\n") x)})
  (put env 'RES @{:value (fn RES [x] (set result x) nil)})
  (put env :out out)
  (put env :err out)
  (def p (parser/new))
  (parser/consume p src)
  (parser/eof p)
  (var final nil)
  (while (and (nil? final) (parser/has-more p))
    (def form (parser/produce p))
    (def res (compile form env "prog"))
    (if (function? res)
      (do
        (def fib (fiber/new res :e env))
        (def r (resume fib))
        (when (= (fiber/status fib) :error)
          (var line -1)
          (var col -1)
          (each fr (debug/stack fib)
            (when (and (= line -1) (not (fr :c)) (fr :source-line))
              (set line (fr :source-line))
              (set col (fr :source-column))))
          (set final (string "X " (sererr r) " " (if (= line -1) -1 (- line e0)) " " col))))
      (set final (string "C " (res :error)))))
  (when (= (parser/status p) :error)
    (set final (string "C parse " (parser/error p))))
  (print "#BEGIN " id)
  (each l (string/split "\n" out)
    (when (not= l "") (print "T " l)))
  (print (or final (string "V " (ser result))))
  (print "#END " id)
  (flush))

(defn main [_ path]
  (def text (slurp path))
  (var id nil)
  (var e0 0)
  (def cur @"")
  (defn flush-case []
    (when id
      (run-case id e0 (string cur)))
    (buffer/clear cur))
  (each line (string/split "\n" text)
    (if (string/has-prefix? "#CASE " line)
      (do
        (flush-case)
        (def parts (string/split " " line))
        (set id (parts 1))
        (set e0 (scan-number (parts 2))))
      (do (buffer/push cur line) (buffer/push cur "\n"))))
  (flush-case))
