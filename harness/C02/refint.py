"""C02: independent reference interpreter (Python) for the generated subset of janet.

It evaluates the SURFACE program (special forms + the core control macros implemented natively, not by expansion)
with lexical, sequential scoping (persistent environments, mutable boxes), and produces the observation
(value | error + position of the raising form, ordered effect trace) in the same canonical text as
harness/C02/runner.janet.  It shares nothing with the Lean side or with janet's compiler."""
import math
import struct
from .ast import Sym, Kw, T, Lit, Str

RT = "<rt>"   # canonical text of any error raised by the runtime (not by `(error x)` in the program)


class JErr(Exception):
    def __init__(self, val, pos=None):
        self.val = val
        self.pos = pos


class Brk(Exception):
    def __init__(self, val):
        self.val = val


class Fuel(Exception):
    pass


class JTuple:
    __slots__ = ("xs", "br")

    def __init__(self, xs, br=False):
        self.xs = tuple(xs)
        self.br = br


class JArray:
    __slots__ = ("xs",)

    def __init__(self, xs):
        self.xs = list(xs)


class JStruct:
    __slots__ = ("d",)

    def __init__(self, pairs):
        self.d = {}
        for k, v in pairs:
            if k is None or v is None:
                continue
            self.d[hk(k)] = (k, v)


class JTable:
    __slots__ = ("d",)

    def __init__(self, pairs=()):
        self.d = {}
        for k, v in pairs:
            tput(self, k, v)


class Closure:
    __slots__ = ("params", "body", "env", "name", "form")

    def __init__(self, params, body, env, name, form):
        self.params, self.body, self.env, self.name, self.form = params, body, env, name, form


class Prim:
    __slots__ = ("name", "fn")

    def __init__(self, name, fn):
        self.name, self.fn = name, fn


def hk(v):
    """hashable identity of a value under janet's `=`"""
    if v is None:
        return ("nil",)
    if v is True or v is False:
        return ("b", v)
    if isinstance(v, float):
        return ("n", v)
    if isinstance(v, str):
        return ("s", v)
    if isinstance(v, Kw):
        return ("k", v.name)
    if isinstance(v, Sym):
        return ("y", v.name)
    if isinstance(v, JTuple):
        return ("t", v.br, tuple(hk(x) for x in v.xs))
    if isinstance(v, JStruct):
        return ("st", tuple(sorted((k, hk(p[1])) for k, p in v.d.items())))
    return ("id", id(v))


def jeq(a, b):
    return hk(a) == hk(b)


def tput(t, k, v):
    if k is None:
        raise JErr(RT)
    if isinstance(k, float) and math.isnan(k):
        raise JErr(RT)
    h = hk(k)
    if v is None:
        t.d.pop(h, None)
    else:
        t.d[h] = (k, v)


def truthy(v):
    return not (v is None or v is False)


def tname(v):
    if v is None:
        return "nil"
    if v is True or v is False:
        return "boolean"
    if isinstance(v, float):
        return "number"
    if isinstance(v, str):
        return "string"
    if isinstance(v, Kw):
        return "keyword"
    if isinstance(v, Sym):
        return "symbol"
    if isinstance(v, JTuple):
        return "tuple"
    if isinstance(v, JArray):
        return "array"
    if isinstance(v, JStruct):
        return "struct"
    if isinstance(v, JTable):
        return "table"
    if isinstance(v, Closure):
        return "function"
    if isinstance(v, Prim):
        return "function" if v.name not in CFUNS else "cfunction"
    raise TypeError(v)


CFUNS = {"array/push", "array/pop", "array/concat", "array/slice", "tuple/slice", "print", "array", "tuple", "table",
         "struct", "string", "type", "tuple/type", "array/peek", "math/abs", "array/new", "keyword", "symbol"}

TYPE_ORDER = {"number": 0, "nil": 1, "boolean": 2, "string": 4, "symbol": 5, "keyword": 6, "array": 7, "tuple": 8,
              "table": 9, "struct": 10, "function": 12, "cfunction": 13}


def jcmp(a, b):
    ta, tb = tname(a), tname(b)
    if ta != tb:
        return -1 if TYPE_ORDER[ta] < TYPE_ORDER[tb] else 1
    if ta == "number":
        return -1 if a < b else (1 if a > b else 0)   # NaN not generated
    if ta == "nil":
        return 0
    if ta == "boolean":
        return (a > b) - (a < b)
    if ta == "string":
        x, y = a.encode(), b.encode()
        return (x > y) - (x < y)
    if ta in ("keyword", "symbol"):
        x, y = a.name.encode(), b.name.encode()
        return (x > y) - (x < y)
    if ta == "tuple":
        if a.br != b.br:
            return -1 if not a.br else 1
        for x, y in zip(a.xs, b.xs):
            c = jcmp(x, y)
            if c:
                return c
        return (len(a.xs) > len(b.xs)) - (len(a.xs) < len(b.xs))
    if a is b:
        return 0
    raise Fuel()  # identity order of reference types is not deterministic: generator must not produce this


def sernum(x):
    if x == 0:
        return "0"
    if x == math.floor(x) and abs(x) <= 9007199254740992.0:
        return "%d" % int(x)
    return "R" + struct.pack("<d", x).hex()


def ser(v, d=0):
    if d > 8:
        return "..."
    if v is None:
        return "nil"
    if v is True:
        return "true"
    if v is False:
        return "false"
    if isinstance(v, float):
        return sernum(v)
    if isinstance(v, str):
        return '"' + v + '"'
    if isinstance(v, Kw):
        return ":" + v.name
    if isinstance(v, Sym):
        return v.name
    if isinstance(v, JTuple):
        inner = " ".join(ser(x, d + 1) for x in v.xs)
        return "[" + inner + "]" if v.br else "(" + inner + ")"
    if isinstance(v, JArray):
        return "@[" + " ".join(ser(x, d + 1) for x in v.xs) + "]"
    if isinstance(v, (JStruct, JTable)):
        items = sorted(ser(k, d + 1) + " " + ser(val, d + 1) for k, val in v.d.values())
        return ("{" if isinstance(v, JStruct) else "@{") + " ".join(items) + "}"
    if isinstance(v, Closure):
        return "<function>"
    if isinstance(v, Prim):
        return "<function>" if v.name not in CFUNS else "<cfunction>"
    raise TypeError(v)


def sererr(v):
    if v is RT:
        return RT
    if isinstance(v, str) and not v.startswith("E:"):
        return RT
    return ser(v)


def tostr(v):
    """janet `string` / `print` rendering of a scalar"""
    if v is None:
        return "nil"   # print prints nil as "nil"; `string` renders nil as ""  (handled by caller)
    if v is True:
        return "true"
    if v is False:
        return "false"
    if isinstance(v, float):
        if v == math.floor(v) and abs(v) < 1e15:
            return "%d" % int(v)
        raise Fuel()
    if isinstance(v, str):
        return v
    if isinstance(v, (Kw, Sym)):
        return v.name
    raise Fuel()   # printing reference types shows addresses: generator must not do it


def num(v):
    if not isinstance(v, float):
        raise JErr(RT)
    return v


def getindex(ds, i):
    """janet_getindex: destructuring of indexed patterns"""
    if isinstance(ds, (JArray, JTuple)):
        return ds.xs[i] if 0 <= i < len(ds.xs) else None
    if isinstance(ds, (JStruct, JTable)):
        p = ds.d.get(hk(float(i)))
        return p[1] if p else None
    if isinstance(ds, str):
        b = ds.encode()
        if 0 <= i < len(b):
            return float(b[i])
        return None
    raise JErr(RT)


def jin(ds, k, dflt=None):
    """janet_in (errors on bad index of indexed types)"""
    if isinstance(ds, (JArray, JTuple)):
        if not isinstance(k, float) or k != math.floor(k) or not (0 <= k < len(ds.xs)):
            raise JErr(RT)
        return ds.xs[int(k)]
    if isinstance(ds, (JStruct, JTable)):
        p = ds.d.get(hk(k))
        return p[1] if p else dflt
    if isinstance(ds, str):
        b = ds.encode()
        if not isinstance(k, float) or k != math.floor(k) or not (0 <= k < len(b)):
            raise JErr(RT)
        return float(b[int(k)])
    raise JErr(RT)


def jget(ds, k, dflt=None):
    if isinstance(ds, (JArray, JTuple)):
        if not isinstance(k, float) or k != math.floor(k) or not (0 <= k < len(ds.xs)):
            return dflt
        return ds.xs[int(k)]
    if isinstance(ds, (JStruct, JTable)):
        p = ds.d.get(hk(k))
        return p[1] if p else dflt
    if isinstance(ds, str):
        b = ds.encode()
        if not isinstance(k, float) or k != math.floor(k) or not (0 <= k < len(b)):
            return dflt
        return float(b[int(k)])
    if isinstance(ds, (Kw, Sym)):
        b = ds.name.encode()
        if not isinstance(k, float) or k != math.floor(k) or not (0 <= k < len(b)):
            return dflt
        return float(b[int(k)])
    return dflt


def jput(ds, k, v):
    if isinstance(ds, JArray):
        if not isinstance(k, float) or k != math.floor(k) or k < 0 or k > 100000:
            raise JErr(RT)
        i = int(k)
        while len(ds.xs) <= i:
            ds.xs.append(None)
        ds.xs[i] = v
        return ds
    if isinstance(ds, JTable):
        tput(ds, k, v)
        return ds
    raise JErr(RT)


def jlength(v):
    if isinstance(v, (JArray, JTuple)):
        return float(len(v.xs))
    if isinstance(v, (JStruct, JTable)):
        return float(len(v.d))
    if isinstance(v, str):
        return float(len(v.encode()))
    if isinstance(v, (Kw, Sym)):
        return float(len(v.name.encode()))
    raise JErr(RT)


def jmod(a, b):
    if b == 0:
        return a
    r = math.fmod(a, b)
    if r != 0 and ((r < 0) != (b < 0)):
        r += b
    return r


def jrem(a, b):
    if b == 0:
        return float("nan")
    return math.fmod(a, b)


def jdiv(a, b):
    if b == 0:
        raise Fuel()
    return float(math.floor(a / b))


def fold(op, unit, one):
    def f(I, args):
        if len(args) == 0:
            return unit
        if len(args) == 1:
            return one(num(args[0]))
        acc = num(args[0])
        for x in args[1:]:
            acc = op(acc, num(x))
        return acc
    return f


def cmpchain(pred):
    def f(I, args):
        for x, y in zip(args, args[1:]):
            if not pred(jcmp(x, y)):
                return False
        return True
    return f


def slice_(I, args, mk):
    if not args or not isinstance(args[0], (JArray, JTuple)):
        raise JErr(RT)
    xs = list(args[0].xs)
    n = len(xs)
    s = 0 if len(args) < 2 or args[1] is None else num(args[1])
    e = n if len(args) < 3 or args[2] is None else num(args[2])
    if s != math.floor(s) or e != math.floor(e):
        raise JErr(RT)
    s, e = int(s), int(e)
    if s < 0:
        s += n + 1
    if e < 0:
        e += n + 1
    if s < 0 or s > n or e < 0 or e > n:
        raise JErr(RT)
    return mk(xs[s:e] if e >= s else [])


def p_eq(I, args):
    return all(jeq(x, y) for x, y in zip(args, args[1:]))


def p_neq(I, args):
    return not p_eq(I, args)


def p_string(I, args):
    return "".join("" if a is None else tostr(a) for a in args)


def p_print(I, args):
    I.trace.append("".join(tostr(a) for a in args))
    return None


def p_emit(I, args):
    if len(args) != 1:
        raise JErr(RT)
    I.trace.append("E " + ser(args[0]))
    return args[0]


def p_push(I, args):
    if not args or not isinstance(args[0], JArray):
        raise JErr(RT)
    args[0].xs.extend(args[1:])
    return args[0]


def p_pop(I, args):
    if len(args) != 1 or not isinstance(args[0], JArray):
        raise JErr(RT)
    return args[0].xs.pop() if args[0].xs else None


def p_peek(I, args):
    if len(args) != 1 or not isinstance(args[0], JArray):
        raise JErr(RT)
    return args[0].xs[-1] if args[0].xs else None


def p_concat(I, args):
    if not args or not isinstance(args[0], JArray):
        raise JErr(RT)
    for a in args[1:]:
        if isinstance(a, (JArray, JTuple)):
            args[0].xs.extend(list(a.xs))
        else:
            args[0].xs.append(a)
    return args[0]


def p_table(I, args):
    if len(args) % 2:
        raise JErr(RT)
    return JTable(zip(args[0::2], args[1::2]))


def p_struct(I, args):
    if len(args) % 2:
        raise JErr(RT)
    return JStruct(zip(args[0::2], args[1::2]))


def arity(n, f, hi=None):
    def g(I, args):
        if len(args) < n or len(args) > (n if hi is None else hi):
            raise JErr(RT)
        return f(I, args)
    return g


def p_first(I, a):
    return jget(a[0], 0.0) if isinstance(a[0], (JArray, JTuple, str)) else _rt()


def p_last(I, a):
    if isinstance(a[0], (JArray, JTuple)):
        return a[0].xs[-1] if a[0].xs else None
    return _rt()


def _rt():
    raise JErr(RT)


def p_minmax(pick):
    def f(I, args):
        if not args:
            return None
        best = args[0]
        for x in args[1:]:
            c = jcmp(x, best)
            if (pick < 0 and c < 0) or (pick > 0 and c > 0):
                best = x
        return best
    return f


def p_apply(I, args):
    if len(args) < 2:
        raise JErr(RT)
    last = args[-1]
    if not isinstance(last, (JArray, JTuple)):
        raise JErr(RT)
    return I.apply(args[0], list(args[1:-1]) + list(last.xs))


PRIMS = {
    "+": fold(lambda a, b: a + b, 0.0, lambda a: a),
    "-": fold(lambda a, b: a - b, 0.0, lambda a: -a),
    "*": fold(lambda a, b: a * b, 1.0, lambda a: a),
    "mod": arity(2, lambda I, a: jmod(num(a[0]), num(a[1]))),
    "%": arity(2, lambda I, a: jrem(num(a[0]), num(a[1]))),
    "div": arity(2, lambda I, a: jdiv(num(a[0]), num(a[1]))),
    "<": cmpchain(lambda c: c < 0), ">": cmpchain(lambda c: c > 0),
    "<=": cmpchain(lambda c: c <= 0), ">=": cmpchain(lambda c: c >= 0),
    "=": p_eq, "not=": p_neq,
    "not": arity(1, lambda I, a: not truthy(a[0])),
    "inc": arity(1, lambda I, a: num(a[0]) + 1), "dec": arity(1, lambda I, a: num(a[0]) - 1),
    "length": arity(1, lambda I, a: jlength(a[0])),
    "get": arity(2, lambda I, a: jget(a[0], a[1], a[2] if len(a) > 2 else None), 3),
    "in": arity(2, lambda I, a: jin(a[0], a[1], a[2] if len(a) > 2 else None), 3),
    "put": arity(3, lambda I, a: jput(a[0], a[1], a[2])),
    "array/push": p_push, "array/pop": p_pop, "array/peek": p_peek, "array/concat": p_concat,
    "array/slice": lambda I, a: slice_(I, a, JArray), "tuple/slice": lambda I, a: slice_(I, a, JTuple),
    "array": lambda I, a: JArray(a), "tuple": lambda I, a: JTuple(a), "table": p_table, "struct": p_struct,
    "string": p_string, "print": p_print, "emit": p_emit,
    "type": arity(1, lambda I, a: Kw(tname(a[0]))),
    "first": arity(1, p_first), "last": arity(1, p_last),
    "min": p_minmax(-1), "max": p_minmax(1),
    "nil?": arity(1, lambda I, a: a[0] is None),
    "number?": arity(1, lambda I, a: isinstance(a[0], float)),
    "string?": arity(1, lambda I, a: isinstance(a[0], str)),
    "keyword?": arity(1, lambda I, a: isinstance(a[0], Kw)),
    "array?": arity(1, lambda I, a: isinstance(a[0], JArray)),
    "tuple?": arity(1, lambda I, a: isinstance(a[0], JTuple)),
    "table?": arity(1, lambda I, a: isinstance(a[0], JTable)),
    "struct?": arity(1, lambda I, a: isinstance(a[0], JStruct)),
    "function?": arity(1, lambda I, a: isinstance(a[0], Closure) or (isinstance(a[0], Prim) and a[0].name not in CFUNS)),
    "true?": arity(1, lambda I, a: a[0] is True), "false?": arity(1, lambda I, a: a[0] is False),
    "truthy?": arity(1, lambda I, a: truthy(a[0])),
    "even?": arity(1, lambda I, a: jmod(num(a[0]), 2.0) == 0), "odd?": arity(1, lambda I, a: jmod(num(a[0]), 2.0) == 1),
    "zero?": arity(1, lambda I, a: jcmp(a[0], 0.0) == 0), "pos?": arity(1, lambda I, a: jcmp(a[0], 0.0) > 0),
    "neg?": arity(1, lambda I, a: jcmp(a[0], 0.0) < 0),
    "empty?": arity(1, lambda I, a: jlength(a[0]) == 0),
    "identity": arity(1, lambda I, a: a[0]),
    "math/abs": arity(1, lambda I, a: abs(num(a[0]))),
    "apply": p_apply,
    "error": arity(1, lambda I, a: (_ for _ in ()).throw(JErr(a[0]))),
}

SPECIALS = {"def", "var", "set", "if", "do", "while", "break", "fn", "quote", "quasiquote", "unquote", "splice", "upscope"}
MACROS = {"defn", "when", "unless", "cond", "case", "if-let", "when-let", "and", "or", "for", "each", "loop", "seq", "let",
          "if-not", "++", "--", "+=", "-=", "*=", "default", "repeat", "eachk", "eachp", "forever", "varfn", "defn-", "def-", "var-"}


class Interp:
    def __init__(self, fuel=200000):
        self.trace = []
        self.fuel = fuel
        self.result = None
        self.genv = None
        self.gensym = 0
        for name, fn in PRIMS.items():
            self.genv = (name, [Prim(name, fn)], self.genv)
        self.genv = ("RES", [Prim("RES", self._res)], self.genv)

    def _res(self, I, args):
        self.result = args[0] if args else None
        return None

    # -------------------------------------------------------------- environment
    @staticmethod
    def lookup(env, name):
        while env is not None:
            if env[0] == name:
                return env[1]
            env = env[2]
        raise KeyError(name)

    def tick(self):
        self.fuel -= 1
        if self.fuel < 0:
            raise Fuel()

    # -------------------------------------------------------------- application
    def apply(self, f, args):
        self.tick()
        if isinstance(f, Prim):
            return f.fn(self, args)
        if isinstance(f, Closure):
            env = self.bind_params(f, args)
            try:
                v = None
                for b in f.body:
                    v, env = self.ev(b, env)
                return v
            except Brk as b:
                return b.val
        # janet: tables/structs/arrays/tuples/keywords are callable (lookup)
        if isinstance(f, (JTable, JStruct, JArray, JTuple)) and len(args) == 1:
            return jin(f, args[0])
        if isinstance(f, Kw) and len(args) == 1:
            return jget(args[0], f)
        raise JErr(RT)

    def bind_params(self, f, args):
        ps = f.params
        env = f.env
        names = [p.name if isinstance(p, Sym) else None for p in ps]
        # classify
        fixed, opt_from, rest, keys, named = [], None, None, None, None
        i = 0
        pos = []
        while i < len(ps):
            p = ps[i]
            if isinstance(p, Sym) and p.name == "&opt":
                opt_from = len(pos)
            elif isinstance(p, Sym) and p.name == "&":
                if i + 1 < len(ps):
                    rest = ps[i + 1]
                    i += 1
                else:
                    rest = False   # allow extra
            elif isinstance(p, Sym) and p.name == "&keys":
                keys = ps[i + 1]
                i += 1
            elif isinstance(p, Sym) and p.name == "&named":
                named = ps[i + 1:]
                break
            else:
                pos.append(p)
            i += 1
        n = len(pos)
        minar = n if opt_from is None else opt_from
        variadic = rest is not None or keys is not None or named is not None
        if len(args) < minar or (not variadic and len(args) > n):
            raise JErr(RT)
        binds = []
        for j, p in enumerate(pos):
            binds.append((p, args[j] if j < len(args) else None))
        extra = args[n:]
        if rest:
            binds.append((rest, JTuple(extra)))
        if keys is not None or named is not None:
            # only complete key-value pairs; a dangling key is ignored (as after a normal call in janet)
            st = JStruct(zip(extra[0::2], extra[1::2]))
            if keys is not None:
                binds.append((keys, st))
        # symbols first (in order), then destructured patterns, as the compiler does
        for p, v in binds:
            if isinstance(p, Sym):
                env = (p.name, [v], env)
        for p, v in binds:
            if not isinstance(p, Sym):
                env = self.destructure(p, v, env)
        if named is not None:
            for p in named:
                env = (p.name, [jin(st, Kw(p.name))], env)
        if f.name is not None and f.name not in [p.name for p, _ in binds if isinstance(p, Sym)]:
            env = (f.name, [f], env)
        return env

    def destructure(self, pat, v, env):
        if isinstance(pat, Sym):
            return (pat.name, [v], env)
        if isinstance(pat, T) or (isinstance(pat, Lit) and pat.kind == "arr"):
            xs = pat.xs
            for i, p in enumerate(xs):
                if isinstance(p, Sym) and p.name == "&":
                    n = int(jlength(v))
                    rest = [jget_op(v, float(j)) for j in range(i, n)]
                    env = (xs[i + 1].name, [JTuple(rest)], env)
                    break
                env = self.destructure(p, getindex(v, i), env)
            return env
        if isinstance(pat, Lit) and pat.kind in ("stc", "tab"):
            for k, p in zip(pat.xs[0::2], pat.xs[1::2]):
                kv, _ = self.ev(k, env)
                env = self.destructure(p, jin(v, kv), env)
            return env
        raise Fuel()

    # -------------------------------------------------------------- quasiquote
    def quote(self, x):
        if isinstance(x, T):
            return JTuple([self.quote(y) for y in x.xs], x.br)
        if isinstance(x, Lit):
            if x.kind == "arr":
                return JArray([self.quote(y) for y in x.xs])
            q = [self.quote(y) for y in x.xs]
            return (JTable if x.kind == "tab" else JStruct)(zip(q[0::2], q[1::2]))
        if isinstance(x, Str):
            return x.s
        if isinstance(x, (int, float)) and not isinstance(x, bool):
            return float(x)
        return x

    def qq(self, x, env):
        if isinstance(x, T):
            if x.xs and isinstance(x.xs[0], Sym) and x.xs[0].name == "unquote" and not x.br:
                v, _ = self.ev(x.xs[1], env)
                return v
            out = []
            for y in x.xs:
                if isinstance(y, T) and not y.br and y.xs and isinstance(y.xs[0], Sym) and y.xs[0].name == "unquote" \
                        and isinstance(y.xs[1], T) and y.xs[1].xs and y.xs[1].xs[0] == Sym("splice"):
                    v, _ = self.ev(y.xs[1].xs[1], env)
                    if not isinstance(v, (JArray, JTuple)):
                        raise JErr(RT, (y.line, y.col))
                    out.extend(v.xs)
                else:
                    out.append(self.qq(y, env))
            return JTuple(out, x.br)
        if isinstance(x, Lit):
            if x.kind == "arr":
                out = []
                for y in x.xs:
                    if isinstance(y, T) and not y.br and y.xs and isinstance(y.xs[0], Sym) and y.xs[0].name == "unquote" \
                            and isinstance(y.xs[1], T) and y.xs[1].xs and y.xs[1].xs[0] == Sym("splice"):
                        v, _ = self.ev(y.xs[1].xs[1], env)
                        if not isinstance(v, (JArray, JTuple)):
                            raise JErr(RT, (y.line, y.col))
                        out.extend(v.xs)
                    else:
                        out.append(self.qq(y, env))
                return JArray(out)
            q = [self.qq(y, env) for y in x.xs]
            return (JTable if x.kind == "tab" else JStruct)(zip(q[0::2], q[1::2]))
        return self.quote(x)

    # -------------------------------------------------------------- evaluation
    def body(self, forms, env):
        """evaluate forms in a NEW scope; bindings do not escape"""
        v = None
        for f in forms:
            v, env = self.ev(f, env)
        return v

    def ev(self, x, env):
        """returns (value, env'): env' includes bindings introduced by def/var in the current scope"""
        self.tick()
        if isinstance(x, Sym):
            try:
                return self.lookup(env, x.name)[0], env
            except KeyError:
                raise Fuel()
        if isinstance(x, Str):
            return x.s, env
        if isinstance(x, bool) or x is None:
            return x, env
        if isinstance(x, (int, float)):
            return float(x), env
        if isinstance(x, Kw):
            return x, env
        if isinstance(x, Lit):
            vals = []
            for y in x.xs:
                v, env = self.ev(y, env)
                vals.append(v)
            if x.kind == "arr":
                return JArray(vals), env
            return (JTable if x.kind == "tab" else JStruct)(zip(vals[0::2], vals[1::2])), env
        assert isinstance(x, T), x
        if x.br:
            vals = []
            for y in x.xs:
                v, env = self.ev(y, env)
                vals.append(v)
            return JTuple(vals, False), env   # bracket literal evaluates through `tuple`
        if not x.xs:
            return JTuple([]), env
        h = x.xs[0]
        pos = (x.line, x.col)
        try:
            if isinstance(h, Sym):
                name = h.name
                if name in SPECIALS:
                    return self.special(name, x, env)
                if name in MACROS and not self.shadowed(env, name):
                    return self.macro(name, x, env)
            f, env = self.ev(h, env)
            args = []
            for y in x.xs[1:]:
                if isinstance(y, T) and not y.br and y.xs and y.xs[0] == Sym("splice"):
                    v, env = self.ev(y.xs[1], env)
                    if not isinstance(v, (JArray, JTuple)):
                        raise JErr(RT)
                    args.extend(v.xs)
                else:
                    v, env = self.ev(y, env)
                    args.append(v)
            return self.apply(f, args), env
        except JErr as e:
            if e.pos is None:
                e.pos = pos
            raise

    def shadowed(self, env, name):
        while env is not None:
            if env[0] == name:
                return True
            env = env[2]
        return False

    def special(self, name, x, env):
        a = x.xs[1:]
        if name == "do":
            return self.body(a, env), env
        if name == "upscope":
            v = None
            for f in a:
                v, env = self.ev(f, env)
            return v, env
        if name in ("def", "var"):
            v, env = self.ev(a[-1], env)
            env = self.destructure(a[0], v, env)
            return v, env
        if name == "set":
            if isinstance(a[0], Sym):
                # the target is the binding visible AT the set form (the compiler resolves it before the value):
                # (set x (def x 5)) assigns the outer x
                box = self.lookup(env, a[0].name)
                v, env = self.ev(a[1], env)
                box[0] = v
                return v, env
            ds, env = self.ev(a[0].xs[0], env)
            k, env = self.ev(a[0].xs[1], env)
            v, env = self.ev(a[1], env)
            jput(ds, k, v)
            return v, env
        if name == "if":
            c, cenv = self.ev(a[0], env)     # bindings made in the condition are visible in the branches only
            if truthy(c):
                return self.body([a[1]], cenv), env
            if len(a) > 2:
                return self.body([a[2]], cenv), env
            return None, env
        if name == "while":
            while True:
                c, cenv = self.ev(a[0], env)
                if not truthy(c):
                    break
                try:
                    self.body(a[1:], cenv)
                except Brk:
                    break
            return None, env
        if name == "break":
            v = None
            if a:
                v, env = self.ev(a[0], env)
            raise Brk(v)
        if name == "fn":
            i = 0
            fname = None
            if isinstance(a[0], Sym):
                fname = a[0].name
                i = 1
            elif isinstance(a[0], Kw):
                i = 1
            return Closure(a[i].xs, a[i + 1:], env, fname, x), env
        if name == "quote":
            return self.quote(a[0]), env
        if name == "quasiquote":
            return self.qq(a[0], env), env
        raise Fuel()

    def gs(self):
        self.gensym += 1
        return "_g%d" % self.gensym

    def macro(self, name, x, env):
        a = x.xs[1:]
        if name in ("defn", "defn-", "varfn"):
            i = 1
            while isinstance(a[i], (Str, Kw)):
                i += 1
            f = Closure(a[i].xs, a[i + 1:], env, a[0].name, x)
            return f, (a[0].name, [f], env)
        if name in ("def-", "var-"):
            return self.special("def", x, env)
        if name == "when":
            c, cenv = self.ev(a[0], env)
            return (self.body(a[1:], cenv) if truthy(c) else None), env
        if name == "unless":
            c, cenv = self.ev(a[0], env)
            return (None if truthy(c) else self.body(a[1:], cenv)), env
        if name == "if-not":
            c, cenv = self.ev(a[0], env)
            if not truthy(c):
                return self.body([a[1]], cenv), env
            return (self.body([a[2]], cenv) if len(a) > 2 else None), env
        if name == "cond":
            i = 0
            e2 = env
            while i + 1 < len(a):
                c, e2 = self.ev(a[i], e2)
                if truthy(c):
                    return self.body([a[i + 1]], e2), env
                i += 2
            if i < len(a):
                return self.body([a[i]], e2), env
            return None, env
        if name == "case":
            d, e2 = self.ev(a[0], env)
            i = 1
            while i + 1 < len(a):
                k, e2 = self.ev(a[i], e2)
                if jeq(d, k):
                    return self.body([a[i + 1]], e2), env
                i += 2
            if i < len(a):
                return self.body([a[i]], e2), env
            return None, env
        if name == "and":
            v = True
            e2 = env
            for y in a:
                v, e2 = self.ev(y, e2)
                if not truthy(v):
                    return v, env
            return v, env
        if name == "or":
            v = None
            e2 = env
            for y in a:
                v, e2 = self.ev(y, e2)
                if truthy(v):
                    return v, env
            return v, env
        if name == "let":
            e2 = env
            bs = a[0].xs
            for p, vf in zip(bs[0::2], bs[1::2]):
                v, e2 = self.ev(vf, e2)
                e2 = self.destructure(p, v, e2)
            return self.body(a[1:], e2), env
        if name in ("if-let", "when-let"):
            e2 = env
            bs = a[0].xs
            ok = True
            for p, vf in zip(bs[0::2], bs[1::2]):
                v, e2 = self.ev(vf, e2)
                if not truthy(v):
                    ok = False
                    break
                e2 = self.destructure(p, v, e2)
            if name == "when-let":
                return (self.body(a[1:], e2) if ok else None), env
            if ok:
                return self.body([a[1]], e2), env
            return (self.body([a[2]], env) if len(a) > 2 else None), env
        if name in ("++", "--", "+=", "-=", "*="):
            box = self.lookup(env, a[0].name)
            if name == "++":
                v = num(box[0]) + 1
            elif name == "--":
                v = num(box[0]) - 1
            else:
                d, env = self.ev(a[1], env)
                cur = num(box[0])
                v = cur + num(d) if name == "+=" else cur - num(d) if name == "-=" else cur * num(d)
            box[0] = v
            return v, env
        if name == "default":
            cur = self.lookup(env, a[0].name)[0]
            if cur is None:
                v, env = self.ev(a[1], env)
                return v, (a[0].name, [v], env)
            return cur, (a[0].name, [cur], env)
        if name == "for":
            i, e2 = self.ev(a[1], env)
            stop, e2 = self.ev(a[2], e2)
            i = num(i)
            while jcmp(i, stop) < 0:
                self.tick()
                try:
                    self.body(a[3:], (a[0].name, [i], e2))
                except Brk:
                    break
                i = i + 1
            return None, env
        if name == "repeat":
            n, e2 = self.ev(a[0], env)
            i = 0.0
            while jcmp(i, n) < 0:
                self.tick()
                try:
                    self.body(a[1:], e2)
                except Brk:
                    break
                i += 1
            return None, env
        if name == "forever":
            while True:
                self.tick()
                try:
                    self.body(a, env)
                except Brk:
                    break
            return None, env
        if name in ("each", "eachk", "eachp"):
            ds, e2 = self.ev(a[1], env)
            for k, v in self.iterate(ds):
                self.tick()
                item = v if name == "each" else k if name == "eachk" else JTuple([k, v])
                try:
                    self.body(a[2:], self.destructure(a[0], item, e2))
                except Brk:
                    break
            return None, env
        if name == "loop":
            self.loop(a[0].xs, a[1:], env)
            return None, env
        if name == "seq":
            acc = JArray([])
            self.loop(a[0].xs, a[1:], env, acc)
            return acc, env
        raise Fuel()

    def iterate(self, ds):
        """order of `next`: indexed types by index (re-reading the length: arrays may grow); dictionaries are only
        generated with at most one key, so hash order does not matter"""
        if isinstance(ds, (JArray, JTuple)):
            i = 0
            while i < len(ds.xs):
                yield float(i), ds.xs[i]
                i += 1
            return
        if isinstance(ds, (JTable, JStruct)):
            if len(ds.d) > 1:
                raise Fuel()
            for k, v in list(ds.d.values()):
                yield k, v
            return
        if isinstance(ds, str):
            for i, b in enumerate(ds.encode()):
                yield float(i), float(b)
            return
        if ds is None:
            return
        raise JErr(RT)

    def loop(self, head, body, env, acc=None):
        """(loop [binding :verb obj ...] body) — verbs :range :range-to :in :iterate?no; modifiers :when :while :let :repeat?no"""
        def go(i, e):
            if i >= len(head):
                v = self.body(body, e)
                if acc is not None:
                    acc.xs.append(v)
                return
            b = head[i]
            if isinstance(b, Kw):
                if b.name == "when":
                    c, e2 = self.ev(head[i + 1], e)
                    if truthy(c):
                        go(i + 2, e2)
                    return
                if b.name == "while":
                    c, e2 = self.ev(head[i + 1], e)
                    if not truthy(c):
                        raise Brk(None)
                    go(i + 2, e2)
                    return
                if b.name == "let":
                    e2 = e
                    bs = head[i + 1].xs
                    for p, vf in zip(bs[0::2], bs[1::2]):
                        v, e2 = self.ev(vf, e2)
                        e2 = self.destructure(p, v, e2)
                    go(i + 2, e2)
                    return
                raise Fuel()
            verb, obj = head[i + 1].name, head[i + 2]
            if verb in ("range", "range-to", "down", "down-to"):
                vals = []
                e2 = e
                for y in obj.xs:
                    v, e2 = self.ev(y, e2)
                    vals.append(num(v))
                start, stop = vals[0], vals[1]
                step = vals[2] if len(vals) > 2 else 1.0
                k = start
                while True:
                    self.tick()
                    if verb == "range" and not k < stop:
                        break
                    if verb == "range-to" and not k <= stop:
                        break
                    if verb == "down" and not k > stop:
                        break
                    if verb == "down-to" and not k >= stop:
                        break
                    try:
                        go(i + 3, (b.name, [k], e2))
                    except Brk:
                        break
                    k = k + step if verb.startswith("range") else k - step
                return
            if verb in ("in", "keys", "pairs"):
                ds, e2 = self.ev(obj, e)
                for k, v in self.iterate(ds):
                    self.tick()
                    item = v if verb == "in" else k if verb == "keys" else JTuple([k, v])
                    try:
                        go(i + 3, self.destructure(b, item, e2))
                    except Brk:
                        break
                return
            raise Fuel()
        go(0, env)


def jget_op(ds, k):
    """JOP_GET as used by `& rest` destructuring"""
    return jget(ds, k)


def run_program(forms, fuel=200000):
    """forms: list of top-level forms (positions already assigned).  Returns dict(trace, kind, val, line, col)."""
    I = Interp(fuel)
    env = I.genv
    try:
        for f in forms:
            _, env = I.ev(f, env)
        return {"trace": I.trace, "kind": "V", "val": ser(I.result)}
    except JErr as e:
        p = e.pos or (-1, -1)
        return {"trace": I.trace, "kind": "X", "val": sererr(e.val), "line": p[0], "col": p[1]}
    except Brk:
        return {"trace": I.trace, "kind": "skip", "val": "break-at-top"}
    except Fuel:
        return {"trace": I.trace, "kind": "skip", "val": "fuel-or-unsupported"}
    except RecursionError:
        return {"trace": I.trace, "kind": "skip", "val": "py-recursion"}
