/* C20 harness - wrapper TU around src/core/ev.c (replaces ev.o at link time).
 *
 * What it does
 *   - runs a janet script's (main) as a task and drives the event loop one janet_loop1() step at a time,
 *   - after every step prints the real bookkeeping counters of janet_vm (listener_count, tq_count, run-queue
 *     length, root_count) next to an independent ground truth (heap walk for suspended / listening fibers,
 *     bytes in the self-pipe, helper threads started minus finished),
 *   - logs every *semantic* bookkeeping transition (async start/end, task pop / run / suspend, threaded call,
 *     posted event, delivery, timer add / pop, gcroot / gcunroot by an op, fiber collected) for the Lean model
 *     (lean/JanetModel/Loop/Model.lean) to replay,
 *   - provides (c20/log s) (c20/measure tag) (c20/stats) to scripts for the completion log and the leak plateaus.
 *
 * Hooks are function-like macros that only capture calls ev.c makes to functions it does not define itself;
 * ev.c is compiled unmodified from the snapshot tree.
 */
#include "features.h"
#include <janet.h>
#include "util.h"
#include "gc.h"
#include "state.h"
#include "fiber.h"

#include <math.h>
#include <fcntl.h>
#include <pthread.h>
#include <limits.h>
#include <errno.h>
#include <unistd.h>
#include <signal.h>
#include <sys/ioctl.h>
#include <sys/types.h>
#include <netinet/in.h>
#include <netinet/tcp.h>
#include <netdb.h>
#include <sys/socket.h>
#include <sys/wait.h>
#include <sys/epoll.h>
#include <sys/timerfd.h>
#include <stdio.h>
#include <stdlib.h>
#include <string.h>
#include <stdarg.h>
#include <dirent.h>
#include <time.h>

#define NI __attribute__((no_instrument_function))

static int c20_pthread_create(const char *fn, pthread_t *t, const pthread_attr_t *a, void *(*start)(void *), void *arg);
static ssize_t c20_read(const char *fn, int fd, void *buf, size_t n);
static ssize_t c20_write(const char *fn, int fd, const void *buf, size_t n);
static void c20_gcroot(const char *fn, Janet x);
static int c20_gcunroot(const char *fn, Janet x);
static JanetSignal c20_continue(JanetFiber *f, Janet v, Janet *out, JanetSignal sig);
static JanetAtomicInt c20_atomic_inc(const char *fn, JanetAtomicInt volatile *p);
static int c20_epoll_wait(int epfd, struct epoll_event *events, int maxevents, int timeout);
static int c20_close(const char *fn, int fd);
static void c20_mutex_init(JanetOSMutex *m);
static void c20_mutex_deinit(JanetOSMutex *m);
static void c20_rwlock_init(JanetOSRWLock *m);
static void c20_rwlock_deinit(JanetOSRWLock *m);

#define pthread_create(t, a, s, g) c20_pthread_create(__func__, t, a, s, g)
#define read(fd, b, n) c20_read(__func__, fd, b, n)
#define write(fd, b, n) c20_write(__func__, fd, b, n)
#define janet_gcroot(x) c20_gcroot(__func__, x)
#define janet_gcunroot(x) c20_gcunroot(__func__, x)
#define janet_continue_signal(f, v, o, s) c20_continue(f, v, o, s)
#define janet_atomic_inc(p) c20_atomic_inc(__func__, p)
#define epoll_wait(a, b, c, d) c20_epoll_wait(a, b, c, d)
#define close(fd) c20_close(__func__, fd)
/* channels, locks and rwlocks (the shared, reference-counted abstracts of ev.c) are created / finalised through these */
#define janet_os_mutex_init(m) c20_mutex_init(m)
#define janet_os_mutex_deinit(m) c20_mutex_deinit(m)
#define janet_os_rwlock_init(m) c20_rwlock_init(m)
#define janet_os_rwlock_deinit(m) c20_rwlock_deinit(m)
/* external callers of the refcount API (gc.c: a fiber with ev_state is collected) go through our definitions */
#define janet_ev_dec_refcount janet_ev_dec_refcount_INNER
#define janet_ev_inc_refcount janet_ev_inc_refcount_INNER

#include "ev.c"

#undef pthread_create
#undef read
#undef write
#undef janet_gcroot
#undef janet_gcunroot
#undef janet_continue_signal
#undef janet_atomic_inc
#undef epoll_wait
#undef close
#undef janet_os_mutex_init
#undef janet_os_mutex_deinit
#undef janet_os_rwlock_init
#undef janet_os_rwlock_deinit
#undef janet_ev_dec_refcount
#undef janet_ev_inc_refcount

/* ------------------------------------------------------------------------------------------------ state */

static JanetVM *main_vm = NULL;
static pthread_mutex_t c20_mu = PTHREAD_MUTEX_INITIALIZER;
static int opt_events = 0, opt_snap = 0, opt_idle = 0;
static long c20_step = 0;
static long n_tstarted = 0, n_twritten = 0, n_posted = 0, n_delivered = 0, n_delivered_null = 0;
static long n_extdec = 0, n_extinc = 0;
/* writes of whole events into the main VM's self pipe (helper-thread completions + posted events), and the value of that
 * counter when epoll_wait last REPORTED the self pipe: the pipe is registered edge-triggered, so events that were already in the
 * pipe at that report and are still there when the loop blocks again will not be reported a second time */
static long n_pipe_writes = 0, edge_consumed_writes = -1;
static volatile int loop_finished = 0;
/* completions the watchdog treats as progress: tasks that ran to their end, completion-log lines and plateau measurements */
static volatile long n_finished = 0, n_logs = 0;
static int watchdog_secs = 120;

#define IS_MAIN() (main_vm != NULL && &janet_vm == main_vm)
typedef struct { long susp, lis, inpipe, calls, fibers, lisclosed; } Truth;
static Truth ground_truth(void);
static Truth ground_truth_locked(void);
static __thread int c20_posting = 0;
/* set between the collector's mark and the end of its sweep (finalisers close descriptors too; only explicit closes are logged) */
static int c20_in_sweep = 0;

static void out(const char *fmt, ...) {
    va_list ap;
    va_start(ap, fmt);
    vfprintf(stdout, fmt, ap);
    va_end(ap);
}

/* fiber pointer -> ordinal (dropped when the collector frees the fiber) */
typedef struct { JanetFiber *f; long id; } FidEnt;
static FidEnt *fids = NULL;
static size_t nfids = 0, capfids = 0;
static long next_fid = 1;

static long fid_of(JanetFiber *f) {
    if (!f) return 0;
    for (size_t i = 0; i < nfids; i++) if (fids[i].f == f) return fids[i].id;
    if (nfids == capfids) {
        capfids = capfids ? capfids * 2 : 64;
        fids = realloc(fids, capfids * sizeof(FidEnt));
    }
    fids[nfids].f = f;
    fids[nfids].id = next_fid++;
    return fids[nfids++].id;
}

static void fid_drop(JanetFiber *f) {
    for (size_t i = 0; i < nfids; i++) if (fids[i].f == f) {
            fids[i] = fids[--nfids];
            return;
        }
}

/* ---------------------------------------------------------------------------- shadow run queue / timers */

typedef struct { JanetFiber *f; uint32_t id; } QEnt;
static QEnt *shq = NULL;
static size_t nshq = 0, capshq = 0;

typedef struct { JanetFiber *f, *curr; uint32_t id; JanetTimestamp when; int is_error; } TEnt;
static TEnt *sht = NULL;
static size_t nsht = 0, capsht = 0;

static int fiber_can_resume_safe(JanetFiber *f) {
    return janet_fiber_can_resume(f);
}

static JanetFiber *expect_pop = NULL;
static int last_pop_seen = 0;
/* Compare the real run queue with the shadow; emit pop / sched events. */
static void observe_queue(void) {
    if (!opt_events || !IS_MAIN()) return;
    JanetQueue *q = &janet_vm.spawn;
    int32_t cnt = janet_q_count(q);
    JanetTask *tasks = q->data;
    /* pops: shadow entries not in the real queue (queue order) */
    last_pop_seen = 0;
    for (size_t i = 0; i < nshq; i++) {
        int found = 0;
        for (int32_t k = 0, j = q->head; k < cnt; k++, j = (j + 1 < q->capacity ? j + 1 : 0))
            if (tasks[j].fiber == shq[i].f && tasks[j].expected_sched_id == shq[i].id) { found = 1; break; }
        if (!found) {
            out("E pop f%ld\n", fid_of(shq[i].f));
            if (shq[i].f == expect_pop) last_pop_seen = 1;
        }
    }
    /* pushes */
    for (int32_t k = 0, j = q->head; k < cnt; k++, j = (j + 1 < q->capacity ? j + 1 : 0)) {
        int found = 0;
        for (size_t i = 0; i < nshq; i++) if (tasks[j].fiber == shq[i].f && tasks[j].expected_sched_id == shq[i].id) { found = 1; break; }
        if (!found) out("E sched f%ld\n", fid_of(tasks[j].fiber));
    }
    if ((size_t) cnt > capshq) { capshq = cnt * 2 + 16; shq = realloc(shq, capshq * sizeof(QEnt)); }
    nshq = 0;
    for (int32_t k = 0, j = q->head; k < cnt; k++, j = (j + 1 < q->capacity ? j + 1 : 0)) {
        shq[nshq].f = tasks[j].fiber;
        shq[nshq].id = tasks[j].expected_sched_id;
        nshq++;
    }
}

static int tent_eq(TEnt *a, JanetTimeout *b) {
    return a->f == b->fiber && a->curr == b->curr_fiber && a->id == b->sched_id && a->when == b->when && a->is_error == b->is_error;
}

/* phase: 0 = expired-timer phase (pops are expirations), 1 = after a fiber ran (adds), 2 = poll phase (pops are stale drops) */
static void observe_timers(int phase) {
    if (!opt_events || !IS_MAIN()) return;
    size_t n = janet_vm.tq_count;
    char *used = calloc(n + 1, 1);
    for (size_t i = 0; i < nsht; i++) {
        int found = 0;
        for (size_t j = 0; j < n; j++) if (!used[j] && tent_eq(&sht[i], &janet_vm.tq[j])) { used[j] = 1; found = 1; break; }
        if (!found) {
            /* staleness as the C code defines it, evaluated now */
            int stale;
            if (sht[i].curr) stale = !fiber_can_resume_safe(sht[i].curr);
            else stale = sht[i].f->sched_id != sht[i].id;
            out("E tpop f%ld %s %s\n", fid_of(sht[i].f), sht[i].curr ? "deadline" : "timeout",
                phase == 2 ? "drop" : "expired");
            (void) stale;
        }
    }
    for (size_t j = 0; j < n; j++) if (!used[j]) {
            JanetTimeout *t = &janet_vm.tq[j];
            out("E tadd f%ld %s\n", fid_of(t->fiber), t->curr_fiber ? "deadline" : "timeout");
        }
    free(used);
    if (n > capsht) { capsht = n * 2 + 16; sht = realloc(sht, capsht * sizeof(TEnt)); }
    nsht = n;
    for (size_t j = 0; j < n; j++) {
        JanetTimeout *t = &janet_vm.tq[j];
        sht[j].f = t->fiber; sht[j].curr = t->curr_fiber; sht[j].id = t->sched_id; sht[j].when = t->when; sht[j].is_error = t->is_error;
    }
}

/* number of timers in the heap that the C code would classify as stale right now */
static size_t count_stale_timers(void) {
    size_t s = 0;
    for (size_t j = 0; j < janet_vm.tq_count; j++) {
        JanetTimeout *t = &janet_vm.tq[j];
        if (t->curr_fiber) { if (!janet_fiber_can_resume(t->curr_fiber)) s++; }
        else if (t->fiber->sched_id != t->sched_id) s++;
    }
    return s;
}

/* ------------------------------------------------------------------------------ shadow signal-handler table */

/* os/sigaction (os.c, not wrapped) keeps the installed handler functions in janet_vm.signal_handlers and pins them with
 * janet_gcroot; the operation is observed by diffing that table between observation points */
#define C20_NSIG 65
static JanetFunction *shsig[C20_NSIG];

static JanetFunction *signal_handler_of(int sig) {
    Janet h = janet_table_get(&janet_vm.signal_handlers, janet_wrap_integer(sig));
    return janet_checktype(h, JANET_FUNCTION) ? janet_unwrap_function(h) : NULL;
}

static int count_signal_handlers(void) {
    int n = 0;
    for (int sig = 1; sig < C20_NSIG; sig++) if (signal_handler_of(sig)) n++;
    return n;
}

static void observe_signals(void) {
    if (!opt_events || !IS_MAIN()) return;
    for (int sig = 1; sig < C20_NSIG; sig++) {
        JanetFunction *h = signal_handler_of(sig);
        if (h != shsig[sig]) {
            out("E sigaction %d %s\n", sig, h ? "install" : "remove");
            shsig[sig] = h;
        }
    }
}

/* --------------------------------------------------------------------------------------------- hooks */

typedef struct { void *(*start)(void *); void *arg; } ThreadTramp;

static int c20_pthread_create(const char *fn, pthread_t *t, const pthread_attr_t *a, void *(*start)(void *), void *arg) {
    /* classify before the thread may free `arg`: await = default callback with a fiber to resume (janet_ev_threaded_await),
     * nofiber = default callback, msg.fiber == NULL (ev/thread :n), proc = any other callback (os.c: janet_proc_wait_cb) */
    const char *tcall_kind = "-";
    if (start == janet_thread_body) {
        JanetEVThreadInit *init = arg;
        if (init->cb == janet_ev_default_threaded_callback) tcall_kind = init->msg.fiber ? "await" : "nofiber";
        else tcall_kind = "proc";
    }
    int rc = pthread_create(t, a, start, arg);
    if (rc == 0 && IS_MAIN() && start == janet_thread_body) {
        pthread_mutex_lock(&c20_mu);
        n_tstarted++;
        if (opt_events) out("E tcall %s\n", tcall_kind);
        pthread_mutex_unlock(&c20_mu);
    }
    (void) fn;
    return rc;
}

/* callbacks seen in completion events written by helper threads (janet_thread_body) */
static JanetThreadedCallback call_cbs[16];
static int n_call_cbs = 0;

static const char *cb_kind(JanetSelfPipeEvent *e) {
    JanetThreadedCallback cb = e->cb;
    if (cb == NULL) return "null";
    if (cb == janet_thread_chan_cb) return "chan";
    if (cb == janet_ev_default_threaded_callback) return e->msg.fiber ? "await" : "nofiber";
    for (int i = 0; i < n_call_cbs; i++) if (call_cbs[i] == cb) return "proc";
    return "posted"; /* janet_timeout_cb, os.c: janet_signal_callback, user callbacks */
}

static ssize_t c20_read(const char *fn, int fd, void *buf, size_t n) {
    ssize_t r = read(fd, buf, n);
    if (r > 0 && IS_MAIN() && fd == main_vm->selfpipe[0] && !strcmp(fn, "janet_ev_handle_selfpipe")) {
        /* one event per read in the code as it is; a reader that fetches several whole events at once is followed too */
        JanetSelfPipeEvent *e = buf;
        pthread_mutex_lock(&c20_mu);
        for (size_t k = 0; (k + 1) * sizeof(JanetSelfPipeEvent) <= (size_t) r; k++) {
            if (e[k].cb) n_delivered++; else n_delivered_null++;
            if (opt_events) out("E deliver %s\n", cb_kind(&e[k]));
        }
        pthread_mutex_unlock(&c20_mu);
    }
    return r;
}

static ssize_t c20_write(const char *fn, int fd, const void *buf, size_t n) {
    if (main_vm && fd == main_vm->selfpipe[1] && !strcmp(fn, "janet_thread_body")) {
        /* completion of a threaded call started by the main VM: write + count atomically w.r.t. snapshots */
        pthread_mutex_lock(&c20_mu);
        ssize_t r = write(fd, buf, n);
        if (r > 0) {
            n_twritten++;
            n_pipe_writes++;
            JanetThreadedCallback cb = ((const JanetSelfPipeEvent *) buf)->cb;
            int known = 0;
            for (int i = 0; i < n_call_cbs; i++) if (call_cbs[i] == cb) known = 1;
            if (!known && n_call_cbs < 16) call_cbs[n_call_cbs++] = cb;
        }
        pthread_mutex_unlock(&c20_mu);
        return r;
    }
    if (c20_posting && !strcmp(fn, "janet_ev_post_event")) {
        ssize_t r = write(fd, buf, n);
        if (r > 0) {
            n_pipe_writes++;
            if (opt_events) out("E post %s\n", ((const JanetSelfPipeEvent *) buf)->cb ? "cb" : "null");
            c20_posting = 0;
            pthread_mutex_unlock(&c20_mu);
        }
        return r;
    }
    return write(fd, buf, n);
}

static JanetAtomicInt c20_atomic_inc(const char *fn, JanetAtomicInt volatile *p) {
    if (main_vm && p == &main_vm->listener_count && !strcmp(fn, "janet_ev_post_event")) {
        /* an event is being posted to the main VM (from any thread).  The mutex is held from the increment until the
         * event is in the pipe (released in c20_write), so that a snapshot never sees the one without the other. */
        pthread_mutex_lock(&c20_mu);
        c20_posting = 1;
        JanetAtomicInt r = janet_atomic_inc(p);
        n_posted++;
        return r;
    }
    return janet_atomic_inc(p);
}

static void c20_gcroot(const char *fn, Janet x) {
    if (IS_MAIN()) c20_in_sweep = 0;
    if (IS_MAIN() && opt_events) {
        if (!strcmp(fn, "janet_async_start_fiber")) out("E astart\n");
        else out("E root %s\n", fn);
    }
    janet_gcroot(x);
}

static int c20_gcunroot(const char *fn, Janet x) {
    if (IS_MAIN()) c20_in_sweep = 0;
    int r = janet_gcunroot(x);
    if (IS_MAIN() && opt_events) {
        if (!strcmp(fn, "janet_async_end")) out("E aend %d\n", r);
        else out("E unroot %s %d\n", fn, r);
    }
    return r;
}

static JanetSignal c20_continue(JanetFiber *f, Janet v, Janet *o, JanetSignal sig) {
    if (IS_MAIN()) c20_in_sweep = 0;
    if (IS_MAIN() && opt_events) {
        observe_timers(0);
        expect_pop = f;
        observe_queue();
        expect_pop = NULL;
        if (!last_pop_seen) {
            /* the task being run was pushed (expired timer, callback) and popped between two observations */
            out("E sched f%ld\nE pop f%ld\n", fid_of(f), fid_of(f));
        }
        out("E run f%ld\n", fid_of(f));
    }
    JanetSignal s = janet_continue_signal(f, v, o, sig);
    if (IS_MAIN() && !(s == JANET_SIGNAL_EVENT || s == JANET_SIGNAL_YIELD || s == JANET_SIGNAL_INTERRUPT)) n_finished++;
    if (IS_MAIN() && opt_events) {
        int susp = (s == JANET_SIGNAL_EVENT || s == JANET_SIGNAL_YIELD || s == JANET_SIGNAL_INTERRUPT);
        observe_signals();
        out("E ran f%ld %s\n", fid_of(f), susp ? "suspended" : "finished");
        observe_timers(1);
        observe_queue();
    }
    return s;
}

static int c20_epoll_wait(int epfd, struct epoll_event *events, int maxevents, int timeout) {
    if (IS_MAIN()) c20_in_sweep = 0;
    if (IS_MAIN() && opt_events) {
        pthread_mutex_lock(&c20_mu);
        observe_timers(2);
        observe_queue();
        out("E poll\n");
        fflush(stdout);
        pthread_mutex_unlock(&c20_mu);
    }
    if (IS_MAIN() && (opt_snap || opt_idle) && count_stale_timers() == janet_vm.tq_count) {
        /* about to block with no live timer: if no event can be in flight (no helper thread running; self pipe empty, or what it
         * holds was already there when its edge was last reported and no event has been written since, so that the edge-triggered
         * registration will not report it again) and every stream listener sits on a closed descriptor, nothing can ever wake the
         * loop again although tasks are waiting */
        pthread_mutex_lock(&c20_mu);
        Truth t = ground_truth_locked();
        int stranded = t.inpipe > 0 && edge_consumed_writes >= 0 && n_pipe_writes == edge_consumed_writes;
        long writes = n_pipe_writes, consumed = edge_consumed_writes;
        pthread_mutex_unlock(&c20_mu);
        if ((t.inpipe == 0 || stranded) && t.calls == 0 && t.lis == t.lisclosed && t.susp + t.lis + t.inpipe > 0) {
            pthread_mutex_lock(&c20_mu);
            if (stranded)
                out("SELFPIPE-STRANDED step=%ld lc=%d in-pipe=%ld suspended=%ld listeners=%ld written=%ld written-at-last-report=%ld delivered=%ld "
                    "(events left in the edge-triggered self pipe after its handler returned; no helper thread, live timer or open listener can wake the loop)\n",
                    c20_step, (int) janet_atomic_load(&janet_vm.listener_count), t.inpipe, t.susp, t.lis, writes, consumed, n_delivered + n_delivered_null);
            else
                out("NO-WAKE-SOURCE step=%ld lc=%d suspended=%ld listeners=%ld listeners-on-closed-streams=%ld tq=%zu (all stale)\n", c20_step,
                    (int) janet_atomic_load(&janet_vm.listener_count), t.susp, t.lis, t.lisclosed, janet_vm.tq_count);
            fflush(stdout);
            _exit(stranded ? 7 : 6);
        }
    }
    if (IS_MAIN() && (opt_snap || opt_idle)) {
        /* the same stranded events seen at many consecutive polls (live timers keep the loop turning, e.g. a task that sleeps and
         * looks again): the pipe held events at every one of them, nothing was written in between, it was never reported, and no
         * helper thread is left that could write.  Counted in polls, not in time.  (On a draining handler the condition cannot
         * hold even once: whatever is in the pipe when the loop polls was written after the handler's last, failing, read.) */
        static long stranded_polls = 0;
        pthread_mutex_lock(&c20_mu);
        Truth t = ground_truth_locked();
        int stranded = t.inpipe > 0 && edge_consumed_writes >= 0 && n_pipe_writes == edge_consumed_writes && t.calls == 0;
        pthread_mutex_unlock(&c20_mu);
        stranded_polls = stranded ? stranded_polls + 1 : 0;
        if (stranded_polls >= 50) {
            pthread_mutex_lock(&c20_mu);
            out("SELFPIPE-STRANDED step=%ld lc=%d in-pipe=%ld suspended=%ld listeners=%ld written=%ld delivered=%ld tq=%zu "
                "(the same events sat in the edge-triggered self pipe through %ld consecutive polls, nothing was written, no helper thread is running)\n",
                c20_step, (int) janet_atomic_load(&janet_vm.listener_count), t.inpipe, t.susp, t.lis, n_pipe_writes, n_delivered + n_delivered_null,
                janet_vm.tq_count, stranded_polls);
            fflush(stdout);
            _exit(7);
        }
    }
    if (IS_MAIN() && (opt_snap || opt_idle) && janet_vm.tq_count == 0) {
        /* about to block without a timer: somebody must be able to wake the loop up */
        Truth t = ground_truth();
        if (t.susp + t.lis + t.inpipe + t.calls == 0) {
            pthread_mutex_lock(&c20_mu);
            out("IDLE-NOT-DONE step=%ld lc=%d (blocking in the poll phase with nothing outstanding)\n", c20_step,
                (int) janet_atomic_load(&janet_vm.listener_count));
            fflush(stdout);
            _exit(4);
        }
    }
    if (IS_MAIN() && (opt_snap || opt_idle) && janet_vm.tq_count > 0 && count_stale_timers() == janet_vm.tq_count) {
        /* about to block until a timer fires although every timer left is stale (its fiber was resumed / cancelled / is dead) */
        Truth t = ground_truth();
        if (t.susp + t.lis + t.inpipe + t.calls == 0) {
            pthread_mutex_lock(&c20_mu);
            out("STALE-TIMERS-BLOCK step=%ld tq=%zu lc=%d (only stale timers left, nothing outstanding, loop blocks until they expire)\n",
                c20_step, janet_vm.tq_count, (int) janet_atomic_load(&janet_vm.listener_count));
            fflush(stdout);
            _exit(5);
        }
    }
    int ready = epoll_wait(epfd, events, maxevents, timeout);
    if (IS_MAIN() && ready > 0) {
        for (int i = 0; i < ready; i++) if (events[i].data.ptr == (void *) janet_vm.selfpipe) {
                /* the self pipe's edge is consumed by this report: whatever has been written up to now must be read by the handler */
                pthread_mutex_lock(&c20_mu);
                edge_consumed_writes = n_pipe_writes;
                pthread_mutex_unlock(&c20_mu);
            }
    }
    return ready;
}

/* process-wide count of live channels / locks / rwlocks (all threads): created minus finalised */
static JanetAtomicInt n_shared_live = 0;
static void c20_mutex_init(JanetOSMutex *m) { janet_atomic_inc(&n_shared_live); janet_os_mutex_init(m); }
static void c20_mutex_deinit(JanetOSMutex *m) { janet_atomic_dec(&n_shared_live); janet_os_mutex_deinit(m); }
static void c20_rwlock_init(JanetOSRWLock *m) { janet_atomic_inc(&n_shared_live); janet_os_rwlock_init(m); }
static void c20_rwlock_deinit(JanetOSRWLock *m) { janet_atomic_dec(&n_shared_live); janet_os_rwlock_deinit(m); }

/* close(2) inside janet_stream_close_impl: the CLOSE notifications have been delivered by now; any fiber that still has a
 * callback installed on this descriptor has been left behind (it can never be woken again) */
static int c20_close(const char *fn, int fd) {
    if (IS_MAIN() && opt_events && !strcmp(fn, "janet_stream_close_impl") && !c20_in_sweep) {
        long orphans = 0;
        for (JanetGCObject *o = janet_vm.blocks; o; o = o->data.next) {
            if ((o->flags & JANET_MEM_TYPEBITS) == JANET_MEMORY_FIBER) {
                JanetFiber *f = (JanetFiber *) o;
                if (f->ev_callback && f->ev_stream && f->ev_stream->handle == fd) orphans++;
            }
        }
        out("E sclose %ld\n", orphans);
    }
    return close(fd);
}

/* public refcount API for callers outside ev.c */
void janet_ev_inc_refcount(void) {
    if (IS_MAIN()) {
        n_extinc++;
        if (opt_events) out("E extinc\n");
    }
    janet_ev_inc_refcount_INNER();
}

void janet_ev_dec_refcount(void) {
    if (IS_MAIN()) {
        n_extdec++;
        if (opt_events) out("E extdec\n");
    }
    janet_ev_dec_refcount_INNER();
}

/* GC midpoint (between mark and sweep): fibers about to be freed */
extern void (*janet_verif_gc_midpoint)(void);
static void c20_midpoint(void) {
    if (!IS_MAIN()) return;
    c20_in_sweep = 1;
    for (JanetGCObject *o = janet_vm.blocks; o; o = o->data.next) {
        if ((o->flags & JANET_MEM_TYPEBITS) == JANET_MEMORY_FIBER && !(o->flags & JANET_MEM_REACHABLE)) {
            JanetFiber *f = (JanetFiber *) o;
            if (opt_events) {
                int tracked = 0;
                for (size_t i = 0; i < nfids; i++) if (fids[i].f == f) tracked = 1;
                if (tracked || (f->gc.flags & JANET_FIBER_EV_FLAG_SUSPENDED) || f->ev_callback)
                    out("E gcfiber f%ld %s %s\n", fid_of(f), (f->gc.flags & JANET_FIBER_EV_FLAG_SUSPENDED) ? "suspended" : "-",
                        f->ev_state ? "evstate" : "-");
            }
            fid_drop(f);
        }
    }
}

/* ------------------------------------------------------------------------------------- ground truth */

/* caller holds c20_mu: the self-pipe fill, the helper-thread counters and listener_count are then mutually consistent
 * (posting threads hold the mutex from the increment until the event is in the pipe) */
static Truth ground_truth_locked(void) {
    Truth t = {0, 0, 0, 0, 0, 0};
    for (JanetGCObject *o = janet_vm.blocks; o; o = o->data.next) {
        if ((o->flags & JANET_MEM_TYPEBITS) == JANET_MEMORY_FIBER) {
            JanetFiber *f = (JanetFiber *) o;
            t.fibers++;
            if (f->gc.flags & JANET_FIBER_EV_FLAG_SUSPENDED) t.susp++;
            if (f->ev_callback) {
                t.lis++;
                /* a listener on a stream that has been closed can never be woken by the kernel */
                if (f->ev_stream && (f->ev_stream->flags & JANET_STREAM_CLOSED)) t.lisclosed++;
            }
        }
    }
    int nbytes = 0;
    ioctl(janet_vm.selfpipe[0], FIONREAD, &nbytes);
    t.inpipe = nbytes / (long) sizeof(JanetSelfPipeEvent);
    t.calls = n_tstarted - n_twritten;
    return t;
}

static Truth ground_truth(void) {
    pthread_mutex_lock(&c20_mu);
    Truth t = ground_truth_locked();
    pthread_mutex_unlock(&c20_mu);
    return t;
}

static long count_fds(void) {
    long n = 0;
    DIR *d = opendir("/proc/self/fd");
    if (!d) return -1;
    struct dirent *e;
    while ((e = readdir(d))) if (e->d_name[0] != '.') n++;
    closedir(d);
    return n - 1; /* the directory handle itself */
}

/* children of this process (any state, zombies included) */
static void count_children(long *nchild, long *nzombie) {
    long me = (long) getpid();
    *nchild = *nzombie = 0;
    DIR *d = opendir("/proc");
    if (!d) return;
    struct dirent *e;
    while ((e = readdir(d))) {
        if (e->d_name[0] < '0' || e->d_name[0] > '9') continue;
        char p[300], buf[1024];
        snprintf(p, sizeof p, "/proc/%s/stat", e->d_name);
        FILE *f = fopen(p, "r");
        if (!f) continue;
        size_t k = fread(buf, 1, sizeof buf - 1, f);
        fclose(f);
        buf[k] = 0;
        char *rp = strrchr(buf, ')');
        if (!rp) continue;
        char st;
        long ppid;
        if (sscanf(rp + 1, " %c %ld", &st, &ppid) == 2 && ppid == me) {
            (*nchild)++;
            if (st == 'Z') (*nzombie)++;
        }
    }
    closedir(d);
}

static long count_threads(void) {
    long n = 0;
    DIR *d = opendir("/proc/self/task");
    if (!d) return -1;
    struct dirent *e;
    while ((e = readdir(d))) if (e->d_name[0] != '.') n++;
    closedir(d);
    return n;
}

static void snapshot(const char *tag) {
    pthread_mutex_lock(&c20_mu);
    Truth t = ground_truth_locked();
    out("S %ld %s lc=%d tq=%zu rq=%d roots=%zu stale=%zu done=%d | susp=%ld lis=%ld inpipe=%ld calls=%ld nullev=%ld lisclosed=%ld pw=%ld pd=%ld sigh=%d\n",
        c20_step, tag, (int) janet_atomic_load(&janet_vm.listener_count), janet_vm.tq_count, (int) janet_q_count(&janet_vm.spawn),
        janet_vm.root_count, count_stale_timers(), janet_loop_done(), t.susp, t.lis, t.inpipe, t.calls, n_delivered_null, t.lisclosed,
        n_pipe_writes, n_delivered + n_delivered_null, count_signal_handlers());
    pthread_mutex_unlock(&c20_mu);
}

/* ------------------------------------------------------------------------------------------ cfuns */

static Janet cfun_log(int32_t argc, Janet *argv) {
    janet_fixarity(argc, 1);
    const uint8_t *s = janet_to_string(argv[0]);
    pthread_mutex_lock(&c20_mu);
    n_logs++;
    out("LOG %ld %s\n", c20_step, (const char *) s);
    pthread_mutex_unlock(&c20_mu);
    return janet_wrap_nil();
}

static Janet cfun_measure(int32_t argc, Janet *argv) {
    janet_fixarity(argc, 1);
    const uint8_t *s = janet_to_string(argv[0]);
    janet_collect();
    janet_collect();
    c20_in_sweep = 0;
    long nchild, nz;
    count_children(&nchild, &nz);
    Truth t = ground_truth();
    pthread_mutex_lock(&c20_mu);
    n_logs++;
    out("MEASURE %s fds=%ld children=%ld zombies=%ld roots=%zu blocks=%zu lc=%d tq=%zu rq=%d threads=%ld fibers=%ld scratch=%zu shared=%d\n",
        (const char *) s, count_fds(), nchild, nz, janet_vm.root_count, janet_vm.block_count,
        (int) janet_atomic_load(&janet_vm.listener_count), janet_vm.tq_count, (int) janet_q_count(&janet_vm.spawn),
        count_threads(), t.fibers, janet_vm.scratch_len, (int) janet_atomic_load(&n_shared_live));
    fflush(stdout);
    pthread_mutex_unlock(&c20_mu);
    return janet_wrap_nil();
}

/* (c20/stats) -> [listener_count tq_count runq root_count block_count outstanding-by-ground-truth events-in-self-pipe helper-threads-running] */
static Janet cfun_stats(int32_t argc, Janet *argv) {
    (void) argv;
    janet_fixarity(argc, 0);
    Janet tup[8];
    Truth t = ground_truth();
    tup[6] = janet_wrap_integer((int32_t) t.inpipe);
    tup[7] = janet_wrap_integer((int32_t) t.calls);
    tup[5] = janet_wrap_integer((int32_t)(t.susp + t.lis + t.inpipe + t.calls));
    tup[0] = janet_wrap_integer((int32_t) janet_atomic_load(&janet_vm.listener_count));
    tup[1] = janet_wrap_integer((int32_t) janet_vm.tq_count);
    tup[2] = janet_wrap_integer(janet_q_count(&janet_vm.spawn));
    tup[3] = janet_wrap_integer((int32_t) janet_vm.root_count);
    tup[4] = janet_wrap_integer((int32_t) janet_vm.block_count);
    return janet_wrap_tuple(janet_tuple_n(tup, 8));
}

/* (c20/loop1-interrupt) : the public API janet_loop1_interrupt on this VM */
static Janet cfun_interrupt(int32_t argc, Janet *argv) {
    (void) argv;
    janet_fixarity(argc, 0);
    janet_loop1_interrupt(&janet_vm);
    /* the embedder acknowledges the interrupt itself (janet_timeout_cb does the same for ev/deadline's interrupt thread) */
    janet_interpreter_interrupt_handled(&janet_vm);
    return janet_wrap_nil();
}

/* (c20/pending stream) -> number of fibers parked on the stream (0, 1 or 2: read side, write side) */
static Janet cfun_pending(int32_t argc, Janet *argv) {
    janet_fixarity(argc, 1);
    JanetStream *st = janet_getabstract(argv, 0, &janet_stream_type);
    return janet_wrap_integer((st->read_fiber != NULL) + (st->write_fiber != NULL));
}

/* (c20/raise sig) : raise(3) on the loop's own thread - the handler installed by os/sigaction runs before this returns, on the
 * thread whose VM it posts to, and never inside one of the harness' critical sections */
static Janet cfun_raise(int32_t argc, Janet *argv) {
    janet_fixarity(argc, 1);
    int sig = janet_getinteger(argv, 0);
    if (sig != SIGUSR1 && sig != SIGUSR2 && sig != SIGWINCH && sig != SIGURG) janet_panicf("c20/raise: signal %d not allowed", sig);
    return janet_wrap_integer(raise(sig));
}

/* (c20/op name) : the script tells the model which operation of a file the harness does not wrap (filewatch.c) it has just
 * performed; the model predicts the bookkeeping, the comparison with janet_vm after the step judges it */
static Janet cfun_op(int32_t argc, Janet *argv) {
    janet_fixarity(argc, 1);
    const uint8_t *s = janet_to_string(argv[0]);
    if (opt_events) out("E op %s\n", (const char *) s);
    return janet_wrap_nil();
}

static const JanetReg c20_cfuns[] = {
    {"c20/raise", cfun_raise, NULL},
    {"c20/op", cfun_op, NULL},
    {"c20/pending", cfun_pending, NULL},
    {"c20/log", cfun_log, NULL},
    {"c20/measure", cfun_measure, NULL},
    {"c20/stats", cfun_stats, NULL},
    {"c20/loop1-interrupt", cfun_interrupt, NULL},
    {NULL, NULL, NULL}
};

/* ------------------------------------------------------------------------------------------- main */

static void *watchdog(void *arg) {
    (void) arg;
    /* process-directed signals must not be handled here: the trampoline posts to the handling thread's own (thread-local) VM */
    sigset_t all;
    sigfillset(&all);
    pthread_sigmask(SIG_BLOCK, &all, NULL);
    /* The countdown restarts whenever a task ran to its end, an event was posted / delivered, a helper thread started / finished
     * or a completion was logged: a slow run on a loaded machine is not a hang.  Only `watchdog_secs` without any of these is. */
    long last = -1;
    for (int i = 0; i < watchdog_secs * 10; i++) {
        struct timespec ts = {0, 100000000};
        nanosleep(&ts, NULL);
        if (loop_finished) return NULL;
        long now = n_finished + n_logs + n_posted + n_delivered + n_delivered_null + n_tstarted + n_twritten;
        if (now != last) {
            last = now;
            i = 0;
        }
    }
    /* backstop: the loop did not return.  Report the state the main thread is stuck in. */
    pthread_mutex_lock(&c20_mu);
    out("WATCHDOG step=%ld lc=%d tq=%zu rq=%d started=%ld written=%ld posted=%ld delivered=%ld\n", c20_step,
        (int) janet_atomic_load(&main_vm->listener_count), main_vm->tq_count, (int) janet_q_count(&main_vm->spawn),
        n_tstarted, n_twritten, n_posted, n_delivered);
    fflush(stdout);
    _exit(3);
    return NULL;
}

static char *slurp(const char *path) {
    FILE *f = fopen(path, "rb");
    if (!f) { perror(path); exit(2); }
    fseek(f, 0, SEEK_END);
    long n = ftell(f);
    fseek(f, 0, SEEK_SET);
    char *b = malloc(n + 1);
    if (fread(b, 1, n, f) != (size_t) n) { perror("read"); exit(2); }
    b[n] = 0;
    fclose(f);
    return b;
}

int main(int argc, char **argv) {
    const char *script = NULL;
    for (int i = 1; i < argc; i++) {
        if (!strcmp(argv[i], "--events")) opt_events = 1;
        else if (!strcmp(argv[i], "--snap")) opt_snap = 1;
        else if (!strcmp(argv[i], "--idle")) opt_idle = 1;
        else if (!strcmp(argv[i], "--watchdog") && i + 1 < argc) watchdog_secs = atoi(argv[++i]);
        else script = argv[i];
    }
    if (!script) { fprintf(stderr, "usage: c20loop [--events] [--snap] [--watchdog s] script.janet\n"); return 2; }
    signal(SIGPIPE, SIG_IGN);
    static char obuf[1 << 16];
    setvbuf(stdout, obuf, _IOFBF, sizeof obuf);
    janet_init();
    main_vm = &janet_vm;
    janet_verif_gc_midpoint = c20_midpoint;
    JanetTable *env = janet_core_env(NULL);
    janet_cfuns(env, NULL, c20_cfuns);
    char *src = slurp(script);
    Janet outv;
    int rc = janet_dostring(env, src, script, &outv);
    if (rc) { out("SCRIPT-ERROR %d\n", rc); fflush(stdout); return 2; }
    Janet mainv;
    janet_resolve(env, janet_csymbol("main"), &mainv);
    if (!janet_checktype(mainv, JANET_FUNCTION)) { out("SCRIPT-ERROR no main\n"); fflush(stdout); return 2; }
    JanetFiber *fiber = janet_fiber(janet_unwrap_function(mainv), 64, 0, NULL);
    fiber->env = env;
    janet_gcroot(janet_wrap_fiber(fiber));
    pthread_t wd;
    pthread_create(&wd, NULL, watchdog, NULL);
    if (opt_snap) snapshot("init");
    janet_schedule(fiber, janet_wrap_nil());
    if (opt_events) { observe_queue(); }
    if (opt_snap) snapshot("start");
    while (!janet_loop_done()) {
        c20_step++;
        if (opt_events) out("E step\n");
        JanetFiber *interrupted = janet_loop1();
        if (interrupted) janet_schedule(interrupted, janet_wrap_nil());
        if (opt_events) {
            pthread_mutex_lock(&c20_mu);
            observe_timers(2);
            observe_queue();
            pthread_mutex_unlock(&c20_mu);
        }
        if (opt_snap) {
            snapshot("step");
            /* logical hang criterion: nothing is outstanding (independent ground truth), nothing is runnable, no timer is
             * armed, yet janet_loop_done() is false: the next janet_loop1 would block in the kernel for ever */
            Truth t = ground_truth();
            if (!janet_loop_done() && janet_vm.tq_count == 0 && janet_q_count(&janet_vm.spawn) == 0 &&
                    t.susp + t.lis + t.inpipe + t.calls == 0) {
                out("IDLE-NOT-DONE step=%ld lc=%d\n", c20_step, (int) janet_atomic_load(&janet_vm.listener_count));
                fflush(stdout);
                _exit(4);
            }
        }
    }
    loop_finished = 1;
    {
        long nchild, nz;
        count_children(&nchild, &nz);
        /* roots still held for objects that are garbage by now (e.g. an abandoned waiter in a dropped channel) are
         * released by their finalisers: collect before reading the root count */
        janet_vm.root_fiber = fiber;   /* janet_collect() dereferences root_fiber unconditionally */
        janet_collect();
        janet_collect();
        janet_vm.root_fiber = NULL;
        Truth t = ground_truth();
        pthread_mutex_lock(&c20_mu);
        out("RETURNED steps=%ld lc=%d tq=%zu rq=%d roots=%zu main=%s susp=%ld lis=%ld inpipe=%ld calls=%ld children=%ld zombies=%ld\n", c20_step,
            (int) janet_atomic_load(&janet_vm.listener_count), janet_vm.tq_count, (int) janet_q_count(&janet_vm.spawn),
            janet_vm.root_count, janet_fiber_can_resume(fiber) ? "alive" : "dead", t.susp, t.lis, t.inpipe, t.calls, nchild, nz);
        fflush(stdout);
        pthread_mutex_unlock(&c20_mu);
    }
    pthread_join(wd, NULL);
    janet_gcunroot(janet_wrap_fiber(fiber));
    janet_deinit();
    return 0;
}
