"""C20 generators: (1) operation cycles for the leak plateaus, (2) task mixes with a known set of expected completions.

Everything random is drawn from the SplitMix64 passed in (ctx.rng fork), so a failure replays from the seed; the generated
janet source itself is stored in the replay file.
"""

PRELUDE = r'''
# wait (logically, not by the clock) until nothing but the caller is outstanding in the event loop
# (judged by the independent ground truth: heap walk + self-pipe fill + helper threads); then the pending-work counter must be 0
(defn quiesce []
  (while (pos? ((c20/stats) 5)) (ev/sleep 0.001))
  (def lc ((c20/stats) 0))
  (unless (= 0 lc) (errorf "COUNTER-LEAK listener_count=%d although nothing is outstanding" lc)))
(defn settle []
  (for k 0 4 (ev/sleep 0))
  (quiesce)
  # wait on a helper thread: while the caller is suspended there is no live timer, so the poll phase sees stale timers at the head
  (ev/do-thread nil)
  (quiesce))
# thread bodies are created by top-level functions: a closure made inside (main) drags main's environment (streams,
# processes) into the marshalled thread image
(defn do-thread-sleep [d] (ev/do-thread (os/sleep d)))
# a helper thread nobody waits for; it logs its own completion: the loop must not return before that line
(defn thread-nowait-log [d k] (ev/thread (fn [] (os/sleep d) (c20/log (string "done " k))) nil :n))
# a helper thread that finishes only when the main thread says so (no race with the clock)
(defn thread-wait-chan [c] (ev/thread (fn [] (ev/take c))))
(defn thread-sleep [d] (ev/thread (fn [] (os/sleep d))))
(defn thread-give [c d v] (ev/thread (fn [] (os/sleep d) (ev/give c v)) nil :n))
(defn thread-echo [c back n] (ev/thread (fn [] (for k 0 n (ev/give back (ev/take c)))) nil :n))
# wait (logically, not by the clock) until n fibers are parked on the stream (read side, write side)
(defn wait-parked [s n] (while (< (c20/pending s) n) (ev/sleep 0.001)))
# a write of this size to a peer that never reads cannot complete: the writer stays parked
(var big-payload-cache nil)
(defn big-payload [] (or big-payload-cache (set big-payload-cache (buffer/new-filled (* 32 1024 1024) (chr "x")))))
(var pair-counter 0)
(defn connected-pair []
  # [client-side stream, server-side stream, listener] over a unix socket private to this process: nobody else can connect.
  # The server side never reads or writes on its own.
  (def path (string "/tmp/c20-pair-" (os/getpid) "-" (++ pair-counter)))
  (try (os/rm path) ([e] nil))
  (def l (net/listen :unix path))
  (def c (net/connect :unix path))
  (def a (net/accept l))
  (os/rm path)
  [c a l])
# the TCP variant shakes hands: an ephemeral loopback port may have belonged to another process a moment ago, and a stranger's
# connection (or probe) may arrive on it
(defn accept-ours [l]
  (var a nil)
  (while (nil? a)
    (def x (net/accept l))
    (if (= "c20!" (string (or (try (ev/read x 4) ([e] nil)) ""))) (set a x) (ev/close x)))
  a)
(defn tcp-pair []
  (def l (net/listen "127.0.0.1" "0"))
  (def [_ port] (net/localname l))
  (def c (net/connect "127.0.0.1" (string port)))
  (ev/write c "c20!")
  [c (accept-ours l) l])
# reader and writer parked on the same duplex stream at once, then `how` happens; both must be released
(defn duplex-both [how]
  (def [c a l] (connected-pair))
  (def dn (ev/chan 2))
  (def fr (ev/spawn (try (ev/read c 16) ([e] nil)) (ev/give dn :reader)))
  (def fw (ev/spawn (try (ev/write c (big-payload)) ([e] nil)) (ev/give dn :writer)))
  (wait-parked c 2)
  (case how
    :close (ev/close c)
    :peer-close (ev/close a)
    :cancel-then-close (do (ev/cancel fr :x) (ev/cancel fw :x) (ev/sleep 0) (ev/close c))
    :close-then-cancel (do (ev/close c) (ev/cancel fw :x) (ev/cancel fr :x)))
  (ev/take dn) (ev/take dn)
  (ev/close c) (ev/close a) (ev/close l))
# handles kept referenced on purpose (so that only explicit closes, not finalisers, can release their descriptors)
(def keep @[])
(defn thread-drain [c back n] (ev/thread (fn [] (for k 0 n (ev/give back (ev/take c)))) nil :n))
# several givers parked on a full thread channel; the earlier ones abandon their wait (`how`), the last one must still be
# resumed by the takes that follow.  The givers yield a different number of times first so that their sched ids differ.
(defn tchan-givers [how nabandon taker]
  (def tc (ev/thread-chan 1))
  (ev/give tc :fill)
  (def dn (ev/chan 8))
  (def quitters @[])
  (for k 0 nabandon
    (array/push quitters
      (ev/spawn (for j 0 (+ 1 k) (ev/sleep 0))
                (try (case how
                       :deadline (ev/with-deadline 0.002 (ev/give tc [:quitter k]))
                       :select (ev/select [tc [:quitter k]] dn)
                       (ev/give tc [:quitter k]))
                     ([e] nil))
                (ev/give dn [:quitter k]))))
  (def stayer (ev/spawn (for j 0 (+ 3 nabandon) (ev/sleep 0)) (ev/give tc :stayer) (ev/give dn :stayer)))
  # all parked: a blocking give has already queued its item
  (while (< (ev/count tc) (+ 2 nabandon)) (ev/sleep 0.001))
  (case how
    :cancel (each q quitters (ev/cancel q :abandon))
    :select (for k 0 nabandon (ev/give dn :other-clause))
    nil)
  # the quitters are gone (their completion messages arrive), the stayer is still parked
  (var gone 0)
  (while (< gone nabandon)
    (def m (ev/take dn))
    (when (and (tuple? m) (= :quitter (m 0))) (++ gone)))
  # now drain the channel: the wake-up must be forwarded past the abandoned entries to the stayer
  (if (= taker :thread)
    (do (def back (ev/thread-chan 8)) (thread-drain tc back (+ 2 nabandon)) (for k 0 (+ 2 nabandon) (ev/take back)))
    (for k 0 (+ 2 nabandon) (ev/take tc)))
  (while (not= :stayer (ev/take dn)) nil))
# ---- bursts of cross-thread completions: several events are in the loop's self pipe when it is read
# hold the loop's thread (no yield, so nothing is read from the pipe) until n events are queued in it: a logical wait, the clock
# decides nothing
(defn hold-until-in-pipe [n] (while (< ((c20/stats) 6) n) (os/sleep 0.0005)))
(defn thread-give-n [c n] (ev/thread (fn [] (for j 0 n (ev/give c j))) nil :n))
# k fibers each wait for their own helper thread; the threads all finish while the loop is held
(defn burst-await [k]
  (def go (ev/thread-chan k))
  (def dn (ev/chan k))
  (var started 0)
  (for j 0 k (ev/spawn (++ started) (thread-wait-chan go) (ev/give dn j)))
  (while (< started k) (ev/sleep 0))
  (for j 0 k (ev/give go j))
  (hold-until-in-pipe k)
  (for j 0 k (ev/take dn)))
# k fire-and-forget threads log their own completion; only the loop's pending-work count keeps the program alive for them
(defn burst-nowait [k base]
  (for j 0 k (thread-nowait-log 0 (+ base j)))
  (hold-until-in-pipe k))
# k subprocesses exit while the loop is held (each ends when its stdin is closed); k fibers wait for them
(defn burst-proc [k]
  (def dn (ev/chan k))
  (def ps @[])
  (for j 0 k (ev/spawn (def p (os/spawn ["cat"] :p {:in :pipe})) (array/push ps p) (os/proc-wait p) (os/proc-close p) (ev/give dn j)))
  (while (< (length ps) k) (ev/sleep 0))
  (each p ps (ev/close (p :in)))
  (hold-until-in-pipe k)
  (for j 0 k (ev/take dn)))
# k fibers parked on a thread channel are served by one worker thread while the loop is held
(defn burst-tchan [k]
  (def tc (ev/thread-chan 0))
  (def dn (ev/chan k))
  (var started 0)
  (for j 0 k (ev/spawn (++ started) (ev/take tc) (ev/give dn j)))
  (while (< started k) (ev/sleep 0))
  (thread-give-n tc k)
  (hold-until-in-pipe k)
  (for j 0 k (ev/take dn)))
# ---- signals: one handler per signal shared by all tasks that use it (a handler is looked up when the event is delivered)
(def sig-chan (ev/chan 64))
(var sig-users 0)
(defn signal-roundtrip []
  (when (= 1 (++ sig-users)) (os/sigaction :usr1 (fn [&] (ev/give sig-chan :usr1))))
  (c20/raise 10)
  (assert (= :usr1 (ev/take sig-chan)))
  (when (= 0 (-- sig-users)) (os/sigaction :usr1 nil)))
# the raising task finishes at once: only the posted event keeps the loop alive until the handler has run
(def sig2-ids @[])
(defn sig2-handler [&]
  (c20/log (string "done " (array/pop sig2-ids)))
  (when (empty? sig2-ids) (os/sigaction :usr2 nil)))
(defn signal-nowait [id]
  (array/push sig2-ids id)
  (os/sigaction :usr2 sig2-handler)
  (c20/raise 12))
# a handler installed with interrupt-interpreter = true: the trampoline also calls janet_interpreter_interrupt, the raising fiber comes
# back from janet_continue_signal with JANET_SIGNAL_INTERRUPT at its next call / backward jump (counted as suspended, returned by
# janet_loop1, rescheduled by the caller), the run-queue loop stands still (`auto_suspend`) until the posted event has been delivered
(def sig3-chan (ev/chan 64))
(var sig3-users 0)
(defn signal-interrupt []
  (when (= 1 (++ sig3-users)) (os/sigaction :urg (fn [&] (ev/give sig3-chan :urg)) true))
  (c20/raise 23)
  (var spin 0) (while (< spin 40) (++ spin))
  (assert (= :urg (ev/take sig3-chan)))
  (when (= 0 (-- sig3-users)) (os/sigaction :urg nil)))
# ---- file watcher: a listener on an inotify stream, pinned while listening
(defn filewatch-roundtrip [tag]
  (def d (string "/tmp/c20-fw-" (os/getpid) "-" tag))
  (os/mkdir d)
  (def c (ev/chan 16))
  (def fw (filewatch/new c))
  (filewatch/add fw d :create)
  (filewatch/listen fw) (c20/op "watch-listen")
  (spit (string d "/f") "x")
  (def e (ev/take c))
  (assert (= :create (e :type)))
  (filewatch/unlisten fw) (c20/op "watch-unlisten")
  (os/rm (string d "/f")) (os/rmdir d))
(defn to-file-roundtrip []
  (def [r w] (os/pipe))
  (def f (ev/to-file w))
  (file/write f "hey") (file/flush f) (file/close f)
  (assert (deep= @"hey" (ev/read r 3)))
  (ev/close w) (ev/close r))
# ---- shared (reference counted) objects inside a message that is never taken: the carrier channel becomes garbage
# a carrier thread channel holding one undelivered message that refers to x...; only the message refers to the carrier's content
(defn undelivered [& xs] (def m (ev/thread-chan 4)) (ev/give m [:request ;xs]) nil)
# a carrier whose undelivered message holds the ONLY references to a fresh lock, thread channel and rwlock
(defn carrier-with-fresh [] (def m (ev/thread-chan 4)) (ev/give m [:request (ev/lock) (ev/thread-chan 1) (ev/rwlock)]) m)
(defn free-port-listener []
  # listen on an ephemeral loopback port; returns [server port]
  (def s (net/listen "127.0.0.1" "0"))
  (def [_ port] (net/localname s))
  [s port])
'''

# name -> (cost class, body of (defn cycle [i] ...)); {A} {B} {C} are small integers drawn per run
CYCLES = {
    # ---- streams: open / use / close
    "pipe-rw-close": ("cheap", r'''
  (def [r w] (os/pipe))
  (ev/write w (string/repeat "x" {A}))
  (ev/read r {A})
  (if (even? i) (do (ev/close r) (ev/close w)) (do (ev/close w) (ev/close r)))'''),
    "pipe-reader-task-close": ("cheap", r'''
  (def [r w] (os/pipe))
  (def t (ev/spawn (ev/read r 10)))
  (ev/sleep 0)
  (ev/close r)        # close under a pending read: the reader must be released
  (ev/close w)
  (ev/sleep 0)'''),
    "pipe-gc-finalise": ("cheap", r'''
  (def [r w] (os/pipe))
  (ev/write w "abc")
  (ev/read r 3)
  # never closed: the finaliser must close both descriptors
  (when (= 0 (% i 20)) (gccollect))'''),
    "pipe-read-timeout": ("cheap", r'''
  (def [r w] (os/pipe))
  (try (ev/read r 10 nil 0.001) ([e] nil))
  (ev/close r) (ev/close w)'''),
    "pipe-write-closed-error": ("cheap", r'''
  (def [r w] (os/pipe))
  (ev/close r)
  (try (ev/write w "hello") ([e] nil))    # EPIPE path
  (ev/close w)'''),
    "file-open-close": ("cheap", r'''
  (def f (os/open "/dev/null" :w))
  (ev/write f "zz")
  (ev/close f)
  (try (os/open "/nonexistent-dir/x" :r) ([e] nil))'''),
    # ---- processes
    "spawn-wait": ("proc", r'''
  (def p (os/spawn ["true"] :p))
  (os/proc-wait p)'''),
    "spawn-pipes-wait-close": ("proc", r'''
  (def p (os/spawn ["cat"] :p {:in :pipe :out :pipe}))
  (ev/write (p :in) "hello")
  (ev/close (p :in))
  (ev/read (p :out) 5)
  (os/proc-wait p)
  (os/proc-close p)'''),
    "spawn-pipes-gc-only": ("proc", r'''
  (def p (os/spawn ["true"] :p {:in :pipe :out :pipe :err :pipe}))
  (os/proc-wait p)
  # pipes never closed explicitly
  (when (= 0 (% i 10)) (gccollect))'''),
    "spawn-fail-with-pipes": ("cheap", r'''
  (try (os/spawn ["/nonexistent/c20-no-such-binary"] :p {:in :pipe :out :pipe :err :pipe}) ([e] nil))
  (try (os/execute ["/nonexistent/c20-no-such-binary"] :p) ([e] nil))'''),
    "spawn-kill-wait": ("proc", r'''
  (def p (os/spawn ["sleep" "100000"] :p))
  (os/proc-kill p true)'''),
    "spawn-unwaited-gc": ("proc", r'''
  (os/spawn ["true"] :p)
  # never waited: the finaliser must reap it
  (when (= 0 (% i 10)) (gccollect))'''),
    "execute-nonzero": ("proc", r'''
  (os/execute ["sh" "-c" "exit 3"] :p)
  (try (os/execute ["sh" "-c" "exit 4"] :px) ([e] nil))'''),
    "proc-wait-cancelled": ("proc", r'''
  (def p (os/spawn ["sleep" "100000"] :p))
  (def t (ev/spawn (try (os/proc-wait p) ([e] nil))))
  (ev/sleep 0)
  (ev/cancel t "stop")       # waiter abandoned while the helper thread is outstanding
  (ev/sleep 0)
  (os/proc-kill p)
  (quiesce)'''),
    # ---- network
    "tcp-connect-accept": ("net", r'''
  (def [c a s] (tcp-pair))
  (ev/write c "ping")
  (ev/read a 4)
  (ev/write a "pong")
  (ev/read c 4)
  (ev/close c) (ev/close a) (ev/close s)'''),
    "tcp-connect-refused": ("net", r'''
  # nothing listens on the privileged port 1 (never handed out as an ephemeral port, so no other process is disturbed)
  # (under load another process on this box was once seen listening there: this cycle measures descriptors, both outcomes are fine)
  (try (do (def c (net/connect "127.0.0.1" "1")) (ev/close c)) ([e] nil))
  # the refusal path itself, on a name only this process uses
  (assert (= :refused (try (do (def c (net/connect :unix (string "/tmp/c20-refused-" (os/getpid)))) (ev/close c) :connected) ([e] :refused))))'''),
    # error paths found through the descriptor-ownership model (Loop/Fds.lean): an error raised while C locals hold descriptors
    "spawn-badarg-with-pipes": ("proc", r'''
  (assert (= :err (try (do (os/spawn ["true" 42] :p {:in :pipe :out :pipe}) :ok) ([e] :err))))
  (assert (= :err (try (do (os/spawn ["true"] :p {:in :pipe :out 42}) :ok) ([e] :err))))
  (assert (= :err (try (do (os/spawn ["true"] :p {:err :pipe :cd 1}) :ok) ([e] :err))))
  (def f (file/open "/dev/null" :w)) (file/close f)
  (assert (= :err (try (do (os/spawn ["true"] :p {:in :pipe :out f}) :ok) ([e] :err))))'''),
    "file-open-bad-bufsize": ("cheap", r'''
  (assert (= :err (try (do (file/open "/dev/null" :r "bad") :ok) ([e] :err))))
  (assert (= :err (try (do (file/open "/dev/null" :r -1) :ok) ([e] :err))))
  (def f (file/open "/dev/null" :r 0)) (file/close f)'''),
    "spawn-std-source-redirect": ("proc", r'''
  # {:err stdout}: the child takes the source from a close-on-exec duplicate (fcntl F_DUPFD) that the parent closes again
  (def p (os/spawn ["true"] :p {:err stdout :out stderr}))
  (os/proc-wait p)'''),
    "connect-fail-then-reuse-fd": ("cheap", r'''
  (try (net/connect :unix "/tmp/c20-no-such-socket") ([e] nil))
  (def [r w] (os/pipe))      # usually gets the descriptor number the failed connection had
  (gccollect)                # the dead connection's stream is finalised: it must not close a descriptor it no longer owns
  (ev/write w "x")
  (assert (deep= @"x" (ev/read r 1)) "pipe broken")
  (ev/close r) (ev/close w)'''),
    "listen-port-in-use": ("net", r'''
  (def [s port] (free-port-listener))
  # EADDRINUSE: the socket created for the second listener must be closed on the error path
  (assert (= :failed (try (do (net/listen "127.0.0.1" (string port) :stream true) :bound) ([e] :failed))))
  (ev/close s)'''),
    "tcp-bad-address": ("cheap", r'''
  (try (net/connect "256.256.256.256.invalid" "80") ([e] nil))
  (try (net/listen "127.0.0.1" "not-a-port") ([e] nil))'''),
    "tcp-accept-timeout-cancel": ("net", r'''
  (def [s port] (free-port-listener))
  (try (net/accept s 0.001) ([e] nil))
  (def t (ev/spawn (try (net/accept s) ([e] nil))))
  (ev/sleep 0)
  (ev/cancel t "stop")
  (ev/sleep 0)
  (ev/close s)'''),
    "tcp-server-handler": ("net", r'''
  (def [s port] (free-port-listener))
  (def srv (ev/spawn (with [conn (accept-ours s)] (ev/write conn (ev/read conn 3)))))
  (with [c (net/connect "127.0.0.1" (string port))]
    (ev/write c "c20!")
    (ev/write c "abc")
    (ev/read c 3))
  (ev/sleep 0)
  (ev/close s)'''),
    "unix-socket": ("net", r'''
  (def path (string "/tmp/c20-sock-" (os/getpid) "-" (% i 4)))
  (try (os/rm path) ([e] nil))
  (def s (net/listen :unix path))
  (def c (net/connect :unix path))
  (def a (net/accept s))
  (ev/write c "hi") (ev/read a 2)
  (ev/close c) (ev/close a) (ev/close s)
  (os/rm path)'''),
    # ---- resources released ONLY by finalisers: drop the last reference, then collect
    "gc-only-running-child": ("proc", r'''
  # still running, never waited, handle dropped at once: the finaliser must kill AND reap it
  (os/spawn ["sleep" "100000"] :p)
  (gccollect)'''),
    "gc-only-running-child-pipes": ("proc", r'''
  (os/spawn ["cat"] :p {:in :pipe :out :pipe :err :pipe})   # running (blocked on stdin), three pipes, all dropped
  (when (odd? i) (gccollect))'''),
    "gc-only-child-pipes-then-poll": ("proc", r'''
  # the handle and its three pipe streams are finalised while the freshly spawned child may still be between fork and exec
  # (holding copies of every descriptor); the loop polls right afterwards: no event may refer to a finalised stream (ASan)
  (os/spawn ["cat"] :p {:in :pipe :out :pipe :err :pipe})
  (gccollect)
  (ev/sleep 0)'''),
    "gc-only-mixed-children": ("proc", r'''
  (os/spawn ["sleep" "100000"] :p)
  (os/spawn ["true"] :p)
  (def p (os/spawn ["sleep" "100000"] :p))
  (os/proc-kill p)                       # killed but never waited: a zombie until the finaliser reaps it
  (when (= 0 (% i 4)) (gccollect))'''),
    "gc-only-sockets": ("net", r'''
  (def [c a l] (connected-pair))         # client, server side and listener all dropped unclosed
  (def [c2 a2 l2] (tcp-pair))
  (ev/write c "x") (ev/write c2 "x")
  (when (= 0 (% i 8)) (gccollect))'''),
    "gc-only-unix-listener": ("net", r'''
  (def path (string "/tmp/c20-gconly-" (os/getpid)))
  (try (os/rm path) ([e] nil))
  (net/listen :unix path)
  (net/listen "127.0.0.1" "0" :datagram)
  (when (= 0 (% i 8)) (gccollect))'''),
    "gc-only-files": ("cheap", r'''
  (os/open "/dev/null" :w)               # core/stream over a file
  (file/open "/dev/null" :w)             # core/file (FILE*)
  (def [r w] (os/pipe))
  (when (= 0 (% i 16)) (gccollect))'''),
    "gc-only-filewatch": ("cheap", r'''
  (def c (ev/chan 4))
  (def fw (filewatch/new c))
  (filewatch/add fw "/tmp" :all)
  (when (even? i) (filewatch/listen fw) (ev/sleep 0) (filewatch/unlisten fw))
  (when (= 0 (% i 8)) (gccollect))'''),
    "gc-only-channels": ("cheap", r'''
  (def c (ev/chan 8)) (for k 0 8 (ev/give c (string "item" k)))
  (def tc (ev/thread-chan 8)) (for k 0 8 (ev/give tc (string "item" k)))   # queued items are marshalled buffers (malloc)
  (ev/lock) (ev/rwlock)
  (when (= 0 (% i 16)) (gccollect))'''),
    "gc-only-fiber-holding-stream": ("cheap", r'''
  (def f (fiber/new (fn [] (def [r w] (os/pipe)) (def fl (os/open "/dev/null" :w)) (yield 1) (ev/close r) (ev/close w) (ev/close fl))))
  (resume f)                             # unfinished coroutine: the only holder of three descriptors
  (when (= 0 (% i 16)) (gccollect))'''),
    "gc-only-thread-shared": ("thread", r'''
  (def c (ev/thread-chan 2))
  (def back (ev/thread-chan 2))
  (thread-echo c back 2)
  (ev/give c (ev/lock)) (ev/take back)         # shared objects whose last reference is dropped after a round trip
  (ev/give c (ev/thread-chan 1)) (ev/take back)
  (quiesce)
  (when (= 0 (% i 4)) (gccollect))'''),
    # ---- two waiters of different kinds on one object
    "duplex-close-both": ("net", r'''
  (duplex-both :close)'''),
    "duplex-peer-close-both": ("net", r'''
  (duplex-both :peer-close)'''),
    "duplex-cancel-both": ("net", r'''
  (duplex-both (if (even? i) :cancel-then-close :close-then-cancel))'''),
    "accept-then-close": ("net", r'''
  (def [s port] (free-port-listener))
  (def t (ev/spawn (try (net/accept s) ([e] nil))))
  (wait-parked s 1)
  (ev/close s)
  (quiesce)'''),
    "proc-wait-kill-close-pipes": ("proc", r'''
  (def p (os/spawn ["cat"] :p {:in :pipe :out :pipe}))
  (def dn (ev/chan 2))
  (ev/spawn (os/proc-wait p) (ev/give dn :waiter))
  (ev/spawn (try (ev/read (p :out) 10) ([e] nil)) (ev/give dn :reader))
  (wait-parked (p :out) 1)
  (os/proc-kill p)
  (ev/close (p :out)) (ev/close (p :in))
  (ev/take dn) (ev/take dn)'''),
    "deadline-then-close": ("cheap", r'''
  (def [r w] (os/pipe))
  (def t (ev/spawn (try (ev/with-deadline 1000000 (ev/read r 10)) ([e] nil))))
  (wait-parked r 1)
  (ev/close r) (ev/close w)
  (quiesce)'''),
    # ---- shared (reference counted) objects travelling through thread channels and coming back to a thread that holds them
    "shared-object-pingpong-local": ("cheap", r'''
  (def c (ev/thread-chan 4))
  (def objs [(ev/thread-chan 1) (ev/lock) (ev/rwlock)])
  (each o objs (ev/give c o))
  (each o objs (assert (= o (ev/take c))))     # re-received by the thread that already holds them
  (ev/give c (objs 0)) (ev/take c)'''),
    "shared-object-pingpong-worker": ("thread", r'''
  (def c (ev/thread-chan 2))
  (def back (ev/thread-chan 2))
  (thread-echo c back 3)
  (def objs [(ev/thread-chan 1) (ev/lock) (ev/rwlock)])
  (each o objs (ev/give c o) (assert (= o (ev/take back))))   # sent to a worker, comes back
  (quiesce)'''),
    # ---- channels
    "chan-traffic": ("cheap", r'''
  (def c (ev/chan {B}))
  (def prod (ev/spawn (for k 0 {A} (ev/give c k))))
  (for k 0 {A} (ev/take c))'''),
    "chan-select-close": ("cheap", r'''
  (def c1 (ev/chan)) (def c2 (ev/chan 1))
  (def t (ev/spawn (ev/select c1 c2)))
  (ev/sleep 0)
  (if (even? i) (ev/give c2 1) (ev/chan-close c1))
  (ev/sleep 0)'''),
    "chan-supervisor": ("cheap", r'''
  (def sup (ev/chan 4))
  (ev/go (fn [] (error "boom")) nil sup)
  (ev/go (fn [] 1) nil sup)
  (ev/take sup) (ev/take sup)'''),
    "thread-chan-local": ("cheap", r'''
  (def c (ev/thread-chan {B}))
  (def prod (ev/spawn (for k 0 {A} (ev/give c k))))
  (for k 0 {A} (ev/take c))'''),
    "thread-chan-blocking-take": ("cheap", r'''
  (def c (ev/thread-chan 0))
  (def prod (ev/spawn (ev/sleep 0) (ev/give c :x)))
  (ev/take c)      # blocks: pending reader on a threaded channel
  (ev/sleep 0)'''),
    "thread-chan-blocking-give": ("cheap", r'''
  (def c (ev/thread-chan 0))
  (def cons (ev/spawn (ev/sleep 0) (ev/take c)))
  (ev/give c :x)   # blocks: pending writer on a threaded channel
  (ev/sleep 0)'''),
    "thread-chan-worker": ("thread", r'''
  (def c (ev/thread-chan 2))
  (def back (ev/thread-chan 2))
  (thread-echo c back {C})
  (for k 0 {C} (ev/give c k) (ev/take back))'''),
    # ---- threads
    "thread-start-finish": ("thread", r'''
  (ev/thread (fn [] (+ 1 2)))'''),
    "thread-nowait-supervised": ("thread", r'''
  (def sup (ev/thread-chan 4))
  (ev/thread (fn [] :ok) nil :n sup)
  (ev/take sup)'''),
    "thread-error": ("thread", r'''
  (def sup (ev/thread-chan 4))
  (ev/thread (fn [] (error "in-thread")) nil :n sup)
  (ev/take sup)'''),
    "do-thread-result": ("thread", r'''
  (ev/do-thread (os/sleep 0.0005))'''),
    "thread-await-cancelled": ("thread", r'''
  (def go (ev/thread-chan 1))
  (def t (ev/spawn (try (thread-wait-chan go) ([e] nil))))
  (ev/sleep 0)
  (ev/cancel t "stop")     # the awaiting task is cancelled and finishes while its helper thread is still running
  (ev/sleep 0)
  (ev/give go :finish)
  (quiesce)'''),
    # ---- cancelled waits, timers, deadlines
    "cancel-take": ("cheap", r'''
  (def c (ev/chan))
  (def t (ev/spawn (try (ev/take c) ([e] nil))))
  (ev/sleep 0)
  (ev/cancel t "stop")
  (ev/sleep 0)'''),
    "cancel-sleep": ("cheap", r'''
  (def t (ev/spawn (try (ev/sleep 1000000) ([e] nil))))
  (ev/sleep 0)
  (ev/cancel t "stop")     # leaves a stale long timer behind
  (ev/sleep 0)'''),
    "cancel-read": ("cheap", r'''
  (def [r w] (os/pipe))
  (def t (ev/spawn (try (ev/read r 10) ([e] nil))))
  (ev/sleep 0)
  (ev/cancel t "stop")
  (ev/sleep 0)
  (ev/close r) (ev/close w)'''),
    "cancel-thread-chan-take": ("cheap", r'''
  (def c (ev/thread-chan 0))
  (def t (ev/spawn (try (ev/take c) ([e] nil))))
  (ev/sleep 0)
  (ev/cancel t "stop")
  (ev/sleep 0)'''),
    # a waiter of a THREAD channel whose wait is over (cancelled / deadline / satisfied through another ev/select clause) leaves a stale
    # pending entry - and the root taken for it - behind; ev/chan-close by the same thread pops it and must give the root back (seed C20-7)
    "cancel-thread-chan-take-then-close": ("cheap", r'''
  (def c (ev/thread-chan 0))
  (def t (ev/spawn (try (ev/take c) ([e] nil))))
  (ev/sleep 0)
  (ev/cancel t "stop")
  (ev/sleep 0)
  (ev/chan-close c)'''),
    "cancel-thread-chan-give-then-close": ("cheap", r'''
  (def c (ev/thread-chan 1))
  (ev/give c :fill)
  (def t (ev/spawn (try (ev/give c (string "x" i)) ([e] nil))))
  (ev/sleep 0)
  (ev/cancel t "stop")
  (ev/sleep 0)
  (ev/chan-close c)'''),
    "deadline-thread-chan-take-then-close": ("cheap", r'''
  (def c (ev/thread-chan 0))
  (try (ev/with-deadline 0.001 (ev/take c)) ([e] nil))
  (ev/chan-close c)'''),
    "select-other-clause-thread-chan-then-close": ("cheap", r'''
  (def c (ev/thread-chan 0))
  (def other (ev/chan 1))
  (def dn (ev/chan 1))
  (ev/spawn (ev/give dn (ev/select c other)))
  (ev/sleep 0)
  (ev/give other :go)
  (assert (= :take ((ev/take dn) 0)))
  (ev/chan-close c)'''),
    "deadline-expires": ("cheap", r'''
  (def c (ev/chan))
  (try (ev/with-deadline 0.001 (ev/take c)) ([e] nil))'''),
    "deadline-unused": ("cheap", r'''
  (ev/with-deadline 1000000 (+ 1 1))   # finishes at once; the long deadline timer is stale
  (ev/sleep 0)'''),
    "take-timeout-unused": ("cheap", r'''
  (def [r w] (os/pipe))
  (ev/write w "q")
  (ev/read r 1 nil 1000000)            # completes at once; the long timeout is stale
  (ev/close r) (ev/close w)'''),
}

CYCLES.update({
    # ---- bursts: several completions queued in the self pipe when it is read ({A} in 1..40)
    "burst-thread-awaits": ("thread", "\n  (burst-await (+ 1 (% (+ i {A}) 24)))"),
    "burst-thread-nowait": ("thread", "\n  (for j 0 (+ 1 (% (+ i {A}) 24)) (ev/thread (fn [] nil) nil :n))\n  (hold-until-in-pipe (+ 1 (% (+ i {A}) 24)))\n  (quiesce)"),
    "burst-proc-waits": ("proc", "\n  (burst-proc (+ 1 (% (+ i {A}) 20)))"),
    "burst-tchan-wakeups": ("thread", "\n  (burst-tchan (+ 1 (% (+ i {A}) 40)))\n  (quiesce)"),
    # ---- a shared object travels inside a message nobody takes; the carrier channel is collected (its finaliser gives the
    #      in-transit reference back), in both orders: carrier first / other holders first; and with a worker thread as a holder
    "shared-undelivered-carrier-first": ("cheap", "\n  (def x [(ev/lock) (ev/thread-chan 1) (ev/rwlock)])\n  (undelivered ;x)\n  (gccollect)           # the carrier goes, x is still held here\n  (assert (= 0 (ev/count (x 1))))"),
    "shared-undelivered-holders-first": ("cheap", "\n  (def m (carrier-with-fresh))\n  (gccollect)           # this thread's handles of the three objects go, the message keeps them alive\n  (assert (= 1 (ev/count m)))"),
    "shared-undelivered-after-worker": ("thread", "\n  (def c (ev/thread-chan 2)) (def back (ev/thread-chan 2))\n  (thread-echo c back 1)\n  (def x (ev/thread-chan 1))\n  (ev/give c x) (assert (= x (ev/take back)))     # a worker thread held it too, and has ended\n  (quiesce)\n  (undelivered x c back)\n  (when (odd? i) (gccollect))"),
    # ---- signals, file watcher, ev/to-file
    "signal-roundtrip": ("cheap", "\n  (signal-roundtrip)"),
    "signal-interrupt-roundtrip": ("cheap", "\n  (signal-interrupt)"),
    "sigaction-install-replace-remove": ("cheap", "\n  (os/sigaction :usr1 (fn [&] nil))\n  (os/sigaction :usr1 (fn [&] 1))\n  (when (odd? i) (os/sigaction :usr1 nil))\n  (os/sigaction :usr1 nil)"),
    "filewatch-event": ("cheap", "\n  (filewatch-roundtrip (% i 4))"),
    "filewatch-listen-unlisten": ("cheap", "\n  (def fw (filewatch/new (ev/chan 4)))\n  (filewatch/add fw \"/tmp\" :create)\n  (filewatch/listen fw)\n  (when (odd? i) (ev/sleep 0))\n  (filewatch/unlisten fw)\n  (filewatch/unlisten fw)"),
    "to-file": ("cheap", "\n  (to-file-roundtrip)"),
    "supervisor-mixed": ("thread", "\n  (def sup (ev/chan 4)) (def tsup (ev/thread-chan 4))\n  (ev/go (fn [] (ev/sleep 0) (error \"boom\")) nil sup)\n  (ev/go (fn [] :ok) nil sup)\n  (ev/thread (fn [] (error \"in-thread\")) nil :n tsup)\n  (ev/take sup) (ev/take sup) (ev/take tsup)"),
})

for _how in ("cancel", "deadline", "select"):
    for _taker in ("local", "thread"):
        CYCLES["tchan-givers-abandon-%s-%s" % (_how, _taker)] = (
            "thread" if _taker == "thread" else "cheap",
            "\n  (tchan-givers :%s (+ 1 (%% i 3)) :%s)" % (_how, _taker))

# ---- subprocess API matrix: {0..3 :pipe redirections} x {order of wait / close / kill / abandon / drop} x {handle kept or dropped}
RESOURCE_METRICS = ["fds", "children", "zombies", "lc", "tq", "rq", "shared"]   # what is judged when handles are kept on purpose
PIPESETS = {0: "", 1: " {:out :pipe}", 2: " {:in :pipe :out :pipe}", 3: " {:in :pipe :out :pipe :err :pipe}"}
#   order -> (child, janet code using p)
PROC_ORDERS = {
    "wait": ("true", "(os/proc-wait p)"),
    "close": ("true", "(os/proc-close p)"),
    "wait-close": ("true", "(os/proc-wait p) (assert (nil? (os/proc-close p)))"),
    "close-wait-error": ("true", "(os/proc-close p) (assert (= :err (try (do (os/proc-wait p) :ok) ([e] :err))))"),
    "kill-close": ("sleep", "(os/proc-kill p) (os/proc-close p)"),
    "killwait-close": ("sleep", "(os/proc-kill p true) (os/proc-close p)"),
    "kill-wait-close": ("sleep", "(os/proc-kill p) (assert (= 137 (os/proc-wait p))) (os/proc-close p) (assert (= 137 (p :return-code)))"),
    "drop-gc": ("true", "(when (= 0 (% i 8)) (gccollect))"),
    "running-drop-gc": ("sleep", "(when (= 0 (% i 8)) (gccollect))"),
    # the waiter abandons its wait (cancel), only then the child exits; afterwards the handle must say so
    "abandon-exit-close": ("sleep", "(def t (ev/spawn (try (os/proc-wait p) ([e] nil)))) (ev/sleep 0) (ev/cancel t :x) (ev/sleep 0) "
                                    "(os/proc-kill p) (quiesce) (assert (= 137 (p :return-code)) \"exit status recorded\") (os/proc-close p)"),
    "abandon-exit-wait-error": ("sleep", "(def t (ev/spawn (try (os/proc-wait p) ([e] nil)))) (ev/sleep 0) (ev/cancel t :x) (ev/sleep 0) "
                                         "(os/proc-kill p) (quiesce) (assert (= :err (try (do (os/proc-wait p) :ok) ([e] :err)))) "
                                         "(assert (= 137 (p :return-code))) (os/proc-close p)"),
    "deadline-exit-close": ("sleep", "(try (ev/with-deadline 0.002 (os/proc-wait p)) ([e] nil)) (os/proc-kill p) (quiesce) "
                                     "(assert (= 137 (p :return-code))) (os/proc-close p)"),
}
CLOSING_ORDERS = [o for o, (c, code) in PROC_ORDERS.items() if "proc-close" in code]
for _np, _env in PIPESETS.items():
    for _order, (_child, _code) in PROC_ORDERS.items():
        for _kept in ((True, False) if _order in CLOSING_ORDERS else (False,)):
            _cmd = '["true"]' if _child == "true" else '["sleep" "100000"]'
            _body = "\n  (def p (os/spawn %s :p%s))\n  %s" % (_cmd, _env, _code)
            if _kept:
                _body += "\n  (array/push keep p)"
            CYCLES["proc:%dpipes:%s:%s" % (_np, _order, "kept" if _kept else "dropped")] = (
                "matrix", _body) + ((RESOURCE_METRICS,) if _kept else ())

# ---- subprocess redirection matrix (session 4d): {redirection shape of the three stdio slots, INCLUDING sources that are themselves a
#      standard descriptor ({:err stdout}, {:out stderr}, {:in stderr} ...: the only case in which os_execute_impl makes close-on-exec
#      duplicates, tmp_handles)} x {the spawn succeeds, fails: missing program / non-executable file / bad :cd} x {os/spawn, os/execute}.
#      A failed posix_spawn leaves through `if (status) janet_panicf`, a different exit than every argument / pipe error; whatever the
#      call created before (pipe ends, duplicates) must be gone on that exit too.
#   source kind -> (setup, expression, teardown); {K} = slot name, {M} = open mode of the slot
REDIR_SOURCES = {
    "pipe": ("", ":pipe", ""),                      # os/spawn only
    "same-as-out": ("", ":out", ""),                # :err only, os/spawn only
    "stdin": ("", "stdin", ""), "stdout": ("", "stdout", ""), "stderr": ("", "stderr", ""),
    "file": ('(def f-{K} (file/open "/dev/null" :{M}))', "f-{K}", "(file/close f-{K})"),
    "stream": ('(def s-{K} (os/open "/dev/null" :{M}))', "s-{K}", "(ev/close s-{K})"),
}
REDIR_SLOTS = (("in", "r"), ("out", "w"), ("err", "w"))
REDIR_SHAPES = []        # (in, out, err) source kinds, None = slot not redirected
for _slot in range(3):
    for _kind in ("pipe", "stdin", "stdout", "stderr", "file", "stream"):
        REDIR_SHAPES.append(tuple(_kind if j == _slot else None for j in range(3)))
REDIR_SHAPES += [
    (None, None, "same-as-out"), (None, "pipe", "same-as-out"), (None, "stderr", "same-as-out"), ("pipe", "stderr", "same-as-out"),
    (None, "stderr", "stdout"),              # the two swapped: two duplicates
    ("stdin", "stdout", "stderr"),           # every slot its own descriptor: no duplicate
    ("stderr", "stdin", "stdin"), ("stdout", "stderr", "stdout"),     # three duplicates
    ("pipe", "pipe", "stdout"), ("pipe", "stdin", "pipe"),            # pipes and duplicates together
    ("file", "stderr", "file"), ("stream", "stream", "stream"), ("pipe", "pipe", "pipe"),
]
#   outcome -> (program, flags, extra dictionary entries, does the call succeed)
REDIR_OUTCOMES = {
    "ok": ('["true"]', ":p", "", True),
    "missing-program": ('["/nonexistent/c20-no-such-binary"]', ":p", "", False),
    "not-executable": ('["/etc/passwd"]', "", "", False),
    "bad-cd": ('["true"]', ":p", ' :cd "/nonexistent/c20-no-such-dir"', False),
}


def _redir_body(api, shape, outcome):
    prog, flags, extra, succeeds = REDIR_OUTCOMES[outcome]
    setup, entries, teardown = [], [], []
    for (slot, mode), kind in zip(REDIR_SLOTS, shape):
        if kind is None:
            continue
        s, e, t = (x.replace("{K}", slot).replace("{M}", mode) for x in REDIR_SOURCES[kind])
        if s:
            setup.append(s)
            teardown.append(t)
        entries.append(":%s %s" % (slot, e))
    call = "(os/%s %s %s {%s%s})" % (api, prog, flags or ":", " ".join(entries), extra)
    if not succeeds:
        use = '(assert (= :err (try (do %s :ok) ([e] :err))) "the call must fail")' % call
    elif api == "spawn":
        use = "(def p %s) (assert (= 0 (os/proc-wait p))) (os/proc-close p)" % call
    else:
        use = "(assert (= 0 %s))" % call
    return "".join("\n  " + x for x in setup + [use] + teardown)


for _api in ("spawn", "execute"):
    for _shape in REDIR_SHAPES:
        if _api == "execute" and ("pipe" in _shape or "same-as-out" in _shape):
            continue        # :pipe / :out are os/spawn's
        for _outcome in REDIR_OUTCOMES:
            CYCLES["redir:%s:%s:%s" % (_api, ",".join(k or "-" for k in _shape), _outcome)] = (
                "redir-ok" if _outcome == "ok" else "redir-fail", _redir_body(_api, _shape, _outcome))

COST_N = {  # (quick N, thorough N)
    "cheap": (500, 5000),
    "net": (300, 2500),
    "proc": (100, 800),
    "thread": (80, 600),
    "matrix": (60, 400),
    "redir-ok": (40, 300),
    "redir-fail": (60, 600),
}
SINGLE_SIZE = ("matrix", "redir-ok", "redir-fail")     # cost classes run at one repeat count in the quick tier (two in thorough)


def cycle_script(name, rng, n, warm=10):
    cost, body = CYCLES[name][:2]
    a = rng.range(1, 40)
    b = rng.range(0, 4)
    c = rng.range(1, 6)
    body = body.replace("{A}", str(a)).replace("{B}", str(b)).replace("{C}", str(c))
    src = PRELUDE + "\n(defn cycle [i]" + body + ")\n" + r'''
(defn main []
  (for i 0 %d (cycle i)) (settle) (c20/measure "p0")
  (for i 0 %d (cycle i)) (settle) (c20/measure "p1")
  (for i 0 %d (cycle i)) (settle) (c20/measure "p2")
  (c20/log "main done"))
''' % (warm, n, n)
    return src, {"A": a, "B": b, "C": c, "N": n, "warm": warm}


# ------------------------------------------------------------------------------------------------ task mixes
#
# A mix is a set of tasks started by main; every task logs  "done <k>"  when it ran to completion or "cancelled <k>" from its
# error handler.  The generator knows for every task which of the two must appear (the expected-completions set).  Main itself
# returns right after starting everything (it does NOT wait), so only the event loop's own bookkeeping keeps the program alive.

def _task(kind, k, rng):
    """returns (setup, body, expect, extra) - body runs inside the task; expect in {'done','cancelled'};
    extra = janet run by main after all tasks were started (cancellations etc.)"""
    d = rng.range(1, 30) / 1000.0
    if kind == "sleep":
        return "", "(ev/sleep %g)" % d, "done", ""
    if kind == "sleep-chain":
        return "", "(for j 0 %d (ev/sleep %g))" % (rng.range(2, 5), d / 3), "done", ""
    if kind == "thread":
        return "", "(thread-sleep %g)" % d, "done", ""
    if kind == "do-thread":
        return "", "(do-thread-sleep %g)" % d, "done", ""
    if kind == "proc":
        return "", "(assert (= %d (os/proc-wait (os/spawn [\"sh\" \"-c\" \"sleep %g; exit %d\"] :p))))" % (k % 5, d, k % 5), "done", ""
    if kind == "execute":
        return "", "(assert (= 0 (os/execute [\"sleep\" \"%g\"] :p)))" % d, "done", ""
    if kind == "pipe":
        return ("(def [r%d w%d] (os/pipe))" % (k, k),
                "(ev/spawn (ev/sleep %g) (ev/write w%d \"data\") (ev/close w%d)) (assert (deep= @\"data\" (ev/read r%d 4))) (ev/close r%d)" % (d, k, k, k, k),
                "done", "")
    if kind == "proc-pipe":
        return "", ("(def p (os/spawn [\"sh\" \"-c\" \"sleep %g; echo hi\"] :p {:out :pipe})) "
                    "(assert (deep= @\"hi\\n\" (ev/read (p :out) 10))) (os/proc-wait p) (os/proc-close p)" % d), "done", ""
    if kind == "tcp":
        return ("(def [s%d port%d] (free-port-listener))" % (k, k),
                "(ev/spawn (with [conn (accept-ours s%d)] (ev/sleep %g) (ev/write conn \"pong\"))) "
                "(with [c (net/connect \"127.0.0.1\" (string port%d))] (ev/write c \"c20!\") (assert (deep= @\"pong\" (ev/read c 4)))) (ev/close s%d)" % (k, d, k, k),
                "done", "")
    if kind == "chan":
        return ("(def ch%d (ev/chan %d))" % (k, rng.range(0, 2)),
                "(ev/spawn (ev/sleep %g) (ev/give ch%d :v)) (assert (= :v (ev/take ch%d)))" % (d, k, k), "done", "")
    if kind == "tchan-thread":
        return ("(def tc%d (ev/thread-chan %d))" % (k, rng.range(0, 2)),
                "(thread-give tc%d %g :tv) (assert (= :tv (ev/take tc%d)))" % (k, d, k), "done", "")
    if kind == "read-timeout":
        return ("(def [r%d w%d] (os/pipe))" % (k, k),
                "(assert (= :timeout (try (ev/read r%d 4 nil %g) ([e] :timeout)))) (ev/close r%d) (ev/close w%d)" % (k, d, k, k), "done", "")
    if kind == "deadline":
        return ("(def ch%d (ev/chan))" % k,
                "(assert (= :dl (try (ev/with-deadline %g (ev/take ch%d)) ([e] :dl))))" % (d, k), "done", "")
    if kind == "stale-deadline":
        # a long deadline on work that finishes at once: the stale timer must not keep the loop alive (11 days)
        return "", "(ev/with-deadline 1000000 (ev/sleep %g))" % d, "done", ""
    if kind == "stale-timeout":
        return ("(def [r%d w%d] (os/pipe))" % (k, k),
                "(ev/write w%d \"z\") (ev/read r%d 1 nil 1000000) (ev/close r%d) (ev/close w%d) (ev/sleep %g)" % (k, k, k, k, d), "done", "")
    if kind in ("duplex-close-both", "duplex-peer-close-both", "duplex-cancel-both"):
        how = {"duplex-close-both": ":close", "duplex-peer-close-both": ":peer-close",
               "duplex-cancel-both": rng.choice([":cancel-then-close", ":close-then-cancel"])}[kind]
        return "", "(duplex-both %s)" % how, "done", ""
    if kind == "accept-then-close":
        return ("(def [s%d port%d] (free-port-listener))" % (k, k),
                "(def dn (ev/chan 1)) (ev/spawn (try (net/accept s%d) ([e] nil)) (ev/give dn 1)) (wait-parked s%d 1) (ev/close s%d) (ev/take dn)" % (k, k, k),
                "done", "")
    if kind == "proc-wait-kill-close-pipes":
        return ("(def p%d (os/spawn [\"cat\"] :p {:in :pipe :out :pipe}))" % k,
                "(def dn (ev/chan 2)) (ev/spawn (os/proc-wait p%d) (ev/give dn 1)) (ev/spawn (try (ev/read (p%d :out) 10) ([e] nil)) (ev/give dn 2)) "
                "(wait-parked (p%d :out) 1) (os/proc-kill p%d) (ev/close (p%d :out)) (ev/close (p%d :in)) (ev/take dn) (ev/take dn)" % (k, k, k, k, k, k),
                "done", "")
    if kind == "deadline-then-close":
        return ("(def [r%d w%d] (os/pipe))" % (k, k),
                "(def dn (ev/chan 1)) (ev/spawn (try (ev/with-deadline 1000000 (ev/read r%d 10)) ([e] nil)) (ev/give dn 1)) (wait-parked r%d 1) "
                "(ev/close r%d) (ev/close w%d) (ev/take dn)" % (k, k, k, k), "done", "")
    if kind == "tchan-givers-abandon":
        return "", "(tchan-givers %s %d %s)" % (rng.choice([":cancel", ":deadline", ":select"]), rng.range(1, 3), rng.choice([":local", ":thread"])), "done", ""
    if kind == "thread-nowait":
        # fire and forget: only the event loop's own count keeps the program alive until the thread has finished
        return "", "(thread-nowait-log %g %d)" % (d * 2, 1000 + k), "done", "", {1000 + k: "done"}
    if kind == "proc-wait-abandoned":
        # the waiter is cancelled, the process exits a little later: the helper thread is the only thing outstanding
        return ("(def p%d (os/spawn [\"cat\"] :p {:in :pipe}))" % k, "(os/proc-wait p%d)" % k, "cancelled",
                "(ev/cancel t%d :stop) (ev/spawn (ev/sleep %g) (ev/close (p%d :in)))" % (k, d, k))
    if kind in ("burst-await", "burst-proc", "burst-tchan"):
        n = rng.choice([2, 3, 5, 9, 17, 20, 33]) if kind != "burst-proc" else rng.choice([2, 3, 5, 9, 17, 20])
        return "", "(%s %d)" % (kind, n), "done", ""
    if kind == "burst-nowait":
        n = rng.choice([2, 3, 5, 9, 17, 20, 33])
        base = 100000 + 1000 * k
        return "", "(burst-nowait %d %d)" % (n, base), "done", "", {base + j: "done" for j in range(n)}
    if kind == "signal":
        return "", "(signal-roundtrip)", "done", ""
    if kind == "signal-interrupt":
        return "", "(signal-interrupt)", "done", ""
    if kind == "signal-nowait":
        return "", "(signal-nowait %d)" % (2000 + k), "done", "", {2000 + k: "done"}
    if kind == "filewatch":
        return "", "(filewatch-roundtrip %d)" % k, "done", ""
    if kind == "to-file":
        return "", "(to-file-roundtrip)", "done", ""
    if kind == "supervisor":
        return ("(def sup%d (ev/chan 4))" % k,
                "(ev/go (fn [] (ev/sleep %g) (error \"boom\")) nil sup%d) (ev/go (fn [] (ev/sleep %g) :ok) nil sup%d) "
                "(def a (ev/take sup%d)) (def b (ev/take sup%d)) (assert (= [:error :ok] (tuple ;(sort @[(a 0) (b 0)]))))" % (d, k, d / 2, k, k, k), "done", "")
    if kind == "supervisor-thread":
        return ("(def tsup%d (ev/thread-chan 4))" % k,
                "(ev/thread (fn [] (os/sleep %g) (error \"in-thread\")) nil :n tsup%d) (assert (= :error ((ev/take tsup%d) 0)))" % (d, k, k), "done", "")
    if kind == "loop1-interrupt":
        # the embedding API janet_loop1_interrupt (an event with a NULL callback), acknowledged at once
        return "", "(c20/loop1-interrupt) (ev/sleep %g)" % d, "done", ""
    # ---- cancelled waits: the task blocks for "ever"; main cancels it
    if kind == "cancel-sleep":
        return "", "(ev/sleep 1000000)", "cancelled", "(ev/cancel t%d :stop)" % k
    if kind == "cancel-take":
        return "(def ch%d (ev/chan))" % k, "(ev/take ch%d)" % k, "cancelled", "(ev/cancel t%d :stop)" % k
    if kind == "cancel-tchan-take":
        return "(def tc%d (ev/thread-chan))" % k, "(ev/take tc%d)" % k, "cancelled", "(ev/cancel t%d :stop)" % k
    if kind == "cancel-tchan-take-close":
        # … and the channel is closed afterwards by this thread: the stale entry of the cancelled waiter is popped by ev/chan-close
        return ("(def tcc%d (ev/thread-chan))" % k, "(ev/take tcc%d)" % k, "cancelled",
                "(ev/cancel t%d :stop) (ev/spawn (ev/sleep %g) (ev/chan-close tcc%d))" % (k, d, k))
    if kind == "cancel-read":
        return ("(def [r%d w%d] (os/pipe))" % (k, k), "(ev/read r%d 4)" % k, "cancelled",
                "(ev/cancel t%d :stop) (ev/spawn (ev/sleep 0.002) (ev/close r%d) (ev/close w%d))" % (k, k, k))
    if kind == "cancel-thread-await":
        return ("(def go%d (ev/thread-chan 1))" % k, "(thread-wait-chan go%d)" % k, "cancelled",
                "(ev/cancel t%d :stop) (ev/spawn (ev/sleep %g) (ev/give go%d :finish))" % (k, d, k))
    if kind == "cancel-proc-wait":
        return ("(def p%d (os/spawn [\"sleep\" \"100000\"] :p))" % k, "(os/proc-wait p%d)" % k, "cancelled",
                "(ev/cancel t%d :stop) (os/proc-kill p%d)" % (k, k))
    if kind == "close-under-read":
        # the stream is closed under a pending read: the read returns (nil / error), the task completes
        return ("(def [r%d w%d] (os/pipe))" % (k, k), "(try (ev/read r%d 4) ([e] nil))" % k, "done",
                "(ev/spawn (ev/sleep %g) (ev/close r%d) (ev/close w%d))" % (d, k, k))
    if kind == "chan-close-under-take":
        return ("(def ch%d (ev/chan))" % k, "(assert (nil? (ev/take ch%d)))" % k, "done",
                "(ev/spawn (ev/sleep %g) (ev/chan-close ch%d))" % (d, k))
    raise KeyError(kind)


MIX_KINDS = ["sleep", "sleep-chain", "thread", "do-thread", "proc", "execute", "pipe", "proc-pipe", "tcp", "chan", "tchan-thread",
             "read-timeout", "deadline", "stale-deadline", "stale-timeout", "cancel-sleep", "cancel-take", "cancel-tchan-take", "cancel-tchan-take-close",
             "cancel-read", "cancel-proc-wait", "close-under-read", "chan-close-under-take", "loop1-interrupt", "thread-nowait", "proc-wait-abandoned", "cancel-thread-await",
             "duplex-close-both", "duplex-peer-close-both", "duplex-cancel-both", "accept-then-close", "proc-wait-kill-close-pipes",
             "deadline-then-close", "tchan-givers-abandon",
             # session 4: bursts of completions read from the self pipe in one go; signals, file watcher, ev/to-file, supervisor events
             "burst-await", "burst-nowait", "burst-proc", "burst-tchan", "signal", "signal-interrupt", "signal-nowait", "filewatch", "to-file", "supervisor",
             "supervisor-thread"]


def mix_script(rng, ntasks, kinds=None):
    kinds = kinds or MIX_KINDS
    setups, starts, extras, expect, chosen, also = [], [], [], {}, [], {}
    for k in range(ntasks):
        kind = rng.choice(kinds)
        chosen.append(kind)
        res = _task(kind, k, rng)
        setup, body, exp, extra = res[:4]
        if len(res) > 4:
            expect.update(res[4])
            also[k] = list(res[4])
        if setup:
            setups.append("  " + setup)
        starts.append('  (def t%d (ev/go (fn [] (try (do %s (c20/log "done %d")) ([e] (c20/log (string "cancelled %d " e)))))))' % (k, body, k, k))
        if extra:
            # cancellations happen after the tasks had a chance to block
            extras.append("  " + extra)
        expect[k] = exp
    mode = rng.below(3)
    if mode == 0:
        gap = "  (ev/sleep 0)"
    elif mode == 1:
        gap = "  (ev/sleep 0.003)"
    else:
        gap = "  (ev/sleep 0) (gccollect)"
    src = PRELUDE + "\n(defn main []\n" + "\n".join(setups + starts + [gap] + extras) + '\n  (c20/log "main returned"))\n'
    # chosen is indexed by expectation id for the reports
    kinds_by_id = {k: chosen[k] for k in range(ntasks)}
    for k, ids in also.items():
        for i in ids:
            kinds_by_id[i] = chosen[k] + "(thread)"
    return src, expect, kinds_by_id
