# C16: descriptor plumbing of os/spawn / os/execute.  usage: c16io plumb.janet <dir> <cases.jdn>
# For every case: snapshot of this process's descriptor table, the spawn with the interposer's K lines switched on, snapshot
# after the spawn, the child (this same binary in --fdlist mode) writes ITS descriptor table to <dir>/child-<id>.txt, data is
# moved through the pipes, the process is waited for and closed, last snapshot.  Judged by harness/C16/plumb.py.
(def dir (get (dyn :args) 1))
(def cases (parse (slurp (get (dyn :args) 2))))
(def exe (dyn :executable))
# the child may have written to this process's stdout without a newline: every report line starts on a fresh line
(defn pl [id & xs] (flush) (print) (print "PL " id ;xs) (flush))

(defn mk [spec id which]
  # -> [value-for-the-env-table  object-to-close-afterwards]
  (match spec
    :inherit [nil nil]
    :pipe [:pipe nil]
    :out [:out nil]
    :stdin [stdin nil]
    :stdout [stdout nil]
    :stderr [stderr nil]
    [:file mode] (let [f (file/open (string dir "/f-" id "-" which) mode)] [f f])
    [:stream mode] (let [s (os/open (string dir "/f-" id "-" which) mode 8r644)] [s s])
    _ (error (string "bad spec " spec))))

(each c cases
  (def id (c :id))
  (when (and (indexed? (c :in)) (= (get (c :in) 1) :r))
    (spit (string dir "/f-" id "-in") (string "FILEIN-" id)))
  (def [vin oin] (mk (c :in) id "in"))
  (def [vout oout] (mk (c :out) id "out"))
  (def [verr oerr] (if (= (c :err) :same-as-out) [vout nil] (mk (c :err) id "err")))
  (def env @{})
  (when vin (put env :in vin))
  (when vout (put env :out vout))
  (when verr (put env :err verr))
  (defn fdof [v] (if (or (nil? v) (keyword? v)) -1 (c16/fd v)))
  (def cat? (not= (c :in) :inherit))
  (def args [exe "--fdlist" (string dir "/child-" id ".txt") (string (c :code)) (string "ERR" id) (if cat? "cat" "nocat")])
  (pl id " handles " (fdof vin) " " (fdof vout) " " (fdof verr))
  (pl id " before " (c16/fds))
  (flush)
  (when (= (c :fail) :spawn) (c16/fail-next-spawn))
  (when (number? (c :fail)) (c16/fail-pipe (c :fail)))
  (c16/note "plumb-begin" id)
  (c16/klog true)
  (def r (try (if (c :spawn) (os/spawn args :p env) (os/execute args :p env)) ([e] (string "raised " e))))
  (c16/klog false)
  (c16/note "plumb-end" id)
  (c16/fail-pipe 0)
  (pl id " after " (c16/fds))
  (if (and (c :spawn) (not (string? r)))
    (do
      (def p r)
      (pl id " proc " (fdof (p :in)) " " (fdof (p :out)) " " (fdof (p :err)))
      (when (= (c :in) :pipe)
        (ev/write (p :in) (string "PIPEIN-" id))
        (ev/close (p :in)))
      (def got-out (if (= (c :out) :pipe) (string (or (ev/read (p :out) :all) "")) "-"))
      (def got-err (if (= (c :err) :pipe) (string (or (ev/read (p :err) :all) "")) "-"))
      (def st (os/proc-wait p))
      (def cl (try (os/proc-close p) ([e] (string "raised " e))))
      (def again (try (os/proc-wait p) ([e] (string "raised " e))))
      (pl id " result " st " out=" got-out " err=" got-err " close=" cl " again=" again " rc=" (p :return-code))
      (pl id " closed " (c16/fds))
      # proc streams made from duplicated file handles are not owned by the process value: close them here (else the collector does)
      (each k [:in :out :err]
        (def s (p k))
        (when s (try (ev/close s) ([e] nil)))))
    (pl id " result " r))
  (each o [oin oout oerr]
    (when o (if (= (type o) :core/file) (file/close o) (ev/close o))))
  (gccollect)
  (pl id " final " (c16/fds))
  (flush))
(print "DONE")
