# C16: connection-level behaviour of net/connect, net/accept, net/accept-loop on real sockets.
# usage: c16io conn.janet <dir> <seed>      One line per case; judged by checks/C16.py.
(def dir (get (dyn :args) 1))
(def seed (scan-number (or (get (dyn :args) 2) "1")))
(def rng (math/rng seed))

# --- net/connect while the handshake cannot complete (listener's accept queue is full, the kernel drops the SYN):
# whatever else the program does meanwhile -- in particular a garbage collection -- the connect must stay pending
(defn stalled-connect [how]
  (def [port lfd c1 c2] (c16/stall-listener))
  (var res nil)
  (def f (ev/go (fn [] (set res (protect (net/connect "127.0.0.1" (string port)))))))
  (ev/sleep 0)
  (def before (if res "returned" "pending"))
  (case how
    "explicit" (gccollect)
    "alloc" (do (var keep nil) (repeat 300000 (set keep (array/new 8))))
    "none" nil)
  (ev/sleep 0)
  (def after (if res (if (res 0) "returned-stream" (string "raised:" (string/replace-all " " "_" (string (res 1))))) "pending"))
  (var wr "-")
  (if res
    (when (res 0) (ev/close (res 1)))
    (do (ev/cancel f "stop") (ev/sleep 0)))
  (print "connectgc " how " before=" before " after=" after " end=" (if res (if (res 0) "stream" (string/replace-all " " "_" (string (res 1)))) "still-pending"))
  (each d [c1 c2 lfd] (c16/close-fd d)))

(each how ["none" "explicit" "alloc" "explicit"] (stalled-connect how))

# --- net/accept-loop: k clients connect between two iterations of the event loop; every one must get a handler
(defn burst-loop [kind k]
  (def path (string dir "/lsock" k))
  (def srv (if (= kind "tcp") (net/listen "127.0.0.1" "0") (net/listen :unix path)))
  (def target (if (= kind "tcp") (get (net/localname srv) 1) path))
  (def seen @[])
  (var loopres :running)
  (def lf (ev/go (fn [] (set loopres (protect (net/accept-loop srv (fn [conn] (array/push seen (string (ev/read conn 2))) (ev/close conn))))))))
  (ev/sleep 0)
  (def fds (c16/burst-connect target k))
  (var turns 0)
  (while (and (< (length seen) k) (< turns (* 4 (+ k 4)))) (ev/sleep 0) (++ turns))
  (print "acceptburst loop-" kind " k=" k " served=" (length seen) " distinct=" (length (distinct seen)) " turns=" turns)
  (ev/close srv)
  (ev/sleep 0)
  (print "acceptend loop-" kind " k=" k " " (string/format "%q" loopres))
  (each d fds (c16/close-fd d)))

# --- net/accept, one call per connection, connections queued BEFORE the calls: each call returns at once, in arrival order
(defn burst-single [kind k]
  (def path (string dir "/ssock" k))
  (def srv (if (= kind "tcp") (net/listen "127.0.0.1" "0") (net/listen :unix path)))
  (def target (if (= kind "tcp") (get (net/localname srv) 1) path))
  (def fds (c16/burst-connect target k))
  (def seen @[])
  (var stuck false)
  (for i 0 k
    (unless stuck
      (def r (protect (ev/with-deadline 10 (net/accept srv))))
      (if (r 0)
        (do (array/push seen (string (ev/read (r 1) 2))) (ev/close (r 1)))
        (set stuck true))))
  (print "acceptburst single-" kind " k=" k " served=" (length seen) " distinct=" (length (distinct seen)) " inorder=" (deep= seen (sorted seen)))
  (ev/close srv)
  (each d fds (c16/close-fd d)))

# --- net/connect, synchronous part: connect() answered from a plan (-1 = EINTR, 0 = the real call, e = errno e);
# a live listener is the target so the real call succeeds / is in progress
(defn planned-connect [plan]
  (def srv (net/listen "127.0.0.1" "0"))
  (def port (get (net/localname srv) 1))
  (c16/connect-plan plan)
  (def r (protect (net/connect "127.0.0.1" (string port))))
  (gccollect)
  (def [calls closes left] (c16/connect-stats))
  (print "connectcall plan=" (string/join (map string plan) ",") " result=" (if (r 0) "stream" (string/replace-all " " "_" (string (r 1))))
         " calls=" calls " closes=" closes " unused=" left)
  (when (r 0) (ev/close (r 1)))
  (ev/close srv))

(each plan [[0] [-1 0] [-1 -1 -1 0] [111] [-1 101] [-1 -1 113] [13]
            (tuple ;(array/new-filled (math/rng-int rng 6) -1) 0)
            (tuple ;(array/new-filled (math/rng-int rng 6) -1) (get [111 101 110 99 98] (math/rng-int rng 5)))]
  (planned-connect plan))

# --- one duplex stream for several of the child's standard descriptors (inetd style): the accepted connection is the child's
# stdin AND stdout / stderr; the request is already in the socket when the child starts, the peer reads until end of stream
(defn protect-read [s] (def r (protect (ev/with-deadline 20 (ev/read s :all)))) (if (r 0) (r 1) (string "READ-FAILED:" (r 1))))
(defn inetd [tag ks cmd]
  (def path (string dir "/isock-" tag))
  (def srv (net/listen :unix path))
  (def cli (net/connect :unix path))
  (def conn (net/accept srv))
  (when (index-of :in ks) (ev/write cli (string "ping-" tag "\n")))   # (unread data at close would reset the connection)
  (def env @{})
  (each k ks (put env k conn))
  (def r (protect (os/execute ["/bin/sh" "-c" cmd] :p env)))
  (ev/close conn)
  (def got (string (or (protect-read cli) "")))
  (print "inetd " tag " keys=" (string/join (map string ks) ",") " result=" (if (r 0) (string (r 1)) (string "raised:" (string/replace-all " " "_" (string (r 1)))))
         " peer=" (string/replace-all "\n" "|" got))
  (ev/close cli)
  (ev/close srv))

(inetd "A" [:in :out] "read x; echo \"o:$x\"; exit 5")
(inetd "B" [:in :err] "read x; echo \"e:$x\" >&2; exit 9")
(inetd "C" [:in :out :err] "read x; echo \"o:$x\"; echo \"e:$x\" >&2; exit 0")
(inetd "D" [:out :err] "echo o:D; echo e:D >&2; exit 3")

# --- a pipe whose both ends go to subprocesses ((os/pipe :RW)): producer | consumer; once the parent has closed its copies the
# consumer must see end of stream when the producer exits (no stray copy of the write end in the consumer or the parent)
(defn pipeline [n]
  (def [r w] (os/pipe :RW))
  (def prod (os/spawn ["/bin/sh" "-c" (string "head -c " n " /dev/zero | tr '\\0' x")] :p {:out w}))
  (def cons (os/spawn ["/bin/sh" "-c" "wc -c"] :p {:in r :out :pipe}))
  (ev/close r)
  (ev/close w)
  (def out (protect (ev/with-deadline 20 (ev/read (cons :out) :all))))
  (def ended (out 0))
  (unless ended (try (os/proc-kill cons) ([e] nil)) (try (os/proc-kill prod) ([e] nil)))
  (def st [(os/proc-wait prod) (os/proc-wait cons)])
  (print "pipeline n=" n " ended=" ended " count=" (if ended (string/trim (string (or (out 1) ""))) "-") " status=" (st 0) "," (st 1))
  (try (os/proc-close prod) ([e] nil))
  (try (os/proc-close cons) ([e] nil)))
(each n [0 1 4096 65537 (+ 100000 (math/rng-int rng 400000))] (pipeline n))

(each kind ["tcp" "unix"]
  (each k [1 2 (+ 3 (math/rng-int rng 6)) (+ 10 (math/rng-int rng 40))]
    (burst-loop kind k)
    (burst-single kind k)))
(print "DONE")
