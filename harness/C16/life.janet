# C16: life cycle of the process value (os/proc-wait once-only, reaper callback, os/proc-close).
# usage: c16io life.janet <dir> <seqs.jdn>     seqs: [{:id n :code c :ops [:w :x :c :R ...]} ...]
#   :w  os/proc-wait in its own fiber      :x  the same, and the fiber is cancelled while it waits
#   :c  os/proc-close in its own fiber     :R  the child is released (its stdin ends) and exits with :code
# Prints, per sequence, the eventual result of every w / x / c and (proc :return-code); compared by checks/C16.py with the
# Lean model (`L` command of jm_c16).
(def seqs (parse (slurp (get (dyn :args) 2))))

(defn settle [pred]
  # let other fibers / the reaper run until pred holds (bounded: 2000 rounds of 10 ms)
  (var n 0)
  (while (and (not (pred)) (< n 2000)) (ev/sleep 0.01) (++ n)))

(each sq seqs
  # the read end is made for a subprocess (blocking): with a non-blocking stdin `read x` fails at once and the child would not wait for :R
  (def [rd wr] (os/pipe :R))
  (def p (os/spawn ["/bin/sh" "-c" (string "read x; exit " (sq :code))] :p {:in rd :out :pipe :err :pipe}))
  (ev/close rd)
  (def results @[])
  (var released false)
  (var reaper false)
  (defn run-op [f]
    (def i (length results))
    (array/push results "pending")
    (ev/spawn
      (put results i
           (try (let [v (f)] (if (nil? v) "nil" (string "val:" v)))
                ([e] (cond (string/find "cannot wait twice" (string e)) "err"
                           (= (string e) "c16-cancel") "cancelled"
                           (string "raised:" e)))))))
  (each o (sq :ops)
    (case o
      :R (do (set released true)
             (ev/close wr)
             (when reaper (settle |(not (nil? (get p :return-code))))))
      :x (let [i (length results)
               f (run-op |(os/proc-wait p))]
           (ev/sleep 0)
           (when (= (results i) "pending")
             (set reaper true)
             (ev/cancel f "c16-cancel")
             (ev/sleep 0)))
      (let [i (length results)]
        (run-op (if (= o :c) |(os/proc-close p) |(os/proc-wait p)))
        (ev/sleep 0)
        (when (= (results i) "pending")
          (set reaper true)
          (when released (settle |(not= (results i) "pending")))))))
  (unless released (ev/close wr))
  (def closed (+ (if ((c16/slots (p :out)) 2) 1 0) (if ((c16/slots (p :err)) 2) 1 0)))
  (print "LF " (sq :id) " " (string/join results " ") " rc=" (if (nil? (get p :return-code)) "none" (get p :return-code)) " closed=" closed)
  (flush)
  # leave nothing behind: reap the child if nobody did
  (when (nil? (get p :return-code))
    (try (os/proc-kill p) ([e] nil))
    (try (os/proc-wait p) ([e] nil)))
  (try (os/proc-close p) ([e] nil)))
(print "DONE")
