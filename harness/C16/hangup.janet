# C16: "the peer answers and hangs up" on real sockets.  A reader fiber is suspended in its read; then, between two iterations of
# the event loop, the peer (a plain C socket, no janet code in between) writes its last N bytes and closes -- with unread input in
# its receive queue (the connection is RESET: ECONNRESET on a unix stream socket, RST on TCP; readiness and error condition reach
# the loop in ONE epoll word) or without (orderly close, control case).  Everything the peer wrote before it closed must be
# appended to the reader's buffer before the read reports end of stream / an error.
# usage: c16io hangup.janet <dir> <seed>      One line per case; judged by harness/C16/wordcorr.py.
(def dir (get (dyn :args) 1))
(def seed (scan-number (or (get (dyn :args) 2) "1")))
(def rng (math/rng seed))
(var ordinal 0)

(defn payload [n k]
  (def b (buffer/new n))
  (for i 0 n (buffer/push-byte b (% (+ (* i 7) (* k 13) seed) 251)))
  (string b))

(defn hangup [kind mode n extra unread]
  (++ ordinal)
  (def path (string dir "/h" ordinal))
  (def srv (if (= kind "tcp") (net/listen "127.0.0.1" "0") (net/listen :unix path)))
  (def target (if (= kind "tcp") (get (net/localname srv) 1) path))
  (def [pfd] (c16/burst-connect target 1))
  (def conn (net/accept srv))
  (ev/chunk conn 2)                       # the ordinal c16/burst-connect sent
  (def data (payload n ordinal))
  (def buf @"")
  (var outcome :pending)
  (ev/go (fn []
           (set outcome
                (try
                  (case mode
                    "read" (do (var more true) (while more (unless (ev/read conn 4096 buf) (set more false))) :nil)
                    "chunk" (if (ev/chunk conn n buf) :buf :nil)
                    "chunk+" (if (ev/chunk conn (+ n extra) buf) :buf :nil)
                    "all" (if (ev/read conn :all buf) :buf :nil))
                  ([e] (string "error:" (string/replace-all " " "_" (string e))))))))
  # the reader must be suspended in its read (registered in the stream's read slot) before the peer moves
  (var turns 0)
  (while (and (not (get (c16/slots conn) 0)) (< turns 50)) (ev/sleep 0) (++ turns))
  (def susp (get (c16/slots conn) 0))
  (when unread (ev/write conn "a request body the peer never looks at"))
  (def wrote (c16/raw-write pfd data))
  (c16/close-fd pfd)
  (var t2 0)
  (while (and (= outcome :pending) (< t2 1000)) (ev/sleep (if (< t2 100) 0 0.01)) (++ t2))
  (print "hangup " kind " " mode " n=" n " extra=" extra " unread=" (if unread 1 0) " susp=" susp " wrote=" wrote " got=" (length buf)
         " match=" (= (string buf) data) " outcome=" outcome " turns=" t2)
  (try (ev/close conn) ([e] nil))
  (ev/close srv))

(each kind ["unix" "tcp"]
  (each mode ["read" "chunk" "chunk+" "all"]
    (each n [1 100 4096 4097 60000 (+ 2 (math/rng-int rng 30000))]
      (hangup kind mode n (+ 1 (math/rng-int rng 5000)) true))
    (hangup kind mode (+ 1 (math/rng-int rng 9000)) 7 false)))
(print "DONE")
