# C16: exit status / redirected I/O of os/execute and os/spawn+os/proc-wait.  usage: janet exec.janet <dir> <mode>
# Prints one line per case; judged by checks/C16.py (expected values are computed there, not here).
(def dir (get (dyn :args) 1))
(def mode (get (dyn :args) 2))

(defn sh [cmd &opt flags env]
  (try (string "ok " (if env (os/execute ["/bin/sh" "-c" cmd] (or flags :p) env) (os/execute ["/bin/sh" "-c" cmd] (or flags :p))))
       ([err] (string "err " (string/replace-all "\n" " " (string err))))))

(when (= mode "codes")
  (for c 0 256
    (print "exit " c " " (sh (string "exit " c))))
  (each s [1 2 3 6 9 10 12 13 14 15]
    (print "signal " s " " (sh (string "kill -" s " $$"))))
  # a child that writes to a closed pipe must die of SIGPIPE as it would under a shell (ignored dispositions are inherited)
  (print "pipeline 0 " (sh "yes | head -1 >/dev/null"))
  # (no clock involved: the child waits for its stdin to end, which happens after the parent has closed the read end)
  (let [p (os/spawn ["/bin/sh" "-c" "read x; echo hi; echo hi; exit 7"] :p {:in :pipe :out :pipe})]
    (ev/close (p :out))
    (ev/close (p :in))
    (print "childpipe 0 ok " (os/proc-wait p)))
  # net/address with exactly three arguments, whatever an earlier call left in the next stack slot
  (print "netaddr truthy " (type (do (tuple 1 2 3 4 5 6 7 8) (net/address "127.0.0.1" "80" :datagram))))
  (print "netaddr nil " (type (do (tuple nil nil nil nil nil nil nil nil) (net/address "127.0.0.1" "80" :datagram))))
  (print "netaddr stream " (type (do (tuple 1 2 3 :x :y :z) (net/address "127.0.0.1" "80" :stream))))
  (print "netaddr multi " (type (net/address "127.0.0.1" "80" :stream true)))
  # :x raises on non-zero
  (print "x 0 " (sh "exit 0" :px))
  (print "x 3 " (sh "exit 3" :px))
  # spawn + proc-wait, and :return-code afterwards
  (each c [0 1 77 128 255]
    (def p (os/spawn ["/bin/sh" "-c" (string "exit " c)] :p))
    (def r (os/proc-wait p))
    (print "spawn " c " ok " r " rc " (p :return-code)))
  (each s [9 15]
    (def p (os/spawn ["/bin/sh" "-c" (string "kill -" s " $$")] :p))
    (print "spawnsig " s " ok " (os/proc-wait p)))
  # proc-kill with wait
  (let [p (os/spawn ["/bin/sh" "-c" "sleep 30"] :p)]
    (print "kill 9 ok " (os/proc-kill p true)))
  (let [p (os/spawn ["/bin/sh" "-c" "sleep 30"] :p)]
    (print "kill 15 ok " (os/proc-kill p true :term)))
  # several children waited for concurrently, finishing in reverse order
  (def ch (ev/chan 8))
  (each [i c] [[0 5] [1 6] [2 7]]
    (ev/spawn
      (def p (os/spawn ["/bin/sh" "-c" (string "sleep 0." (- 3 i) "; exit " c)] :p))
      (ev/give ch [i (os/proc-wait p)])))
  (def got @[])
  (repeat 3 (array/push got (ev/take ch)))
  (print "concurrent " (string/format "%j" (sort got))))

(when (= mode "redir")
  # stdin from file, stdout and stderr to files
  (def fin (file/open (string dir "/in.bin") :rb))
  (def fout (file/open (string dir "/out.bin") :wb))
  (def ferr (file/open (string dir "/err.bin") :wb))
  (print "redir " (sh (string "cat; cat '" dir "/e.bin' >&2; exit 9") :p {:in fin :out fout :err ferr}))
  (file/close fin) (file/close fout) (file/close ferr))
(when (= mode "inject")
  # every wait-status word a terminated child can have (256 exit codes, 126 signals x core flag), delivered through the real
  # reaping path (helper thread waitpid -> proc_get_status -> janet_proc_wait_cb -> resumed fiber / :return-code); the word
  # is substituted in the interposed waitpid after the kernel reaped a real child
  (defn run1 [tag n w]
    (def p (os/spawn ["/bin/true"]))
    (c16/status-for (p :pid) w)
    (def r (try (string "ok " (os/proc-wait p)) ([e] (string "err " e))))
    (print "inject-" tag " " n " " r " rc " (p :return-code)))
  (for c 0 256 (run1 "exit" c (* c 256)))
  (for s 1 127 (run1 "sig" s s) (run1 "sigcore" s (+ s 128)))
  # os/execute with :x: the error message carries the decoded status
  (each [n w] [[0 0] [1 256] [255 65280] [137 9] [139 139] [254 126]]
    (c16/status-for -1 w)
    (print "inject-x " n " " (sh "exit 0" :px)))
  # os/proc-close waits when nobody did, and returns the decoded status
  (each [n w] [[0 0] [3 768] [143 15]]
    (def p (os/spawn ["/bin/true"]))
    (c16/status-for (p :pid) w)
    (print "inject-close " n " ok " (os/proc-close p) " rc " (p :return-code)))
  # two fibers wait for the same process at the same time: exactly one reaper, the second wait is refused at once
  (let [p (os/spawn ["/bin/sh" "-c" "sleep 0.2; exit 5"] :p)
        ch (ev/chan 2)]
    (ev/spawn (ev/give ch (try (string "ok " (os/proc-wait p)) ([e] (string "err " e)))))
    (ev/spawn (ev/give ch (try (string "ok " (os/proc-wait p)) ([e] (string "err " e)))))
    (def got (sort @[(ev/take ch) (ev/take ch)]))
    (print "inject-both 0 " (string/join got " | ") " rc " (p :return-code)))
  # a second wait is refused, the recorded code stays
  (let [p (os/spawn ["/bin/true"])]
    (c16/status-for (p :pid) (* 42 256))
    (def a (os/proc-wait p))
    (def b (try (os/proc-wait p) ([e] (string "err " e))))
    (print "inject-twice 0 ok " a " then " b " rc " (p :return-code))))
(when (= mode "stdredir")
  # redirections whose SOURCE is one of the standard descriptors of this process: the child must get exactly what was asked
  # for, and keep the descriptors that were not mentioned (a3cd080: the file actions used to close / clobber them)
  (defn run-case [tag f]
    (print "stdredir-begin " tag) (flush)
    (def r (try (f) ([e] (string "raised " e))))
    (flush)
    (print "stdredir-end " tag " " r) (flush))
  (defn cmd [tag] ["/bin/sh" "-c" (string "echo out" tag "; echo err" tag " >&2; echo rc" tag "=$? >&2")])
  (run-case "A" (fn [] (os/execute (cmd "A") :p {:err stdout})))
  (run-case "B" (fn [] (os/execute (cmd "B") :p {:out stderr})))
  (run-case "C" (fn []
    (def f (file/open (string dir "/stdredir-c.txt") :w))
    (def r (os/execute (cmd "C") :p {:out f :err stdout}))
    (file/close f)
    (string r " file=" (string/replace-all "\n" "|" (slurp (string dir "/stdredir-c.txt"))))))
  (run-case "D" (fn []
    (def p (os/spawn (cmd "D") :p {:out :pipe :err stdout}))
    (def got (ev/read (p :out) 100))
    (def r (os/proc-wait p))
    (os/proc-close p)
    (string r " piped=" (string/replace-all "\n" "|" (string got)))))
  (run-case "F" (fn [] (os/execute (cmd "F") :p {:out stderr :err stdout})))
  (run-case "G" (fn [] (os/execute ["/bin/sh" "-c" "cat; echo errG >&2"] :p {:in stdin :err stdout})))
  (run-case "H" (fn [] (os/execute (cmd "H") :p {:out stdout :err stdout}))))
(print "DONE")
