/* C16 harness: wrapper TU around ev.c  +  in-process syscall interposer  +  deadlock detector  +  janet main.
 *
 * Built by checks/C16.py with  ctx.build.harness(variant, "c16io", [this file],
 *      extra_ld=["-Wl,--wrap=read,--wrap=write,--wrap=send,--wrap=recv,--wrap=sendto,--wrap=recvfrom,
 *                 --wrap=epoll_ctl,--wrap=epoll_wait"])
 * Session 3: also --wrap=waitpid,pipe,close,dup,fcntl,fcntl64,posix_spawn,posix_spawnp,posix_spawn_file_actions_adddup2,
 *      posix_spawn_file_actions_addclose (descriptor plumbing of os/spawn / os/execute: `K` lines; status-word injection).
 * `#include "ev.c"` makes the file-static StateRead / StateWrite visible, so every intercepted syscall is logged
 * together with the state-machine fields the Lean model has (start / bytes_left / bytes_read / is_chunk / mode).
 * This object replaces ev.o of libjanet.a at link time (it defines every symbol ev.o defines).
 *
 * Environment:
 *   C16_TRACE=<path>     trace file (one line per intercepted syscall, marker and fault summary)
 *   C16_SEED=<u64>       seed of the fault schedule
 *   C16_P_EAGAIN / C16_P_SHORT / C16_P_EINTR / C16_P_ERR = per-mille probabilities per intercepted call
 *   C16_DEADLOCK=1       logical deadlock detection (no subprocess / thread can wake the loop)
 *   C16_GRACE_MS         confirmation wait before declaring a logical deadlock (default 300)
 *   C16_BACKSTOP_MS      hard limit for one blocking epoll_wait when logical detection is not applicable (default 20000)
 */
#define _GNU_SOURCE
#include "ev.c"
#include "gc.h"
#include "fiber.h"

#include <stdio.h>
#include <stdint.h>
#include <stdlib.h>
#include <string.h>
#include <sys/socket.h>
#include <sys/epoll.h>
#include <poll.h>
#include <signal.h>
#include <stdarg.h>
#include <dirent.h>
#include <spawn.h>
#include <sys/wait.h>
#include <fcntl.h>
#include <unistd.h>
#include <netinet/in.h>
#include <sys/un.h>
#include <arpa/inet.h>

ssize_t __real_read(int, void *, size_t);
ssize_t __real_write(int, const void *, size_t);
ssize_t __real_send(int, const void *, size_t, int);
ssize_t __real_recv(int, void *, size_t, int);
ssize_t __real_sendto(int, const void *, size_t, int, const struct sockaddr *, socklen_t);
ssize_t __real_recvfrom(int, void *, size_t, int, struct sockaddr *, socklen_t *);
int __real_epoll_ctl(int, int, int, struct epoll_event *);
int __real_epoll_wait(int, struct epoll_event *, int, int);

/* ------------------------------------------------------------------ bookkeeping */
#define MAXFD 4096
typedef struct {
    int tracked;
    int epfd;
    int sid;              /* stream ordinal (fd numbers are reused after close) */
    int dgram;
    struct epoll_event ev;
} FdInfo;
static FdInfo fdinfo[MAXFD];
static int next_sid = 0;
static FILE *trace = NULL;
static uint64_t rng_s = 1;
static int p_eagain = 0, p_short = 0, p_eintr = 0, p_err = 0;
static int deadlock_on = 0, grace_ms = 300, backstop_ms = 20000;
static long n_calls = 0, n_eagain = 0, n_short = 0, n_eintr = 0, n_err = 0, n_real_eagain = 0, n_real_partial = 0, n_rearm = 0;
static long seqno = 0;
static int inited = 0;

/* fiber ordinals: address -> first-seen index */
#define MAXFIB 8192
static void *fibs[MAXFIB];
static int nfibs = 0;
static int fib_ord(void *f) {
    if (!f) return -1;
    for (int i = nfibs - 1; i >= 0; i--) if (fibs[i] == f) return i;
    if (nfibs < MAXFIB) { fibs[nfibs] = f; return nfibs++; }
    return -2;
}

static uint64_t rnd(void) {
    rng_s += 0x9E3779B97F4A7C15ULL;
    uint64_t z = rng_s;
    z = (z ^ (z >> 30)) * 0xBF58476D1CE4E5B9ULL;
    z = (z ^ (z >> 27)) * 0x94D049BB133111EBULL;
    return z ^ (z >> 31);
}
static int chance(int permille) { return permille > 0 && (int)(rnd() % 1000) < permille; }
static int envint(const char *k, int d) { const char *v = getenv(k); return v ? atoi(v) : d; }

static void summary2(FILE *f);
static void summary(void) {
    if (!trace) return;
    summary2(trace);
    fprintf(trace, "F calls=%ld eagain=%ld short=%ld eintr=%ld err=%ld real_eagain=%ld real_partial=%ld rearm=%ld\n",
            n_calls, n_eagain, n_short, n_eintr, n_err, n_real_eagain, n_real_partial, n_rearm);
    fflush(trace);
}

static void c16_init(void) {
    if (inited) return;
    inited = 1;
    const char *p = getenv("C16_TRACE");
    if (p) trace = fopen(p, "w");
    if (trace) setvbuf(trace, NULL, _IOFBF, 1 << 16);
    const char *s = getenv("C16_SEED");
    rng_s = s ? strtoull(s, NULL, 10) : 1;
    p_eagain = envint("C16_P_EAGAIN", 0);
    p_short = envint("C16_P_SHORT", 0);
    p_eintr = envint("C16_P_EINTR", 0);
    p_err = envint("C16_P_ERR", 0);
    deadlock_on = envint("C16_DEADLOCK", 0);
    grace_ms = envint("C16_GRACE_MS", 300);
    backstop_ms = envint("C16_BACKSTOP_MS", 20000);
    atexit(summary);
}

static FdInfo *info(int fd) {
    if (fd < 0 || fd >= MAXFD) return NULL;
    return fdinfo[fd].tracked ? &fdinfo[fd] : NULL;
}

static void rearm(int fd) {
    FdInfo *fi = info(fd);
    if (!fi) return;
    struct epoll_event ev = fi->ev;
    /* EPOLL_CTL_MOD re-evaluates readiness: an edge-triggered registration gets a fresh event iff the fd is ready.
     * This makes an injected EAGAIN / short write indistinguishable from a kernel whose buffer state changed
     * right after the call. */
    __real_epoll_ctl(fi->epfd, EPOLL_CTL_MOD, fd, &ev);
    n_rearm++;
}

int __wrap_epoll_ctl(int epfd, int op, int fd, struct epoll_event *ev) {
    c16_init();
    int r = __real_epoll_ctl(epfd, op, fd, ev);
    if (r == 0 && fd >= 0 && fd < MAXFD) {
        if (op == EPOLL_CTL_DEL) {
            fdinfo[fd].tracked = 0;
        } else if (ev && ev->data.ptr != (void *)&janet_vm.timerfd && ev->data.ptr != (void *)janet_vm.selfpipe) {
            if (op == EPOLL_CTL_ADD || !fdinfo[fd].tracked) {
                int ty = 0;
                socklen_t tl = sizeof ty;
                fdinfo[fd].dgram = (getsockopt(fd, SOL_SOCKET, SO_TYPE, &ty, &tl) == 0 && ty == SOCK_DGRAM);
                fdinfo[fd].sid = next_sid++;
            }
            fdinfo[fd].tracked = 1;
            fdinfo[fd].epfd = epfd;
            fdinfo[fd].ev = *ev;
        }
    }
    return r;
}

/* ------------------------------------------------------------------ state snapshot for the trace */
static void log_state(FdInfo *fi, int fd, int is_write, const void *buf) {
    JanetStream *st = (JanetStream *) fi->ev.data.ptr;
    JanetFiber *f = is_write ? st->write_fiber : st->read_fiber;
    fprintf(trace, " fiber=%d", fib_ord(f));
    if (!f || !f->ev_state) return;
    if (is_write && f->ev_callback == ev_callback_write) {
        StateWrite *s = (StateWrite *) f->ev_state;
        const uint8_t *base = s->is_buffer ? s->src.buf->data : s->src.str;
        int32_t len = s->is_buffer ? s->src.buf->count : janet_string_length(s->src.str);
        fprintf(trace, " w.start=%d w.len=%d w.off=%ld w.mode=%d", s->start, len, (long)((const uint8_t *)buf - base), (int)s->mode);
    } else if (!is_write && f->ev_callback == ev_callback_read) {
        StateRead *s = (StateRead *) f->ev_state;
        fprintf(trace, " r.left=%d r.read=%d r.chunk=%d r.mode=%d r.count=%d r.off=%ld", s->bytes_left, s->bytes_read, s->is_chunk,
                (int)s->mode, s->buf->count, (long)((const uint8_t *)buf - s->buf->data));
    }
    (void) fd;
}

/* decide the injected fault for one call.  0 none, 1 EAGAIN, 2 short, 3 EINTR, 4 error */
static int pick_fault(FdInfo *fi, size_t n, int is_write) {
    (void) is_write;
    if (chance(p_eintr)) return 3;
    if (chance(p_eagain)) return 1;
    if (chance(p_err)) return 4;
    if (!fi->dgram && n > 1 && chance(p_short)) return 2;
    return 0;
}

#define GENERIC(NAME, IS_WRITE, REALCALL_FULL, REALCALL_SHORT)                                              \
    c16_init();                                                                                              \
    FdInfo *fi = info(fd);                                                                                   \
    if (!fi) return REALCALL_FULL;                                                                           \
    n_calls++;                                                                                               \
    int fault = pick_fault(fi, n, IS_WRITE);                                                                 \
    size_t k = n;                                                                                            \
    ssize_t r;                                                                                               \
    int e;                                                                                                   \
    if (trace) {                                                                                             \
        fprintf(trace, "S %ld %s sid=%d req=%zu", seqno++, NAME, fi->sid, n);                                \
        log_state(fi, fd, IS_WRITE, buf);                                                                    \
    }                                                                                                        \
    if (fault == 3) { n_eintr++; r = -1; e = EINTR; }                                                        \
    else if (fault == 1) { n_eagain++; r = -1; e = EAGAIN; rearm(fd); }                                      \
    else if (fault == 4) { n_err++; r = -1; e = ECONNRESET; }                                                \
    else {                                                                                                   \
        if (fault == 2) { k = 1 + (size_t)(rnd() % (n - 1)); n_short++; }                                    \
        r = REALCALL_SHORT;                                                                                  \
        e = errno;                                                                                           \
        if (r == -1 && (e == EAGAIN || e == EWOULDBLOCK)) n_real_eagain++;                                   \
        if (r >= 0 && (size_t) r < k) n_real_partial++;                                                      \
        if (fault == 2 && IS_WRITE && r >= 0) rearm(fd);                                                     \
    }                                                                                                        \
    if (trace) fprintf(trace, " asked=%zu ret=%zd errno=%d inj=%d\n", k, r, r == -1 ? e : 0, fault);         \
    errno = e;                                                                                               \
    return r;

static int wd_fd = -1;
static ssize_t wd_read(void *buf, size_t n);
static ssize_t wd_write(const void *buf, size_t n);
ssize_t __wrap_read(int fd, void *buf, size_t n) {
    if (fd >= 0 && fd == wd_fd) return wd_read(buf, n);
    GENERIC("read", 0, __real_read(fd, buf, n), __real_read(fd, buf, k))
}
ssize_t __wrap_write(int fd, const void *buf, size_t n) {
    if (fd >= 0 && fd == wd_fd) return wd_write(buf, n);
    GENERIC("write", 1, __real_write(fd, buf, n), __real_write(fd, buf, k))
}
ssize_t __wrap_recv(int fd, void *buf, size_t n, int flags) {
    if (fd >= 0 && fd == wd_fd) return wd_read(buf, n);
    GENERIC("recv", 0, __real_recv(fd, buf, n, flags), __real_recv(fd, buf, k, flags))
}
ssize_t __wrap_send(int fd, const void *buf, size_t n, int flags) {
    if (fd >= 0 && fd == wd_fd) return wd_write(buf, n);
    GENERIC("send", 1, __real_send(fd, buf, n, flags), __real_send(fd, buf, k, flags))
}
ssize_t __wrap_recvfrom(int fd, void *buf, size_t n, int flags, struct sockaddr *a, socklen_t *al) {
    GENERIC("recvfrom", 0, __real_recvfrom(fd, buf, n, flags, a, al), __real_recvfrom(fd, buf, k, flags, a, al))
}
ssize_t __wrap_sendto(int fd, const void *buf, size_t n, int flags, const struct sockaddr *a, socklen_t al) {
    GENERIC("sendto", 1, __real_sendto(fd, buf, n, flags, a, al), __real_sendto(fd, buf, k, flags, a, al))
}

/* ------------------------------------------------------------------ deadlock detector */
static int n_suspended = 0;
static int count_pending(int dump) {
    int n = 0;
    n_suspended = 0;
    for (int pass = 0; pass < 2; pass++) {
        JanetGCObject *o = pass ? janet_vm.weak_blocks : janet_vm.blocks;
        while (o) {
            if ((o->flags & JANET_MEM_TYPEBITS) == JANET_MEMORY_FIBER) {
                JanetFiber *f = (JanetFiber *) o;
                if (f->gc.flags & JANET_FIBER_EV_FLAG_SUSPENDED) n_suspended++;
                if (f->ev_callback) {
                    n++;
                    if (dump && trace) {
                        JanetStream *st = f->ev_stream;
                        int fd = st ? st->handle : -1;
                        int sid = (fd >= 0 && fd < MAXFD && fdinfo[fd].tracked) ? fdinfo[fd].sid : -1;
                        const char *kind = f->ev_callback == ev_callback_read ? "read" : f->ev_callback == ev_callback_write ? "write" : "other";
                        int avail = -1;
                        if (fd >= 0) {
                            /* is there something this fiber could consume right now?  (level-triggered poll) */
                            struct pollfd pfd = { fd, f->ev_callback == ev_callback_write ? POLLOUT : POLLIN, 0 };
                            poll(&pfd, 1, 0);
                            avail = pfd.revents;
                        }
                        fprintf(trace, "P fiber=%d kind=%s sid=%d closed=%d in_slot=%d revents=%d\n", fib_ord(f), kind, sid,
                                st ? !!(st->flags & JANET_STREAM_CLOSED) : -1,
                                st ? (st->read_fiber == f || st->write_fiber == f) : -1, avail);
                    }
                }
            }
            o = o->data.next;
        }
    }
    return n;
}

static int wd_inject = 0;
static uint32_t wd_inject_mask = 0;
static void *wd_inject_ptr = NULL;
int __wrap_epoll_wait(int epfd, struct epoll_event *events, int maxevents, int timeout) {
    c16_init();
    if (epfd != janet_vm.epoll) return __real_epoll_wait(epfd, events, maxevents, timeout);
    if (wd_inject && maxevents > 0) {           /* --worddrive: the kernel's answer is ONE injected event word for the stream under test */
        wd_inject = 0;
        events[0].events = wd_inject_mask;
        events[0].data.ptr = wd_inject_ptr;
        return 1;
    }
    int r = __real_epoll_wait(epfd, events, maxevents, 0);
    if (r != 0 || timeout == 0) return r;
    int pend = count_pending(0);
    int quiet = deadlock_on && janet_vm.tq_count == 0 && !janet_vm.timer_enabled
                && (int) janet_atomic_load(&janet_vm.listener_count) == pend + n_suspended;
    if (quiet) {
        /* Nothing is ready, no timer is armed, every listener is a fiber waiting on a stream of this process and no
         * helper thread or subprocess exists that could produce an event: the loop can never wake up again. */
        r = __real_epoll_wait(epfd, events, maxevents, grace_ms);
        if (r != 0) return r;
        if (trace) fprintf(trace, "DEADLOCK pending=%d listeners=%d\n", pend, (int) janet_atomic_load(&janet_vm.listener_count));
        count_pending(1);
        summary();
        fflush(stdout);
        _exit(97);
    }
    r = __real_epoll_wait(epfd, events, maxevents, backstop_ms);
    if (r != 0) return r;
    if (trace) fprintf(trace, "HANG-TIMEOUT pending=%d listeners=%d tq=%d\n", pend, (int) janet_atomic_load(&janet_vm.listener_count), (int) janet_vm.tq_count);
    count_pending(1);
    summary();
    fflush(stdout);
    _exit(98);
}

/* ------------------------------------------------------------------ descriptor plumbing of os/spawn, os/execute (K lines) */
pid_t __real_waitpid(pid_t, int *, int);
int __real_pipe(int[2]);
int __real_close(int);
int __real_dup(int);
int __real_fcntl(int, int, ...);
int __real_posix_spawn(pid_t *, const char *, const posix_spawn_file_actions_t *, const posix_spawnattr_t *, char *const[], char *const[]);
int __real_posix_spawnp(pid_t *, const char *, const posix_spawn_file_actions_t *, const posix_spawnattr_t *, char *const[], char *const[]);
int __real_posix_spawn_file_actions_adddup2(posix_spawn_file_actions_t *, int, int);
int __real_posix_spawn_file_actions_addclose(posix_spawn_file_actions_t *, int);

static int klog_on = 0;          /* set between (c16/klog true) and (c16/klog false): only the spawn under test is logged */
#define KLOG(...) do { if (trace && klog_on) { fprintf(trace, "K " __VA_ARGS__); fputc('\n', trace); } } while (0)

/* status-word injection: the next waitpid that reaps `pid` (or any pid when registered for -1) reports `word` instead */
#define MAXINJ 64
static volatile int inj_pid[MAXINJ], inj_word[MAXINJ], inj_used[MAXINJ];
static long n_waitpid = 0, n_waitpid_opts = 0, n_waitpid_subst = 0;

pid_t __wrap_waitpid(pid_t pid, int *status, int options) {
    c16_init();
    int st = 0;
    pid_t r = __real_waitpid(pid, &st, options);
    int e = errno;
    int orig = st;
    if (r > 0) {
        for (int i = 0; i < MAXINJ; i++) {
            if (inj_used[i] && (inj_pid[i] == r || inj_pid[i] == -1)) {
                st = inj_word[i];
                inj_used[i] = 0;
                break;
            }
        }
    }
    if (status) *status = st;
    /* called from the reaper thread: nothing is written to the trace here (a line would land in the middle of an `S` line
     * of the main thread); counted and reported in the summary */
    __atomic_add_fetch(&n_waitpid, 1, __ATOMIC_RELAXED);
    if (options != 0) __atomic_add_fetch(&n_waitpid_opts, 1, __ATOMIC_RELAXED);
    if (st != orig) __atomic_add_fetch(&n_waitpid_subst, 1, __ATOMIC_RELAXED);
    errno = e;
    return r;
}

static int cplan_fd;
static long cplan_closes;
static int fail_pipe_countdown = 0;
int __wrap_pipe(int fds[2]) {
    c16_init();
    if (fail_pipe_countdown > 0 && --fail_pipe_countdown == 0) {
        errno = EMFILE;
        KLOG("pipefail errno=%d", errno);
        return -1;
    }
    int r = __real_pipe(fds);
    if (r == 0) KLOG("pipe r=%d w=%d", fds[0], fds[1]); else KLOG("pipefail errno=%d", errno);
    return r;
}
int __wrap_close(int fd) {
    if (fd >= 0 && fd == cplan_fd) cplan_closes++;
    int r = __real_close(fd);
    KLOG("close fd=%d ret=%d", fd, r);
    return r;
}
int __wrap_dup(int fd) {
    int r = __real_dup(fd);
    KLOG("dup fd=%d ret=%d", fd, r);
    return r;
}
static int fcntl_common(int fd, int cmd, long arg, int r);
int __real_fcntl64(int, int, ...);
int __wrap_fcntl64(int fd, int cmd, ...) {
    va_list ap;
    va_start(ap, cmd);
    long arg = va_arg(ap, long);
    va_end(ap);
    return fcntl_common(fd, cmd, arg, __real_fcntl64(fd, cmd, arg));
}
int __wrap_fcntl(int fd, int cmd, ...) {
    va_list ap;
    va_start(ap, cmd);
    long arg = va_arg(ap, long);
    va_end(ap);
    return fcntl_common(fd, cmd, arg, __real_fcntl(fd, cmd, arg));
}
static int fcntl_common(int fd, int cmd, long arg, int r) {
    if (cmd == F_SETFD) KLOG("setfd fd=%d cloexec=%d ret=%d", fd, (int)(arg & FD_CLOEXEC) ? 1 : 0, r);
    else if (cmd == F_SETFL) KLOG("setfl fd=%d nonblock=%d ret=%d", fd, (arg & O_NONBLOCK) ? 1 : 0, r);
    else if (cmd == F_DUPFD || cmd == F_DUPFD_CLOEXEC) KLOG("dupfd fd=%d min=%ld cloexec=%d ret=%d", fd, arg, cmd == F_DUPFD_CLOEXEC, r);
    return r;
}
int __wrap_posix_spawn_file_actions_adddup2(posix_spawn_file_actions_t *a, int src, int dst) {
    int r = __real_posix_spawn_file_actions_adddup2(a, src, dst);
    KLOG("adddup2 src=%d dst=%d ret=%d", src, dst, r);
    return r;
}
int __wrap_posix_spawn_file_actions_addclose(posix_spawn_file_actions_t *a, int fd) {
    int r = __real_posix_spawn_file_actions_addclose(a, fd);
    KLOG("addclose fd=%d ret=%d", fd, r);
    return r;
}
static int fail_next_spawn = 0;
int __wrap_posix_spawn(pid_t *pid, const char *path, const posix_spawn_file_actions_t *fa, const posix_spawnattr_t *at, char *const argv[], char *const envp[]) {
    int r = fail_next_spawn ? ENOENT : __real_posix_spawn(pid, path, fa, at, argv, envp);
    if (fail_next_spawn) { fail_next_spawn = 0; errno = ENOENT; }
    KLOG("spawn ret=%d", r);
    return r;
}
int __wrap_posix_spawnp(pid_t *pid, const char *path, const posix_spawn_file_actions_t *fa, const posix_spawnattr_t *at, char *const argv[], char *const envp[]) {
    int r = fail_next_spawn ? ENOENT : __real_posix_spawnp(pid, path, fa, at, argv, envp);
    if (fail_next_spawn) { fail_next_spawn = 0; errno = ENOENT; }
    KLOG("spawn ret=%d", r);
    return r;
}

static void summary2(FILE *f) {
    fprintf(f, "W waitpid=%ld nonzero_options=%ld substituted=%ld\n", n_waitpid, n_waitpid_opts, n_waitpid_subst);
}

/* the descriptor table of this process: "fd:cloexec:accmode:target" for every open descriptor, in fd order */
static void fd_table(FILE *out, const char *sep) {
    int fds[1024], n = 0;
    DIR *d = opendir("/proc/self/fd");
    if (!d) return;
    int dfd = dirfd(d);
    struct dirent *de;
    while ((de = readdir(d)) && n < 1024) {
        if (de->d_name[0] == '.') continue;
        int fd = atoi(de->d_name);
        if (fd != dfd) fds[n++] = fd;
    }
    closedir(d);
    for (int i = 0; i < n; i++) for (int j = i + 1; j < n; j++) if (fds[j] < fds[i]) { int t = fds[i]; fds[i] = fds[j]; fds[j] = t; }
    for (int i = 0; i < n; i++) {
        char path[64], tgt[512];
        snprintf(path, sizeof path, "/proc/self/fd/%d", fds[i]);
        ssize_t k = readlink(path, tgt, sizeof tgt - 1);
        if (k < 0) k = 0;
        tgt[k] = 0;
        for (ssize_t q = 0; q < k; q++) if (tgt[q] == ' ' || tgt[q] == '\n') tgt[q] = '_';
        int fl = __real_fcntl(fds[i], F_GETFD, 0L);
        int acc = __real_fcntl(fds[i], F_GETFL, 0L);
        fprintf(out, "%s%d:%d:%d:%s", i ? sep : "", fds[i], (fl & FD_CLOEXEC) ? 1 : 0, acc < 0 ? 9 : (acc & O_ACCMODE), tgt);
    }
}

/* child mode:  c16io --fdlist <listing file> <exit code> <stderr text>
 * writes its own descriptor table to the listing file, copies stdin to stdout until end of input, writes the text to
 * stderr and exits with the code.  Runs before anything else touches descriptors. */
static int child_main(int argc, char **argv) {
    char buf[65536];
    size_t len = 0;
    {
        FILE *m = fmemopen(buf, sizeof buf - 1, "w");
        fd_table(m, " ");
        fflush(m);
        len = (size_t) ftell(m);
        fclose(m);
    }
    int code = argc > 3 ? atoi(argv[3]) : 0;
    int lf = open(argv[2], O_WRONLY | O_CREAT | O_TRUNC | O_CLOEXEC, 0644);
    if (lf >= 0) { (void) !__real_write(lf, buf, len); __real_close(lf); }
    if (argc > 5 && !strcmp(argv[5], "cat")) {
        char io[8192];
        ssize_t k;
        while ((k = __real_read(0, io, sizeof io)) > 0) {
            ssize_t off = 0;
            while (off < k) { ssize_t w = __real_write(1, io + off, (size_t)(k - off)); if (w <= 0) _exit(99); off += w; }
        }
    } else {
        (void) !__real_write(1, "OUT", 3);
    }
    if (argc > 4) (void) !__real_write(2, argv[4], strlen(argv[4]));
    _exit(code);
}

/* ------------------------------------------------------------------ janet-visible helpers */

/* ------------------------------------------------------------------ net.c callbacks driven in process (N lines)
 * `c16io --netdrive <seed> <cases>`: net_callback_connect / net_callback_accept (external linkage in net.c) are registered
 * with janet_async_start_fiber on a real, unconnected socket and fed generated JanetAsyncEvent sequences; the answers of
 * getsockopt(SO_ERROR) / accept4 on the descriptor under test are injected.  After every event the observable effects are
 * printed: tasks pushed on janet_vm.spawn (which fiber, signal, value), ev_callback cleared, TOCLOSE, listener slots, number of
 * system calls.  checks/C16.py feeds the same events and answers to the Lean model (`NC` / `NA` commands of jm_c16). */
extern void net_callback_connect(JanetFiber *fiber, JanetAsyncEvent event);
extern void net_callback_accept(JanetFiber *fiber, JanetAsyncEvent event);
int __real_getsockopt(int, int, int, void *, socklen_t *);
int __real_accept4(int, struct sockaddr *, socklen_t *, int);
static int nd_fd = -1, nd_so_errno = 0, nd_so_res = 0, nd_acc_errno = 0, nd_last_conn = -1;
static long nd_so_calls = 0, nd_acc_calls = 0;

int __wrap_getsockopt(int fd, int level, int opt, void *val, socklen_t *len) {
    if (fd >= 0 && fd == nd_fd && level == SOL_SOCKET && opt == SO_ERROR) {
        nd_so_calls++;
        if (nd_so_errno) { errno = nd_so_errno; return -1; }
        *(int *) val = nd_so_res;
        return 0;
    }
    return __real_getsockopt(fd, level, opt, val, len);
}

int __wrap_accept4(int fd, struct sockaddr *a, socklen_t *al, int flags) {
    if (fd >= 0 && fd == nd_fd) {
        nd_acc_calls++;
        if (nd_acc_errno) { errno = nd_acc_errno; return -1; }
        nd_last_conn = socket(AF_UNIX, SOCK_STREAM | SOCK_CLOEXEC, 0);   /* a real descriptor stands for the connection */
        return nd_last_conn;
    }
    return __real_accept4(fd, a, al, flags);
}

typedef struct { JanetFunction *function; } NdAcceptState;   /* posix NetStateAccept of net.c (shape asserted by tools/gen/net.py) */

static void nd_value(Janet v, JanetStream *own) {
    if (janet_checktype(v, JANET_NIL)) { printf("nil"); return; }
    if (janet_checkabstract(v, &janet_stream_type)) {
        JanetStream *s = janet_unwrap_abstract(v);
        printf("%s", s == own ? "own" : (s->handle == nd_last_conn && nd_last_conn >= 0) ? "conn" : "otherstream");
        return;
    }
    if (janet_checktype(v, JANET_STRING)) {
        printf("\"");
        for (const uint8_t *c = janet_unwrap_string(v); *c; c++) putchar(*c == ' ' ? '_' : *c);
        printf("\"");
        return;
    }
    printf("other");
}

#define ND_MAXEV 16
/* one case: kind 0 connect, 1 accept, 2 accept-loop; ev[i] = JanetAsyncEvent (ev[0] is the INIT that janet_async_start_fiber
 * delivers), fail[i] / val[i] = the kernel answer held ready for event i (connect: fail ? errno of getsockopt : SO_ERROR value;
 * accept: fail ? errno of accept4 : a connection) */
static void nd_run_case(JanetFunction *fn, int kind, int nev, const int *ev, const int *fail, const int *val) {
    int fd = socket(AF_INET, SOCK_STREAM | SOCK_NONBLOCK | SOCK_CLOEXEC, 0);
    if (fd < 0) { printf("SETUP-FAILED socket\n"); exit(3); }
    JanetStream *st = janet_stream(fd, kind == 0 ? (JANET_STREAM_READABLE | JANET_STREAM_WRITABLE | JANET_STREAM_SOCKET)
                                                  : (JANET_STREAM_ACCEPTABLE | JANET_STREAM_SOCKET), NULL);
    janet_gcroot(janet_wrap_abstract(st));
    JanetFiber *fib = janet_fiber(fn, 64, 0, NULL);
    janet_gcroot(janet_wrap_fiber(fib));
    nd_fd = fd;
    printf("N %s", kind == 0 ? "C" : kind == 1 ? "A 0" : "A 1");
    for (int e = 0; e < nev; e++) {
        if (kind == 0) {
            nd_so_errno = fail[e] ? val[e] : 0;
            nd_so_res = fail[e] ? 0 : val[e];
            printf(" %d:%s%d", ev[e], fail[e] ? "f" : "k", val[e]);
        } else {
            nd_acc_errno = fail[e] ? val[e] : 0;
            printf(" %d:%s%d", ev[e], fail[e] ? "f" : "c", fail[e] ? val[e] : 0);
        }
        long so0 = nd_so_calls, ac0 = nd_acc_calls;
        nd_last_conn = -1;
        if (e == 0) {
            void *state = NULL;
            if (kind != 0) {
                NdAcceptState *as = janet_malloc(sizeof(NdAcceptState));
                as->function = kind == 2 ? fn : NULL;
                state = as;
            }
            janet_async_start_fiber(fib, st, kind == 0 ? JANET_ASYNC_LISTEN_WRITE : JANET_ASYNC_LISTEN_READ,
                                    kind == 0 ? net_callback_connect : net_callback_accept, state);
        } else {
            fib->ev_callback(fib, (JanetAsyncEvent) ev[e]);
        }
        /* observation */
        printf(" >");
        JanetTask t;
        int ntask = 0;
        while (!janet_q_pop(&janet_vm.spawn, &t, sizeof(t))) {
            ntask++;
            if (t.fiber == fib) {
                printf(" self:%s:", t.sig == JANET_SIGNAL_OK ? "ok" : t.sig == JANET_SIGNAL_ERROR ? "err" : "sig?");
                nd_value(t.value, st);
            } else {
                /* handler fiber: its single argument must be the stream of the descriptor accept4 just returned */
                Janet arg = t.fiber->data[t.fiber->frame];
                printf(" sub:%s:", t.sig == JANET_SIGNAL_OK ? "ok" : "err");
                nd_value(arg, st);
                printf(":%s", janet_checktype(t.value, JANET_NIL) ? "nil" : "val?");
            }
            janet_table_remove(&janet_vm.active_tasks, janet_wrap_fiber(t.fiber));
        }
        if (!ntask) printf(" -");
        printf(" done=%d toclose=%d slotr=%d slotw=%d so=%ld acc=%ld", fib->ev_callback == NULL, !!(st->flags & JANET_STREAM_TOCLOSE),
               st->read_fiber == fib, st->write_fiber == fib, nd_so_calls - so0, nd_acc_calls - ac0);
        if (fib->ev_callback == NULL) break;
    }
    printf("\n");
    if (fib->ev_callback) janet_async_end(fib);
    nd_fd = -1;
    janet_stream_close(st);
    janet_gcunroot(janet_wrap_abstract(st));
    janet_gcunroot(janet_wrap_fiber(fib));
}

/* --netdrive <seed> <cases>: generated cases;   --netseq: cases from stdin, one per line:  C|A0|A1 <event>:<k|f|c><n> ... */
static int netdrive_main(int argc, char **argv) {
    int fromstdin = !strcmp(argv[1], "--netseq");
    uint64_t seed = argc > 2 ? strtoull(argv[2], NULL, 10) : 1;
    int ncases = argc > 3 ? atoi(argv[3]) : 100;
    rng_s = seed * 0x9E3779B97F4A7C15ULL + 77;
    janet_init();
    JanetTable *env = janet_core_env(NULL);
    Janet fv;
    if (janet_dostring(env, "(fn [&opt x] nil)", "netdrive", &fv) || !janet_checktype(fv, JANET_FUNCTION)) { printf("SETUP-FAILED\n"); return 3; }
    janet_gcroot(fv);
    JanetFunction *fn = janet_unwrap_function(fv);
    static const int so_errs[] = { 111 /*ECONNREFUSED*/, 110 /*ETIMEDOUT*/, 113 /*EHOSTUNREACH*/, 104 /*ECONNRESET*/, 101 };
    static const int sys_errs[] = { 9 /*EBADF*/, 88 /*ENOTSOCK*/, 14 };
    static const int acc_errs[] = { 11 /*EAGAIN*/, 11, 11, 103 /*ECONNABORTED*/, 24 /*EMFILE*/, 4 /*EINTR*/ };
    int ev[ND_MAXEV], fail[ND_MAXEV], val[ND_MAXEV];
    int done = 0;
    if (fromstdin) {
        char line[1024];
        while (fgets(line, sizeof line, stdin)) {
            char *tok = strtok(line, " \n");
            if (!tok) continue;
            int kind = !strcmp(tok, "C") ? 0 : !strcmp(tok, "A0") ? 1 : 2;
            int nev = 0;
            while ((tok = strtok(NULL, " \n")) && nev < ND_MAXEV) {
                char k;
                if (sscanf(tok, "%d:%c%d", &ev[nev], &k, &val[nev]) != 3) break;
                fail[nev] = k == 'f';
                nev++;
            }
            if (nev) { nd_run_case(fn, kind, nev, ev, fail, val); done++; }
        }
    } else {
        for (int k = 0; k < ncases; k++) {
            int kind = (int)(rnd() % 3);
            int nev = 1 + (int)(rnd() % 7);
            for (int e = 0; e < nev; e++) {
                ev[e] = e == 0 ? JANET_ASYNC_EVENT_INIT : (int)(rnd() % 10);
                if (e > 0 && (rnd() % 4) == 0) ev[e] = JANET_ASYNC_EVENT_MARK;
                if (e > 0 && (rnd() % 3) == 0) ev[e] = kind == 0 ? JANET_ASYNC_EVENT_WRITE : JANET_ASYNC_EVENT_READ;
                if (kind == 0) {
                    int c = (int)(rnd() % 6);
                    fail[e] = c == 0;
                    val[e] = c == 0 ? sys_errs[rnd() % 3] : c <= 2 ? so_errs[rnd() % 5] : 0;
                } else {
                    fail[e] = (int)(rnd() % 2);
                    val[e] = fail[e] ? acc_errs[rnd() % 6] : 0;
                }
            }
            nd_run_case(fn, kind, nev, ev, fail, val);
            done++;
            if (k % 64 == 63) janet_collect();
        }
    }
    printf("DONE %d\n", done);
    fflush(stdout);
    janet_deinit();
    return 0;
}


/* ------------------------------------------------------------------ readiness dispatch driven in process (D lines)
 * `c16io --worddrive <seed> <cases>` / `--wordseq` (cases on stdin): a read operation (ev_callback_read, StateRead built as
 * janet_ev_read_generic builds it) and / or a write operation (ev_callback_write) are registered on one stream with
 * janet_async_start_fiber; then epoll event WORDS are injected: the wrapped epoll_wait hands janet_loop1_impl exactly one event
 * {word, stream} and the real dispatch block of janet_loop1_impl runs.  read/recv/write/send on the descriptor are answered from a
 * plan (b<k> = k bytes, a = EAGAIN, i = EINTR, e<c> = errno c; an exhausted plan answers EAGAIN) -- the answers actually given are
 * printed, so the Lean model (`DW` command of jm_c16, table = regenerated Gen.Dispatch) is driven by the same answers.  After every
 * step: what was scheduled for each fiber, StateRead / StateWrite fields, buffer count, the calls made (offset:length:transferred).
 * Case syntax:   D <r|-> <chunk> <recv> <n> <base> <w|-> <send> <len> | <word> r=<ans,..> w=<ans,..> | ...   (first step: word = I, the INIT events) */
typedef struct { char k; int v; } WdAns;
#define WD_MAXANS 64
static WdAns wd_rplan[WD_MAXANS], wd_wplan[WD_MAXANS];
static int wd_rn = 0, wd_ri = 0, wd_wn = 0, wd_wi = 0;
static JanetBuffer *wd_buf = NULL;
static const uint8_t *wd_src = NULL;
static int32_t wd_srclen = 0;
static long wd_rpos = 0;                 /* bytes of the arrival pattern handed out so far */
static uint8_t wd_sink[1 << 16];
static long wd_sinklen = 0;
static char wd_rlog[8192], wd_wlog[8192], wd_ralog[2048], wd_walog[2048];
static uint8_t wd_pat(long i) { return (uint8_t)((i * 7 + 3) % 251); }

static void wd_app(char *dst, size_t cap, const char *fmt, ...) {
    size_t l = strlen(dst);
    va_list ap;
    va_start(ap, fmt);
    if (l + 1 < cap) vsnprintf(dst + l, cap - l, fmt, ap);
    va_end(ap);
}

static ssize_t wd_answer(WdAns a, size_t n, char *alog, size_t cap, long *got) {
    *got = 0;
    switch (a.k) {
        case 'b': *got = (long) a.v < (long) n ? a.v : (long) n; wd_app(alog, cap, "%sb%d", alog[0] ? "," : "", a.v); return *got;
        case 'i': wd_app(alog, cap, "%si", alog[0] ? "," : ""); errno = EINTR; return -1;
        case 'e': wd_app(alog, cap, "%se%d", alog[0] ? "," : "", a.v); errno = a.v; return -1;
        default: wd_app(alog, cap, "%sa", alog[0] ? "," : ""); errno = EAGAIN; return -1;
    }
}

static ssize_t wd_read(void *buf, size_t n) {
    WdAns a = { 'a', 0 };
    if (wd_ri < wd_rn) a = wd_rplan[wd_ri++];
    long got;
    int e;
    ssize_t r = wd_answer(a, n, wd_ralog, sizeof wd_ralog, &got);
    e = errno;
    for (long i = 0; i < got; i++) ((uint8_t *) buf)[i] = wd_pat(wd_rpos + i);
    wd_rpos += got;
    wd_app(wd_rlog, sizeof wd_rlog, "%s%ld:%zu:%ld", wd_rlog[0] ? "," : "", wd_buf ? (long)((uint8_t *) buf - wd_buf->data) : -1L, n, got);
    errno = e;
    return r;
}

static ssize_t wd_write(const void *buf, size_t n) {
    WdAns a = { 'a', 0 };
    if (wd_wi < wd_wn) a = wd_wplan[wd_wi++];
    long got;
    int e;
    ssize_t r = wd_answer(a, n, wd_walog, sizeof wd_walog, &got);
    e = errno;
    for (long i = 0; i < got && wd_sinklen < (long) sizeof wd_sink; i++) wd_sink[wd_sinklen++] = ((const uint8_t *) buf)[i];
    wd_app(wd_wlog, sizeof wd_wlog, "%s%ld:%zu:%ld", wd_wlog[0] ? "," : "", wd_src ? (long)((const uint8_t *) buf - wd_src) : -1L, n, got);
    errno = e;
    return r;
}

static int wd_parse_plan(const char *s, WdAns *plan) {
    int n = 0;
    while (*s && n < WD_MAXANS) {
        plan[n].k = *s++;
        plan[n].v = 0;
        if (plan[n].k == 'b' || plan[n].k == 'e') plan[n].v = (int) strtol(s, (char **) &s, 10);
        n++;
        if (*s == ',') s++;
    }
    return n;
}

static void wd_tasks(JanetFiber *rf, JanetFiber *wf, char *rout, char *wout, size_t cap) {
    JanetTask t;
    rout[0] = wout[0] = 0;
    while (!janet_q_pop(&janet_vm.spawn, &t, sizeof(t))) {
        char *dst = t.fiber == rf ? rout : t.fiber == wf ? wout : NULL;
        if (dst) {
            const char *sg = t.sig == JANET_SIGNAL_OK ? "ok" : t.sig == JANET_SIGNAL_ERROR ? "err" : "sig?";
            if (janet_checktype(t.value, JANET_NIL)) wd_app(dst, cap, "%s%s:nil", dst[0] ? "+" : "", sg);
            else if (janet_checktype(t.value, JANET_BUFFER)) wd_app(dst, cap, "%s%s:buf", dst[0] ? "+" : "", sg);
            else if (janet_checktype(t.value, JANET_STRING)) {
                wd_app(dst, cap, "%s%s:\"", dst[0] ? "+" : "", sg);
                for (const uint8_t *c = janet_unwrap_string(t.value); *c; c++) wd_app(dst, cap, "%c", *c == ' ' ? '_' : *c);
                wd_app(dst, cap, "\"");
            } else wd_app(dst, cap, "%s%s:other", dst[0] ? "+" : "", sg);
        }
        janet_table_remove(&janet_vm.active_tasks, janet_wrap_fiber(t.fiber));
    }
    if (!rout[0]) strcpy(rout, "-");
    if (!wout[0]) strcpy(wout, "-");
}

/* one case; steps[0] is the INIT step.  Returns after the last step or when no operation is registered any more. */
static void wd_run_case(JanetFunction *fn, int has_r, int chunk, int recv, int32_t n, int32_t base, int has_w, int snd, int32_t len,
                        int nsteps, const uint32_t *words, char **rplans, char **wplans) {
    int sp[2];
    if (socketpair(AF_UNIX, SOCK_STREAM | SOCK_NONBLOCK | SOCK_CLOEXEC, 0, sp)) { printf("SETUP-FAILED socketpair\n"); exit(3); }
    JanetStream *st = janet_stream(sp[0], JANET_STREAM_READABLE | JANET_STREAM_WRITABLE | JANET_STREAM_SOCKET, NULL);
    janet_gcroot(janet_wrap_abstract(st));
    JanetFiber *rf = NULL, *wf = NULL;
    wd_buf = NULL; wd_src = NULL; wd_rpos = 0; wd_sinklen = 0;
    JanetBuffer *buf = janet_buffer(16);
    janet_gcroot(janet_wrap_buffer(buf));
    for (int32_t i = 0; i < base; i++) janet_buffer_push_u8(buf, 0xEE);
    uint8_t *srcbytes = janet_string_begin(len);
    for (int32_t i = 0; i < len; i++) srcbytes[i] = (uint8_t)((i * 11 + 5) % 253);
    const uint8_t *src = janet_string_end(srcbytes);
    janet_gcroot(janet_wrap_string(src));
    printf("D %s %d %d %d %d %s %d %d", has_r ? "r" : "-", chunk, recv, n, base, has_w ? "w" : "-", snd, len);
    wd_fd = sp[0];
    for (int s = 0; s < nsteps; s++) {
        wd_rn = wd_parse_plan(rplans[s], wd_rplan); wd_ri = 0;
        wd_wn = wd_parse_plan(wplans[s], wd_wplan); wd_wi = 0;
        wd_rlog[0] = wd_wlog[0] = wd_ralog[0] = wd_walog[0] = 0;
        if (s == 0) {
            if (has_r) {
                rf = janet_fiber(fn, 64, 0, NULL);
                janet_gcroot(janet_wrap_fiber(rf));
                StateRead *state = janet_malloc(sizeof(StateRead));       /* as janet_ev_read_generic */
                state->is_chunk = chunk;
                state->buf = buf;
                state->bytes_left = n;
                state->bytes_read = 0;
                state->mode = recv ? JANET_ASYNC_READMODE_RECV : JANET_ASYNC_READMODE_READ;
                state->flags = 0;
                wd_buf = buf;
                janet_async_start_fiber(rf, st, JANET_ASYNC_LISTEN_READ, ev_callback_read, state);
            }
            if (has_w) {
                wf = janet_fiber(fn, 64, 0, NULL);
                janet_gcroot(janet_wrap_fiber(wf));
                StateWrite *state = janet_malloc(sizeof(StateWrite));     /* as janet_ev_write_generic */
                state->is_buffer = 0;
                state->src.str = src;
                state->dest_abst = NULL;
                state->mode = snd ? JANET_ASYNC_WRITEMODE_SEND : JANET_ASYNC_WRITEMODE_WRITE;
                state->flags = 0;
                state->start = 0;
                wd_src = src; wd_srclen = len;
                janet_async_start_fiber(wf, st, JANET_ASYNC_LISTEN_WRITE, ev_callback_write, state);
            }
            printf(" | I");
        } else {
            wd_inject = 1;
            wd_inject_mask = words[s];
            wd_inject_ptr = st;
            janet_loop1_impl(0, 0);
            printf(" | %u", words[s]);
        }
        char rout[256], wout[256];
        wd_tasks(rf, wf, rout, wout, sizeof rout);
        int rdone = !rf || rf->ev_callback == NULL, wdone = !wf || wf->ev_callback == NULL;
        printf(" r=%s w=%s >", wd_ralog[0] ? wd_ralog : "-", wd_walog[0] ? wd_walog : "-");
        if (has_r) {
            StateRead *sr = rdone ? NULL : (StateRead *) rf->ev_state;
            printf(" R:%s:done=%d:read=%d:left=%d:count=%d:slot=%d:calls=%s", rout, rdone, sr ? sr->bytes_read : -1, sr ? sr->bytes_left : -1,
                   buf->count, st->read_fiber == rf, wd_rlog[0] ? wd_rlog : "-");
        }
        if (has_w) {
            StateWrite *sw = wdone ? NULL : (StateWrite *) wf->ev_state;
            printf(" W:%s:done=%d:start=%d:slot=%d:calls=%s", wout, wdone, sw ? sw->start : -1, st->write_fiber == wf, wd_wlog[0] ? wd_wlog : "-");
        }
        if (rdone && wdone) break;
    }
    /* byte-exactness, independent of the model: the buffer holds exactly the first bytes of the arrival pattern, the sink exactly a prefix of the source */
    int okr = 1, okw = 1;
    for (int32_t i = 0; i < buf->count; i++) if (buf->data[i] != (i < base ? 0xEE : wd_pat(i - base))) okr = 0;
    for (long i = 0; i < wd_sinklen; i++) if (i >= len || wd_sink[i] != src[i]) okw = 0;
    printf(" | END handed=%ld appended=%d bytesok=%d sink=%ld sinkok=%d\n", wd_rpos, buf->count - base, okr, wd_sinklen, okw);
    if (rf && rf->ev_callback) janet_async_end(rf);
    if (wf && wf->ev_callback) janet_async_end(wf);
    wd_fd = -1;
    wd_buf = NULL; wd_src = NULL;
    JanetTask t;
    while (!janet_q_pop(&janet_vm.spawn, &t, sizeof(t))) janet_table_remove(&janet_vm.active_tasks, janet_wrap_fiber(t.fiber));
    janet_stream_close(st);
    __real_close(sp[1]);
    janet_gcunroot(janet_wrap_abstract(st));
    janet_gcunroot(janet_wrap_buffer(buf));
    janet_gcunroot(janet_wrap_string(src));
    if (rf) janet_gcunroot(janet_wrap_fiber(rf));
    if (wf) janet_gcunroot(janet_wrap_fiber(wf));
}

#define WD_MAXSTEPS 12
static void wd_gen_plan(char *out, size_t cap, int is_read, int32_t room) {
    out[0] = 0;
    int k = (int)(rnd() % 4);
    for (int i = 0; i < k; i++) {
        int c = (int)(rnd() % 10);
        if (c < 5) {
            int32_t v = (rnd() % 3 == 0) ? room + (int32_t)(rnd() % 3) : 1 + (int32_t)(rnd() % (room > 1 ? room : 1));
            if (rnd() % 9 == 0) v = 0;
            if (rnd() % 5 == 0) v = 1 + (int32_t)(rnd() % 9000);
            wd_app(out, cap, "%sb%d", out[0] ? "," : "", v);
        } else if (c < 7) wd_app(out, cap, "%sa", out[0] ? "," : "");
        else if (c < 8) wd_app(out, cap, "%si", out[0] ? "," : "");
        else wd_app(out, cap, "%se%d", out[0] ? "," : "", is_read ? (rnd() % 2 ? 104 : 32) : (rnd() % 2 ? 32 : 104));
    }
}

static int worddrive_main(int argc, char **argv) {
    int fromstdin = !strcmp(argv[1], "--wordseq");
    uint64_t seed = argc > 2 ? strtoull(argv[2], NULL, 10) : 1;
    int ncases = argc > 3 ? atoi(argv[3]) : 100;
    rng_s = seed * 0x9E3779B97F4A7C15ULL + 1234577;
    janet_init();
    JanetTable *env = janet_core_env(NULL);
    Janet fv;
    if (janet_dostring(env, "(fn [&opt x] nil)", "worddrive", &fv) || !janet_checktype(fv, JANET_FUNCTION)) { printf("SETUP-FAILED\n"); return 3; }
    janet_gcroot(fv);
    JanetFunction *fn = janet_unwrap_function(fv);
    static char rbuf[WD_MAXSTEPS][256], wbuf[WD_MAXSTEPS][256];
    char *rplans[WD_MAXSTEPS], *wplans[WD_MAXSTEPS];
    uint32_t words[WD_MAXSTEPS];
    for (int i = 0; i < WD_MAXSTEPS; i++) { rplans[i] = rbuf[i]; wplans[i] = wbuf[i]; }
    int done = 0;
    if (fromstdin) {
        static char line[8192];
        while (fgets(line, sizeof line, stdin)) {
            char rr[8], ww[8];
            int chunk, recv, n, base, snd, len, used = 0;
            if (sscanf(line, "D %7s %d %d %d %d %7s %d %d%n", rr, &chunk, &recv, &n, &base, ww, &snd, &len, &used) != 8) continue;
            int ns = 0;
            char *p = line + used;
            while ((p = strchr(p, '|')) && ns < WD_MAXSTEPS) {
                p++;
                char wtok[32], rp[256], wp[256];
                if (sscanf(p, " %31s r=%255s w=%255s", wtok, rp, wp) != 3) break;
                words[ns] = wtok[0] == 'I' ? 0 : (uint32_t) strtoul(wtok, NULL, 0);
                snprintf(rbuf[ns], sizeof rbuf[ns], "%s", strcmp(rp, "-") ? rp : "");
                snprintf(wbuf[ns], sizeof wbuf[ns], "%s", strcmp(wp, "-") ? wp : "");
                ns++;
            }
            if (ns) { wd_run_case(fn, rr[0] == 'r', chunk, recv, n, base, ww[0] == 'w', snd, len, ns, words, rplans, wplans); done++; }
        }
    } else {
        static const uint32_t bits[] = { EPOLLIN, EPOLLOUT, EPOLLERR, EPOLLHUP };
        for (int k = 0; k < ncases; k++) {
            int which = (int)(rnd() % 4);              /* 0,1 reader only; 2 writer only; 3 both */
            int has_r = which != 2, has_w = which >= 2;
            int chunk = (int)(rnd() % 2), recv = (int)(rnd() % 2), snd = (int)(rnd() % 2);
            int32_t n = 1 + (int32_t)(rnd() % (rnd() % 3 ? 40 : 12000)), base = (int32_t)(rnd() % 3 ? 0 : rnd() % 50);
            int32_t len = 1 + (int32_t)(rnd() % (rnd() % 3 ? 40 : 9000));
            int ns = 2 + (int)(rnd() % 6);
            for (int s2 = 0; s2 < ns; s2++) {
                uint32_t w = 0;
                for (int b = 0; b < 4; b++) if (rnd() % 2) w |= bits[b];
                if (rnd() % 4 == 0) w |= EPOLLRDHUP;
                if (rnd() % 16 == 0) w |= EPOLLPRI;
                words[s2] = w;
                wd_gen_plan(rbuf[s2], sizeof rbuf[s2], 1, n);
                wd_gen_plan(wbuf[s2], sizeof wbuf[s2], 0, len);
                if (s2 == 0 && rnd() % 4) { strcpy(rbuf[0], "a"); if (rnd() % 2) strcpy(wbuf[0], "a"); }   /* suspended first: the usual case */
            }
            wd_run_case(fn, has_r, chunk, recv, n, base, has_w, snd, len, ns, words, rplans, wplans);
            done++;
            if (k % 64 == 63) janet_collect();
        }
    }
    printf("DONE %d\n", done);
    fflush(stdout);
    janet_deinit();
    return 0;
}

/* ------------------------------------------------------------------ connect(): planned answers for the next calls
 * (c16/connect-plan [x ...]): the next connect() calls are answered from the plan: 0 = the real call, -1 = EINTR (the real call
 * is NOT made), e > 0 = fails with errno e.  (c16/connect-stats) -> [calls made under the plan, closes of that descriptor]. */
int __real_connect(int, const struct sockaddr *, socklen_t);
static int cplan[16], cplan_n = 0, cplan_i = 0;
static int cplan_fd = -1;
static long cplan_calls = 0;
static long cplan_closes = 0;
int __wrap_connect(int fd, const struct sockaddr *a, socklen_t l) {
    if (cplan_i < cplan_n) {
        int x = cplan[cplan_i++];
        cplan_calls++;
        cplan_fd = fd;
        if (x == 0) return __real_connect(fd, a, l);
        errno = x < 0 ? EINTR : x;
        return -1;
    }
    return __real_connect(fd, a, l);
}
static Janet c16_connect_plan(int32_t argc, Janet *argv) {
    janet_fixarity(argc, 1);
    JanetView v = janet_getindexed(argv, 0);
    cplan_n = v.len > 16 ? 16 : v.len;
    for (int i = 0; i < cplan_n; i++) cplan[i] = janet_unwrap_integer(v.items[i]);
    cplan_i = 0; cplan_calls = 0; cplan_closes = 0; cplan_fd = -1;
    return janet_wrap_nil();
}
static Janet c16_connect_stats(int32_t argc, Janet *argv) {
    (void) argv;
    janet_fixarity(argc, 0);
    Janet t[3] = { janet_wrap_integer((int32_t) cplan_calls), janet_wrap_integer((int32_t) cplan_closes), janet_wrap_integer(cplan_n - cplan_i) };
    cplan_n = cplan_i = 0;
    return janet_wrap_tuple(janet_tuple_n(t, 3));
}

/* (c16/stall-listener) -> [port listener-fd filler-fd]: a TCP listener on 127.0.0.1 with backlog 0 whose accept queue is already
 * full (one established, never accepted connection): the kernel drops further SYNs, so the next connect stays in progress until
 * somebody accepts.  No wall clock involved. */
static Janet c16_stall_listener(int32_t argc, Janet *argv) {
    (void) argv;
    janet_fixarity(argc, 0);
    int l = socket(AF_INET, SOCK_STREAM | SOCK_CLOEXEC, 0);
    struct sockaddr_in sa;
    memset(&sa, 0, sizeof sa);
    sa.sin_family = AF_INET;
    sa.sin_addr.s_addr = htonl(INADDR_LOOPBACK);
    socklen_t sl = sizeof sa;
    if (l < 0 || bind(l, (struct sockaddr *) &sa, sizeof sa) || listen(l, 0) || getsockname(l, (struct sockaddr *) &sa, &sl)) janet_panic("stall-listener: cannot listen");
    /* two non-blocking fillers: the first is established and sits in the accept queue (backlog 0 admits one), the second is
     * there for kernels that admit none / two */
    Janet t[4];
    t[0] = janet_wrap_integer(ntohs(sa.sin_port));
    t[1] = janet_wrap_integer(l);
    for (int i = 0; i < 2; i++) {
        int c = socket(AF_INET, SOCK_STREAM | SOCK_CLOEXEC | SOCK_NONBLOCK, 0);
        if (c >= 0) (void) connect(c, (struct sockaddr *) &sa, sizeof sa);
        t[2 + i] = janet_wrap_integer(c);
    }
    return janet_wrap_tuple(janet_tuple_n(t, 4));
}

/* (c16/burst-connect port-or-path k) -> tuple of k descriptors: k clients connect (blocking, plain C sockets) one after the other
 * and each sends its two-digit ordinal; no janet code runs in between, so all k connections are queued between two iterations
 * of the event loop. */
static Janet c16_burst_connect(int32_t argc, Janet *argv) {
    janet_fixarity(argc, 2);
    int k = janet_getinteger(argv, 1);
    Janet *fds = janet_tuple_begin(k);
    for (int i = 0; i < k; i++) {
        int c;
        int r;
        if (janet_checkint(argv[0])) {
            struct sockaddr_in sa;
            memset(&sa, 0, sizeof sa);
            sa.sin_family = AF_INET;
            sa.sin_addr.s_addr = htonl(INADDR_LOOPBACK);
            sa.sin_port = htons((uint16_t) janet_getinteger(argv, 0));
            c = socket(AF_INET, SOCK_STREAM | SOCK_CLOEXEC, 0);
            r = c < 0 ? -1 : connect(c, (struct sockaddr *) &sa, sizeof sa);
        } else {
            struct sockaddr_un su;
            memset(&su, 0, sizeof su);
            su.sun_family = AF_UNIX;
            snprintf(su.sun_path, sizeof su.sun_path, "%s", (const char *) janet_getstring(argv, 0));
            c = socket(AF_UNIX, SOCK_STREAM | SOCK_CLOEXEC, 0);
            r = c < 0 ? -1 : connect(c, (struct sockaddr *) &su, sizeof su);
        }
        if (r) janet_panicf("burst-connect: client %d cannot connect: %s", i, strerror(errno));
        char id[4];
        snprintf(id, sizeof id, "%02d", i % 100);
        (void) !__real_write(c, id, 2);
        fds[i] = janet_wrap_integer(c);
    }
    return janet_wrap_tuple(janet_tuple_end(fds));
}

/* (c16/raw-write fd bytes) -> number of bytes written: plain blocking write() on a descriptor that is not a janet stream (the peer
 * created by c16/burst-connect), repeated until everything is written or the kernel refuses */
static Janet c16_raw_write(int32_t argc, Janet *argv) {
    janet_fixarity(argc, 2);
    int fd = janet_getinteger(argv, 0);
    JanetByteView b = janet_getbytes(argv, 1);
    int32_t off = 0;
    while (off < b.len) {
        ssize_t w = __real_write(fd, b.bytes + off, (size_t)(b.len - off));
        if (w < 0 && errno == EINTR) continue;
        if (w <= 0) break;
        off += (int32_t) w;
    }
    return janet_wrap_integer(off);
}

/* (c16/close-fd fd) */
static Janet c16_close_fd(int32_t argc, Janet *argv) {
    janet_fixarity(argc, 1);
    return janet_wrap_integer(__real_close(janet_getinteger(argv, 0)));
}


static Janet c16_note(int32_t argc, Janet *argv) {
    c16_init();
    if (trace) {
        fprintf(trace, "N fiber=%d", fib_ord(janet_vm.root_fiber));
        for (int32_t i = 0; i < argc; i++) {
            if (janet_checkabstract(argv[i], &janet_stream_type)) {
                JanetStream *st = janet_unwrap_abstract(argv[i]);
                int fd = st->handle;
                fprintf(trace, " sid=%d", (fd >= 0 && fd < MAXFD && fdinfo[fd].tracked) ? fdinfo[fd].sid : -1);
            } else {
                const uint8_t *s = janet_to_string(argv[i]);
                fprintf(trace, " %s", (const char *) s);
            }
        }
        fputc('\n', trace);
    }
    return janet_wrap_nil();
}

/* (c16/slots stream) -> [reader-pending writer-pending closed] */
static Janet c16_slots(int32_t argc, Janet *argv) {
    janet_fixarity(argc, 1);
    JanetStream *st = janet_getabstract(argv, 0, &janet_stream_type);
    Janet t[3] = { janet_wrap_boolean(st->read_fiber != NULL), janet_wrap_boolean(st->write_fiber != NULL),
                   janet_wrap_boolean(!!(st->flags & JANET_STREAM_CLOSED)) };
    return janet_wrap_tuple(janet_tuple_n(t, 3));
}

/* (c16/pending) -> number of fibers with an active stream listener */
static Janet c16_pending(int32_t argc, Janet *argv) {
    (void) argv;
    janet_fixarity(argc, 0);
    return janet_wrap_integer(count_pending(0));
}

/* (c16/sockbuf stream sndbuf rcvbuf) -> set SO_SNDBUF / SO_RCVBUF (0 = leave) */
static Janet c16_sockbuf(int32_t argc, Janet *argv) {
    janet_fixarity(argc, 3);
    JanetStream *st = janet_getabstract(argv, 0, &janet_stream_type);
    int s = janet_getinteger(argv, 1), r = janet_getinteger(argv, 2);
    if (s) setsockopt(st->handle, SOL_SOCKET, SO_SNDBUF, &s, sizeof s);
    if (r) setsockopt(st->handle, SOL_SOCKET, SO_RCVBUF, &r, sizeof r);
    return argv[0];
}

/* (c16/status-for pid word): the next waitpid reaping `pid` (-1: any) reports `word` */
static Janet c16_status_for(int32_t argc, Janet *argv) {
    janet_fixarity(argc, 2);
    int pid = janet_getinteger(argv, 0), w = janet_getinteger(argv, 1);
    for (int i = 0; i < MAXINJ; i++) {
        if (!inj_used[i]) { inj_pid[i] = pid; inj_word[i] = w; inj_used[i] = 1; return janet_wrap_true(); }
    }
    return janet_wrap_false();
}

/* (c16/klog on?) -> switch the K lines on / off;  (c16/fail-next-spawn) -> the next posix_spawn[p] fails with ENOENT */
static Janet c16_klog(int32_t argc, Janet *argv) {
    janet_fixarity(argc, 1);
    klog_on = janet_truthy(argv[0]);
    return janet_wrap_nil();
}
static Janet c16_fail_next_spawn(int32_t argc, Janet *argv) {
    (void) argv;
    janet_fixarity(argc, 0);
    fail_next_spawn = 1;
    return janet_wrap_nil();
}

/* (c16/fail-pipe n) -> the n-th pipe() from now fails with EMFILE */
static Janet c16_fail_pipe(int32_t argc, Janet *argv) {
    janet_fixarity(argc, 1);
    fail_pipe_countdown = janet_getinteger(argv, 0);
    return janet_wrap_nil();
}

/* (c16/fd x) -> descriptor number of a core/stream or core/file */
static Janet c16_fd(int32_t argc, Janet *argv) {
    janet_fixarity(argc, 1);
    if (janet_checkabstract(argv[0], &janet_stream_type)) return janet_wrap_integer(((JanetStream *) janet_unwrap_abstract(argv[0]))->handle);
    JanetFile *f = janet_getabstract(argv, 0, &janet_file_type);
    return janet_wrap_integer(f->file ? fileno(f->file) : -1);
}

/* (c16/fds) -> "fd:cloexec:target fd:cloexec:target ..." of this process */
static Janet c16_fds(int32_t argc, Janet *argv) {
    (void) argv;
    janet_fixarity(argc, 0);
    static char buf[65536];
    FILE *m = fmemopen(buf, sizeof buf - 1, "w");
    fd_table(m, " ");
    fflush(m);
    long len = ftell(m);
    fclose(m);
    return janet_stringv((const uint8_t *) buf, (int32_t) len);
}

static const JanetReg c16_cfuns[] = {
    {"c16/status-for", c16_status_for, NULL},
    {"c16/klog", c16_klog, NULL},
    {"c16/fail-next-spawn", c16_fail_next_spawn, NULL},
    {"c16/fail-pipe", c16_fail_pipe, NULL},
    {"c16/fd", c16_fd, NULL},
    {"c16/fds", c16_fds, NULL},
    {"c16/note", c16_note, NULL},
    {"c16/slots", c16_slots, NULL},
    {"c16/pending", c16_pending, NULL},
    {"c16/sockbuf", c16_sockbuf, NULL},
    {"c16/stall-listener", c16_stall_listener, NULL},
    {"c16/close-fd", c16_close_fd, NULL},
    {"c16/raw-write", c16_raw_write, NULL},
    {"c16/burst-connect", c16_burst_connect, NULL},
    {"c16/connect-plan", c16_connect_plan, NULL},
    {"c16/connect-stats", c16_connect_stats, NULL},
    {NULL, NULL, NULL}
};

int main(int argc, char **argv) {
    if (argc >= 3 && !strcmp(argv[1], "--fdlist")) return child_main(argc, argv);
    c16_init();
    if (argc >= 2 && (!strcmp(argv[1], "--netdrive") || !strcmp(argv[1], "--netseq"))) return netdrive_main(argc, argv);
    if (argc >= 2 && (!strcmp(argv[1], "--worddrive") || !strcmp(argv[1], "--wordseq"))) return worddrive_main(argc, argv);
    /* signal dispositions are left exactly as src/mainclient/shell.c leaves them (it installs none): the harness must be the
     * same program as the `janet` client as far as SIGPIPE is concerned */
    janet_init();
    JanetTable *env = janet_core_env(NULL);
    janet_cfuns(env, NULL, c16_cfuns);
    JanetArray *args = janet_array(argc);
    for (int i = 1; i < argc; i++) janet_array_push(args, janet_cstringv(argv[i]));
    janet_table_put(env, janet_ckeywordv("executable"), janet_cstringv(argv[0]));
    Janet mainfun;
    janet_resolve(env, janet_csymbol("cli-main"), &mainfun);
    Janet mainargs[1] = { janet_wrap_array(args) };
    JanetFiber *fiber = janet_fiber(janet_unwrap_function(mainfun), 64, 1, mainargs);
    janet_gcroot(janet_wrap_fiber(fiber));
    fiber->env = env;
    int status = janet_loop_fiber(fiber);
    janet_deinit();
    return status;
}
