# C16 scenario interpreter.  usage:  <harness-janet> lib.janet <params.jdn>
#
# params: {:dir "<scratch>" :streams [{:kind :pipe|:tcp|:unix|:udp|:udg ...}] :payloads ["p0" ...]
#          :fibers [{:name "w0" :prog [[op args...] ...]} ...]}
# Every op prints   E <fiber> <index> <op> start   and   E <fiber> <index> <op> end <result>   on stdout; the python
# oracle (harness/C16/oracle.py) checks completeness / order / chunk / EOF / close rules from these lines and from
# the sink files (bytes received per stream end, in completion order).  Nothing is judged in here.

(def params (parse (slurp (get (dyn :args) 1))))
(def dir (params :dir))
(def payloads (map (fn [p] (slurp (string dir "/" p))) (get params :payloads [])))
(def has-note (not (nil? (dyn 'c16/note))))
(defn note [& xs] (when has-note (apply (get (dyn 'c16/note) :value) xs)))
(defn slots [s] (if has-note ((get (dyn 'c16/slots) :value) s) [false false false]))

(def ends @{})     # [i e] -> stream
(def sinks @{})    # "i.e" -> buffer
(def chans @{})
(defn chan [k] (unless (get chans k) (put chans k (ev/chan 64))) (get chans k))
(def procs @{})
(defn sink [i e] (def k (string i "." e)) (or (get sinks k) (do (put sinks k @"") (get sinks k))))
(def addrs @{})

(defn setup-stream [i spec]
  (case (spec :kind)
    :pipe (let [[r w] (os/pipe)] (put ends [i 0] r) (put ends [i 1] w))
    :tcp (let [srv (net/listen "127.0.0.1" "0")
               [_ port] (net/localname srv)
               acc (ev/spawn (net/accept srv))]
           (def c (net/connect "127.0.0.1" (string port)))
           (def a (do (var x nil) (while (nil? x) (ev/sleep 0) (when (= :dead (fiber/status acc)) (set x (fiber/last-value acc)))) x))
           (ev/close srv)
           (put ends [i 0] a) (put ends [i 1] c))
    :unix (let [path (string dir "/sock" i)
                srv (net/listen :unix path)
                acc (ev/spawn (net/accept srv))]
            (def c (net/connect :unix path))
            (def a (do (var x nil) (while (nil? x) (ev/sleep 0) (when (= :dead (fiber/status acc)) (set x (fiber/last-value acc)))) x))
            (ev/close srv)
            (put ends [i 0] a) (put ends [i 1] c))
    :udp (let [a (net/listen "127.0.0.1" "0" :datagram)
               b (net/listen "127.0.0.1" "0" :datagram)]
           (put ends [i 0] a) (put ends [i 1] b)
           (put addrs [i 0] (net/address "127.0.0.1" (string (get (net/localname a) 1)) :datagram false))
           (put addrs [i 1] (net/address "127.0.0.1" (string (get (net/localname b) 1)) :datagram false)))
    :udg (let [pa (string dir "/dg" i "a") pb (string dir "/dg" i "b")
               a (net/listen :unix pa :datagram)
               b (net/listen :unix pb :datagram)]
           (put ends [i 0] a) (put ends [i 1] b)
           (put addrs [i 0] (net/address :unix pa :datagram false))
           (put addrs [i 1] (net/address :unix pb :datagram false)))
    :proc (let [cmd (string "cat; cat '" dir "/p" (spec :errpayload) "' >&2; "
                            (if (= (spec :how) "exit") (string "exit " (spec :code)) (string "kill -" (spec :sig) " $$")))
                p (os/spawn ["/bin/sh" "-c" cmd] :p {:in :pipe :out :pipe :err :pipe})]
            (put procs i p)
            (put ends [i 1] (p :in)) (put ends [i 0] (p :out)) (put ends [i 2] (p :err)))
    (error (string "bad kind " (spec :kind))))
  (when (and has-note (spec :sndbuf))
    (each e [0 1] ((get (dyn 'c16/sockbuf) :value) (ends [i e]) (spec :sndbuf) (get spec :rcvbuf 0)))))

(defn res-str [r]
  (cond (nil? r) "nil"
        (buffer? r) (string "buf " (length r))
        (string "val " (type r))))

(var last-partial 0)
(defn one-read [f i e n sk buf?]
  # fresh buffer per op so that the result length is the op's own byte count
  # the buffer is ours, so that bytes a failing (raising) chunk read had already taken from the kernel are still accounted for
  (def b @"")
  (def r (try (f (ends [i e]) n b) ([err] (buffer/push (sink i e) b) (set last-partial (length b)) (error err))))
  (when (and r sk) (buffer/push (sink i e) r))
  # a sink far beyond everything that was ever written means duplicated delivery: stop instead of eating memory
  (when (> (length (sink i e)) (get params :maxsink 100000000))
    (print "OVERFLOW " i " " e) (flush) (os/exit 3))
  r)

(defn run-op [name idx op]
  (def [kind] op)
  (defn start [& xs] (print "E " name " " idx " " kind " start " (string/join (map string xs) " ")) (flush))
  (defn fin [& xs] (print "E " name " " idx " " kind " end " (string/join (map string xs) " ")) (flush))
  (defn guarded [s dir n thunk &opt sub]
    (def id (if sub (string idx "." sub) idx))
    (note "op" s (if sub (get op 3) kind) dir n name id)
    (def res (try [:ok (thunk)] ([err] [:err err])))
    (note "end" name id (res 0))
    res)
  (defn do-read []
    (let [[_ i e n] op
          f ({:read ev/read :chunk ev/chunk :nread net/read :nchunk net/chunk} kind)
          s (ends [i e])]
      (start i e n)
      (def [st v] (guarded s "r" n (fn [] (one-read f i e n true false))))
      (fin st (if (= st :ok) (res-str v) (string "partial=" last-partial " " (string/replace-all "\n" " " (string v)))))))
  (case kind
    :write (let [[_ i e p off len as-buf nf] op
                 data (string/slice (payloads p) off (+ off len))
                 f (if nf net/write ev/write)
                 s (ends [i e])]
             (start i e len)
             (def [st v] (guarded s "w" len (fn [] (f s (if as-buf (buffer data) data)))))
             (fin st (if (= st :ok) (res-str v) (string/replace-all "\n" " " (string v)))))
    :read (do-read)
    :chunk (do-read)
    :nread (do-read)
    :nchunk (do-read)
    :drain (let [[_ i e mode n retry] op
                 f ({:read ev/read :chunk ev/chunk :nread net/read :nchunk net/chunk} mode)
                 s (ends [i e])]
             # repeated reads until nil: each one is reported as its own sub-op
             (start i e n)
             (var k 0)
             (var nerr 0)
             (var going true)
             (while going
               (print "E " name " " idx "." k " " mode " start " i " " e " " n) (flush)
               (def [st v] (guarded s "r" n (fn [] (one-read f i e n true false)) k))
               (print "E " name " " idx "." k " " mode " end " st " " (if (= st :ok) (res-str v) (string "partial=" last-partial " " (string/replace-all "\n" " " (string v))))) (flush)
               (++ k)
               (when (= st :err) (++ nerr))
               (when (or (and (= st :err) (or (not retry) (> nerr 100000))) (and (= st :ok) (nil? v))) (set going false)))
             (fin :ok k))
    :readall (let [[_ i e] op s (ends [i e])]
               (start i e)
               (def [st v] (guarded s "r" "all" (fn [] (one-read ev/read i e :all true false))))
               (fin st (if (= st :ok) (res-str v) (string/replace-all "\n" " " (string v)))))
    :sendto (let [[_ i e p off len] op s (ends [i e])
                  data (string/slice (payloads p) off (+ off len))]
              (start i e len)
              (def [st v] (guarded s "w" len (fn [] (net/send-to s (addrs [i (- 1 e)]) data))))
              (fin st (if (= st :ok) "sent" (string/replace-all "\n" " " (string v)))))
    :recvfrom (let [[_ i e n] op s (ends [i e]) b @""]
                (start i e n)
                (def [st v] (guarded s "r" n (fn [] (net/recv-from s n b))))
                (when (and v (= st :ok)) (buffer/push (sink i e) b))
                (fin st (cond (= st :err) (string/replace-all "\n" " " (string v)) (nil? v) "nil" (string "dgram " (length b)))))
    :close (let [[_ i e] op]
             (start i e)
             (note "close" (ends [i e]) name idx)
             (def r (try (do (ev/close (ends [i e])) :ok) ([err] (string "err " err))))
             (fin r))
    :shutdown (let [[_ i e how] op]
                (start i e how)
                (def r (try (do (net/shutdown (ends [i e]) how) :ok) ([err] (string "err " err))))
                (fin r))
    :wait (let [[_ i] op]
            (start i)
            (def r (try (string "ok " (os/proc-wait (procs i))) ([err] (string "err " err))))
            (fin r))
    :give (let [[_ c] op] (start c) (ev/give (chan c) true) (fin :ok))
    :take (let [[_ c] op] (start c) (ev/take (chan c)) (fin :ok))
    :yield (let [[_ k] op] (start k) (repeat k (ev/sleep 0)) (fin :ok))
    # wait (yielding to the loop, no clock) until end [i e] has a pending reader (slot 0) or writer (slot 1)
    :until-pending (let [[_ i e slot] op]
                     (start i e slot)
                     (var k 0)
                     (while (and (< k 100000) (not (get (slots (ends [i e])) slot))) (ev/sleep 0) (++ k))
                     (fin (if (< k 100000) :ok :never)))
    :slots (let [[_ i e] op] (start i e) (fin (string/format "%j" (slots (ends [i e])))))
    :gc (do (start) (gccollect) (fin :ok))
    (error (string "bad op " kind))))

(defn dump-sinks []
  (eachp [k b] sinks
    (spit (string dir "/sink-" k ".bin") b)))

(defn main [&]
  (eachp [i spec] (params :streams) (setup-stream i spec))
  (note "setup-done")
  (print "SETUP") (flush)
  (def done (ev/chan 1024))
  (def fibers (params :fibers))
  (each fb fibers
    (ev/go (fn []
             (def name (fb :name))
             (def r (try
                      (do (eachp [idx op] (fb :prog) (run-op name idx op)) :finished)
                      ([err f] (string "crashed " err))))
             (print "FIBER " name " " r) (flush)
             (ev/give done name))))
  (repeat (length fibers) (ev/take done))
  (dump-sinks)
  (print "ALLDONE") (flush))
