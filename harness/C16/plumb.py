"""C16: descriptor plumbing of os/spawn / os/execute -- case generator, runner (harness/C16/plumb.janet inside the interposer
binary), direct oracle and the protocol lines for the Lean model (`P` command of jm_c16).

A case: {"id", "spawn": bool, "in" / "out" / "err": spec, "code": exit code, "fail": None | "spawn" | n (n-th pipe() fails)}
spec: "inherit" | "pipe" | "out" (:err :out) | "stdin" | "stdout" | "stderr" | ["file", mode] | ["stream", mode] | "same-as-out"

Direct oracle (never consults the model):
  * the child's descriptors 0 / 1 / 2 refer to what was asked for (pipe inode + direction, file path, or what the parent has);
  * the child holds no pipe end of this spawn anywhere else, and nothing the parent did not have open without close-on-exec;
  * after the spawn the parent has exactly its table from before + its own pipe ends (close-on-exec) + the duplicates of file
    handles that became proc streams; after a failed spawn / pipe failure exactly its table from before;
  * data written to :in arrives on :out, the stderr text on :err (or on :out for :err :out), exit code exact, second wait refused,
    after os/proc-close + the handles' own close the table is the one from before (+ GC-owned duplicates of file handles).
"""
import os
import re
import shutil
import subprocess
import tempfile

HERE = os.path.dirname(os.path.abspath(__file__))
STD = {"stdin": 0, "stdout": 1, "stderr": 2}


def jdn_spec(s):
    if isinstance(s, list):
        return "[:%s :%s]" % (s[0], s[1])
    return ":" + s


def jdn_case(c):
    f = c.get("fail")
    return "{:id %d :spawn %s :in %s :out %s :err %s :code %d :fail %s}" % (
        c["id"], "true" if c["spawn"] else "false", jdn_spec(c["in"]), jdn_spec(c["out"]), jdn_spec(c["err"]), c["code"],
        "nil" if f is None else (":spawn" if f == "spawn" else str(f)))


def generate(rng, n):
    cases = []
    # the systematic part: every combination of the basic kinds for os/spawn, the handle kinds for os/execute
    ins = ["inherit", "pipe", ["file", "r"], "stdin"]
    outs = ["inherit", "pipe", ["file", "w"], "stderr", "stdout"]
    errs = ["inherit", "pipe", "out", ["file", "w"], "stdout", "same-as-out", "stderr"]
    combos = [(True, i, o, e) for i in ins for o in outs for e in errs]
    combos += [(False, i, o, e) for i in ("inherit", ["file", "r"], "stdin") for o in ("inherit", ["file", "w"], "stderr", ["stream", "wct"])
               for e in ("inherit", ["file", "w"], "stdout", "same-as-out", ["stream", "wct"])]
    rng.shuffle(combos)
    for k in range(n):
        sp, i, o, e = combos[k % len(combos)]
        if e == "same-as-out" and not isinstance(o, list):
            e = "inherit"
        c = {"id": k, "spawn": sp, "in": i, "out": o, "err": e, "code": rng.choice([0, 1, 3, 77, 255]), "fail": None}
        npipes = sum(1 for x in (i, o, e) if x == "pipe") if sp else 0
        r = rng.below(10)
        if r == 0:
            c["fail"] = "spawn"
        elif r == 1 and npipes:
            c["fail"] = 1 + rng.below(npipes)
        cases.append(c)
    return cases


def parse_table(s):
    """'fd:cx:acc:target ...' -> {fd: (cx, acc, target)}"""
    out = {}
    for tok in s.split():
        t = tok.split(":", 3)
        if len(t) == 4 and t[0].isdigit():
            out[int(t[0])] = (int(t[1]), int(t[2]), t[3])
    return out


def run_cases(cases, exe, timeout=240):
    d = tempfile.mkdtemp(prefix="c16p-", dir="/var/tmp")
    try:
        with open(os.path.join(d, "cases.jdn"), "w") as f:
            f.write("[" + "\n ".join(jdn_case(c) for c in cases) + "]\n")
        env = dict(os.environ, ASAN_OPTIONS="detect_leaks=0", C16_TRACE=os.path.join(d, "trace"), C16_BACKSTOP_MS="30000")
        with open(os.path.join(d, "stdout"), "wb") as so, open(os.path.join(d, "stderr"), "wb") as se:
            try:
                rc = subprocess.run([exe, os.path.join(HERE, "plumb.janet"), d, os.path.join(d, "cases.jdn")], stdin=subprocess.DEVNULL,
                                    stdout=so, stderr=se, env=env, cwd=d, timeout=timeout).returncode
            except subprocess.TimeoutExpired:
                rc = None
        out = open(os.path.join(d, "stdout"), errors="replace").read()
        err = open(os.path.join(d, "stderr"), errors="replace").read()
        trace = open(os.path.join(d, "trace"), errors="replace").read() if os.path.exists(os.path.join(d, "trace")) else ""
        res = {"rc": rc, "stdout_tail": out[-1500:], "stderr_tail": err[-800:], "cases": {}, "dir": d, "parent_stdout": out, "parent_stderr": err}
        for m in re.finditer(r"^PL (\d+) (\w+) ?(.*)$", out, re.M):
            res["cases"].setdefault(int(m.group(1)), {})[m.group(2)] = m.group(3)
        # K lines per case
        cur = None
        for line in trace.splitlines():
            mm = re.match(r"N fiber=\S+ plumb-(begin|end) (\d+)", line)
            if mm:
                cur = int(mm.group(2)) if mm.group(1) == "begin" else None
                if cur is not None:
                    res["cases"].setdefault(cur, {})["klog"] = []
            elif cur is not None and line.startswith("K "):
                res["cases"][cur]["klog"].append(line[2:])
        for c in cases:
            p = os.path.join(d, "child-%d.txt" % c["id"])
            if os.path.exists(p):
                res["cases"].setdefault(c["id"], {})["child"] = open(p, errors="replace").read()
        return res
    finally:
        shutil.rmtree(d, ignore_errors=True)


def klog_tokens(klog):
    """K lines -> the model's syscall tokens"""
    toks = []
    for l in klog:
        t = l.split()
        kv = dict(x.split("=", 1) for x in t[1:] if "=" in x)
        k = t[0]
        if k == "pipe":
            toks.append("pipe:%s:%s" % (kv["r"], kv["w"]))
        elif k == "pipefail":
            toks.append("pipefail")
        elif k == "setfd":
            toks.append(("cloexec:%s" if kv["cloexec"] == "1" else "nocloexec:%s") % kv["fd"])
        elif k == "setfl":
            toks.append(("nonblock:%s" if kv["nonblock"] == "1" else "block:%s") % kv["fd"])
        elif k == "dupfd":
            toks.append("dupfd:%s:%s" % (kv["fd"], kv["ret"] if int(kv["ret"]) >= 0 else "x"))
        elif k == "close":
            toks.append("close:%s" % kv["fd"])
        elif k == "adddup2":
            toks.append("adddup2:%s:%s" % (kv["src"], kv["dst"]))
        elif k == "addclose":
            toks.append("addclose:%s" % kv["fd"])
        elif k == "spawn":
            toks.append("spawn:%d" % (1 if kv["ret"] == "0" else 0))
        elif k == "dup":
            toks.append("dup:%s:%s" % (kv["fd"], kv["ret"] if int(kv["ret"]) >= 0 else "x"))
    return toks


def redir_token(spec, hfd):
    if spec == "inherit":
        return "i"
    if spec == "pipe":
        return "p"
    if spec == "out":
        return "o"
    if isinstance(spec, list) and spec[0] == "stream":
        return "s%d" % hfd
    return "f%d" % hfd       # core/file objects: file / stdin / stdout / stderr / same-as-out (the :out file again)


def model_line(c, r):
    """-> (protocol line for jm_c16, query fds) or (None, why)"""
    try:
        h = [int(x) for x in r["handles"].split()]
        before = parse_table(r["before"])
        toks = klog_tokens(r.get("klog", []))
    except (KeyError, ValueError) as e:
        return None, "case output incomplete (%s)" % e
    specs = [c["in"], c["out"], c["err"]]
    if specs[2] == "same-as-out":
        isstream = isinstance(specs[1], list) and specs[1][0] == "stream"
        rt = [redir_token(specs[0], h[0]), redir_token(specs[1], h[1]), ("s%d" if isstream else "f%d") % h[2]]
    else:
        rt = [redir_token(s, x) for s, x in zip(specs, h)]
    pipes = [t for t in toks if t.startswith("pipe:") or t == "pipefail"]
    ans_p = []
    for i in range(3):
        if rt[i] == "p" and c["spawn"]:
            if pipes:
                t = pipes.pop(0)
                ans_p.append("x" if t == "pipefail" else t[5:])
            else:
                ans_p.append("x")
        else:
            ans_p.append("x")
    dupfds = [t.split(":")[2] for t in toks if t.startswith("dupfd:")]
    ans_t = []
    for i in range(3):
        hv = h[i] if rt[i][0] in "fs" else -1
        if 0 <= hv <= 2 and hv != i and dupfds:
            ans_t.append(dupfds.pop(0))
        else:
            ans_t.append("x")
    sp = [t for t in toks if t.startswith("spawn:")]
    ok = sp[0][6:] if sp else "1"
    dups = [t.split(":")[2] for t in toks if t.startswith("dup:")]
    ans_d = []
    for i in range(3):
        if c["spawn"] and rt[i][0] == "f" and dups:
            ans_d.append(dups.pop(0))
        else:
            ans_d.append("x")
    openfds = ",".join("%d:%d" % (fd, before[fd][0]) for fd in sorted(before)) or "-"
    q = set(before)
    for key in ("after", "final"):
        q |= set(parse_table(r.get(key, "")))
    q |= set(parse_table(r.get("child", "")))
    for t in toks:
        for x in t.split(":")[1:]:
            if x.isdigit():
                q.add(int(x))
    q = sorted(q)
    line = "P %d %s %s %s | %s | %s %s %d %s | %s" % (1 if c["spawn"] else 0, rt[0], rt[1], rt[2], openfds, " ".join(ans_p), " ".join(ans_t), int(ok),
                                                 " ".join(ans_d), ",".join(map(str, q)))
    return line, toks


def compare_model(c, r, mo, toks):
    """model output line vs the implementation: syscall sequence, the child's table, the parent's table after the spawn.
    -> list of difference descriptions"""
    m = re.match(r"res=(\S+) safe=(\S+) log=(\S*) child=(.*?) parent=(.*)$", mo)
    if not m:
        return ["unparsable model output %r" % mo[:200]]
    diffs = []
    res, safe, mlog, mchild, mparent = m.groups()
    mtoks = [t for t in mlog.split(",") if t]
    if mtoks != toks:
        diffs.append("system call sequence differs: impl %s model %s" % (toks, mtoks))
    before = parse_table(r["before"])
    after = parse_table(r.get("after", ""))

    def resolve(obj):
        # model object -> (target string, access mode or None)
        if obj[0] == "o":
            e = before.get(int(obj[1:]))
            return (e[2], e[1]) if e else (None, None)
        k = int(obj[1:])
        for t in toks:
            pass
        return ("PIPE%d" % k, 0 if obj[0] == "r" else 1)
    # pipe k -> inode string, from the K log (pipe:r:w in order of the directions that asked for a pipe) and the parent's table
    pipe_fds = {}
    order = [i for i, s in enumerate([c["in"], c["out"], c["err"]]) if s == "pipe" and c["spawn"]]
    created = [t for t in toks if t.startswith("pipe:") or t == "pipefail"]
    for i, t in zip(order, created):
        if t != "pipefail":
            pipe_fds[i] = tuple(int(x) for x in t.split(":")[1:])
    ino = {}
    for k, (rfd, wfd) in pipe_fds.items():
        for fd in (rfd, wfd):
            if fd in after and after[fd][2].startswith("pipe:"):
                ino[k] = after[fd][2]

    def table_of(s):
        out = {}
        for tok in s.split():
            fd, obj, cx = tok.split(":")
            out[int(fd)] = (obj, int(cx))
        return out
    if res.startswith("ok") and safe != "1":
        diffs.append("the handles of this spawn do not satisfy `Safe` (hypothesis of child_stdio_exact): %s" % mo[:300])
    # the child's table
    if "child" in r and res.startswith("ok"):
        child = parse_table(r["child"])
        if mchild == "FAILED":
            diffs.append("model: a file action fails in the child; impl child started with %s" % r["child"][:200])
        else:
            mc = table_of(mchild)
            if set(mc) != set(child):
                diffs.append("child's open descriptors differ: impl %s model %s" % (sorted(child), sorted(mc)))
            for fd in sorted(set(mc) & set(child)):
                obj = mc[fd][0]
                tgt, acc = resolve(obj)
                if tgt is not None and tgt.startswith("PIPE"):
                    tgt = ino.get(int(tgt[4:]))
                if tgt is not None and (child[fd][2] != tgt or (acc is not None and child[fd][1] != acc)):
                    diffs.append("child's descriptor %d: impl %s (access %d), model %s = %s (access %s)" % (fd, child[fd][2], child[fd][1], obj, tgt, acc))
    # the parent's table after the spawn
    if after or res != "":
        mp = table_of(mparent)
        if set(mp) != set(after):
            diffs.append("parent's open descriptors after the call differ: impl %s model %s" % (sorted(after), sorted(mp)))
        for fd in sorted(set(mp) & set(after)):
            obj, cx = mp[fd]
            if cx != after[fd][0]:
                diffs.append("parent's descriptor %d close-on-exec flag: impl %d model %d" % (fd, after[fd][0], cx))
            tgt, acc = resolve(obj)
            if tgt is not None and tgt.startswith("PIPE"):
                tgt = ino.get(int(tgt[4:]))
            if tgt is not None and after[fd][2] != tgt:
                diffs.append("parent's descriptor %d: impl %s model %s = %s" % (fd, after[fd][2], obj, tgt))
    return diffs


def oracle(c, r):
    """direct oracle for one case -> list of (signature, description)"""
    fails = []
    cid = c["id"]
    what = "os/%s {:in %s :out %s :err %s}%s" % ("spawn" if c["spawn"] else "execute", jdn_spec(c["in"]), jdn_spec(c["out"]), jdn_spec(c["err"]),
                                               "" if c.get("fail") is None else " with injected failure %s" % c["fail"])
    need = ("handles", "before", "after", "result", "final")
    if any(k not in r for k in need):
        return [("plumb:incomplete", "%s: the case did not run to its end (have %s)" % (what, sorted(r)))]
    before, after, final = parse_table(r["before"]), parse_table(r["after"]), parse_table(r["final"])
    h = [int(x) for x in r["handles"].split()]
    specs = [c["in"], c["out"], c["err"]]
    failed = c.get("fail") is not None
    if failed:
        if not r["result"].startswith("raised"):
            fails.append(("plumb:failure-not-raised", "%s: result %r, expected an error" % (what, r["result"][:80])))
        if after != before:
            fails.append(("plumb:leak-on-failure", "%s: descriptor table after the failed call differs from before: new %s, gone %s"
                          % (what, {k: after[k] for k in after if k not in before}, [k for k in before if k not in after])))
        return fails
    if r["result"].startswith("raised"):
        return [("plumb:raised", "%s raised: %s" % (what, r["result"][:200]))]
    # --- the child's table
    child = parse_table(r.get("child", ""))
    if not child:
        return [("plumb:no-child-listing", "%s: the child did not start or did not write its descriptor table" % what)]
    pfd = [int(x) for x in r["proc"].split()] if "proc" in r else [-1, -1, -1]
    new = {k: v for k, v in after.items() if k not in before}
    expect_new = set()
    for i, s in enumerate(specs):
        want_acc = 0 if i == 0 else 1
        if s == "inherit" or (s == "out" and i == 2):
            if s == "out":
                exp = (child.get(1) or (None, None, None))[2]
            else:
                exp = before[i][2] if i in before else None
        elif s == "pipe":
            mine = pfd[i]
            if mine not in after or not after[mine][2].startswith("pipe:"):
                fails.append(("plumb:parent-pipe-end", "%s: (proc %s) is descriptor %d which is not a pipe in the parent: %s" % (what, ("in", "out", "err")[i], mine, after.get(mine))))
                continue
            exp = after[mine][2]
            expect_new.add(mine)
            if after[mine][0] != 1:
                fails.append(("plumb:parent-end-not-cloexec", "%s: the parent's end %d of the %s pipe is not close-on-exec (a later child would inherit it and keep the pipe open)"
                              % (what, mine, ("in", "out", "err")[i])))
            if after[mine][1] != (1 if i == 0 else 0):
                fails.append(("plumb:parent-end-direction", "%s: the parent's end of the %s pipe has access mode %d" % (what, ("in", "out", "err")[i], after[mine][1])))
        else:
            src = h[i]
            exp = before[src][2] if src in before else None
            want_acc = None
            if c["spawn"] and pfd[i] not in before and pfd[i] >= 0:
                expect_new.add(pfd[i])       # duplicate of a file handle that became the proc stream
        got = child.get(i)
        if got is None:
            fails.append(("spawn-redirect-std-source" if any(isinstance(x, str) and x in STD for x in specs) else "plumb:child-std-closed",
                          "%s: the child starts WITHOUT descriptor %d (expected %s)" % (what, i, exp)))
        elif exp is not None and got[2] != exp:
            fails.append(("spawn-redirect-std-source" if any(isinstance(x, str) and x in STD for x in specs) else "plumb:child-std-wrong",
                          "%s: the child's descriptor %d is %s, expected %s" % (what, i, got[2], exp)))
        elif want_acc is not None and s == "pipe" and got[1] != want_acc:
            fails.append(("plumb:child-pipe-direction", "%s: the child's descriptor %d has access mode %d" % (what, i, got[1])))
    pipe_inodes = {after[f][2] for f in expect_new if f in after and after[f][2].startswith("pipe:")}
    for fd, (cx, acc, tgt) in child.items():
        if fd > 2:
            if tgt in pipe_inodes:
                fails.append(("plumb:child-extra-pipe-end", "%s: the child holds an end of a pipe of this spawn at descriptor %d too (%s)" % (what, fd, tgt)))
            elif fd not in before or before[fd][0] == 1 or before[fd][2] != tgt:
                fails.append(("plumb:child-extra-descriptor", "%s: the child has descriptor %d = %s which the parent did not pass on (parent before: %s)" % (what, fd, tgt, before.get(fd))))
    # --- the parent's table after the spawn
    if set(new) != expect_new:
        fails.append(("plumb:parent-table", "%s: descriptors new in the parent after the call %s, expected exactly its pipe ends / proc streams %s"
                      % (what, {k: new[k] for k in sorted(new)}, sorted(expect_new))))
    gone = [k for k in before if k not in after]
    if gone:
        fails.append(("plumb:parent-lost", "%s: descriptors of the parent closed by the call: %s" % (what, gone)))
    # --- data, status, life cycle
    if c["spawn"]:
        m = re.match(r"(\S+) out=(.*?) err=(.*?) close=(.*?) again=(.*) rc=(\S+)$", r["result"])
        if not m:
            fails.append(("plumb:result", "%s: result line %r" % (what, r["result"][:200])))
        else:
            st, gout, gerr, cl, again, rc = m.groups()
            if st != str(c["code"]) or rc != str(c["code"]):
                fails.append(("exit-status:plumb", "%s: os/proc-wait returned %s, :return-code %s, expected %d" % (what, st, rc, c["code"])))
            if "cannot wait twice" not in again:
                fails.append(("plumb:second-wait", "%s: second os/proc-wait: %s" % (what, again)))
            fed = {"pipe": "PIPEIN-%d" % cid, "inherit": "OUT"}.get(specs[0] if isinstance(specs[0], str) else "", None)
            if isinstance(specs[0], list):
                fed = "FILEIN-%d" % cid
            if specs[0] == "stdin":
                fed = ""
            errtxt = "ERR%d" % cid
            if specs[1] == "pipe" and fed is not None:
                want = fed + (errtxt if specs[2] == "out" else "")
                if gout != want:
                    fails.append(("plumb:data", "%s: read %r from (proc :out), expected %r" % (what, gout[:80], want)))
            if specs[2] == "pipe" and gerr != errtxt:
                fails.append(("plumb:data", "%s: read %r from (proc :err), expected %r" % (what, gerr[:80], errtxt)))
        # after proc-close, closing the handles and a collection: the table from before, minus the handles the case opened itself
        opened = {x for x, s in zip(h, specs) if isinstance(s, list) and x >= 0}
        left = {k: v for k, v in final.items() if k not in before}
        if left:
            fails.append(("plumb:leak-after-close", "%s: descriptors left after os/proc-wait + os/proc-close + collection: %s" % (what, left)))
        lost = [k for k in before if k not in final and k not in opened]
        if lost:
            fails.append(("plumb:parent-lost", "%s: descriptors of the parent gone at the end: %s" % (what, lost)))
    else:
        if r["result"] != str(c["code"]):
            fails.append(("exit-status:plumb", "%s: os/execute returned %s, expected %d" % (what, r["result"][:60], c["code"])))
    return fails
