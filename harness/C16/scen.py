"""C16: scenario generator, runner and direct oracle for stream / subprocess I/O (janet level).

A scenario is a dict
    {"family":..., "streams":[{"kind":"pipe"|"tcp"|"unix"|"udp"|"udg"|"proc", ...}], "payload_sizes":[...],
     "fibers":[{"name":..., "prog":[[op, args...], ...]}], "expects":[[fiber, idx, regex], ...],
     "complete": bool (every stream direction is written, closed and drained to EOF), "faults": {...}}
It is rendered to params.jdn and run by harness/C16/lib.janet inside the interposer binary (harness/C16/evwrap.c).
The oracle reads the E lines on stdout, the sink files and the trace; it never consults the Lean model.
"""
import json
import os
import random
import re
import shutil
import subprocess
import tempfile

HERE = os.path.dirname(os.path.abspath(__file__))
PIPE_BUF_SZ = 65536
READ_KINDS = ("read", "chunk", "nread", "nchunk")


# ----------------------------------------------------------------------------------------------- jdn
def jdn(x):
    if x is None:
        return "nil"
    if x is True:
        return "true"
    if x is False:
        return "false"
    if isinstance(x, int):
        return str(x)
    if isinstance(x, str):
        if x.startswith(":"):
            return x
        return '"' + x.replace("\\", "\\\\").replace('"', '\\"') + '"'
    if isinstance(x, (list, tuple)):
        return "[" + " ".join(jdn(v) for v in x) + "]"
    if isinstance(x, dict):
        return "{" + " ".join(":%s %s" % (k, jdn(v)) for k, v in x.items()) + "}"
    raise TypeError(x)


def kw(prog):
    """first element of each op and mode-like strings become keywords"""
    out = []
    for op in prog:
        o = [":" + op[0]]
        for a in op[1:]:
            if isinstance(a, str) and a in READ_KINDS + ("w", "r", "rw"):
                o.append(":" + a)
            else:
                o.append(a)
        out.append(o)
    return out


# ----------------------------------------------------------------------------------------------- sizes
def pick_size(rng, big):
    """payload sizes 0..big, concentrated around the pipe buffer (65536), page (4096) and socket buffer sizes"""
    c = rng.below(10)
    if c == 0:
        return rng.choice([0, 1, 2, 3, 10])
    if c == 1:
        return rng.choice([4095, 4096, 4097, 8192, 10000])
    if c in (2, 3):
        return PIPE_BUF_SZ + rng.range(-3, 3)
    if c == 4:
        return PIPE_BUF_SZ * rng.range(1, 4) + rng.range(-2, 2)
    if c == 5:
        return rng.choice([212992, 131072, 163840, 2 * 212992]) + rng.range(-2, 2)
    if c in (6, 7):
        return rng.range(1, 300000)
    return rng.range(300000, big)


def pick_read_n(rng, total):
    c = rng.below(9)
    if c == 0:
        return rng.choice([1, 2, 3, 7])
    if c == 1:
        return rng.choice([4095, 4096, 4097])
    if c == 2:
        return PIPE_BUF_SZ + rng.range(-1, 1)
    if c == 3:
        return rng.choice([1000, 10000, 100000, 1000000])
    if c == 4:
        return max(1, total + rng.range(-1, 5))
    if c == 5:
        return max(1, total // rng.range(2, 9))
    return rng.range(1, 200000)


def cuts(rng, total, maxparts):
    k = rng.range(1, maxparts)
    pts = sorted(rng.range(0, total) for _ in range(k - 1))
    pts = [0] + pts + [total]
    return [(pts[i], pts[i + 1] - pts[i]) for i in range(len(pts) - 1)]


def small_reads_ok(total, n):
    """avoid scenarios with > ~6000 read ops (tiny n on a huge payload)"""
    return total // max(1, n) <= 6000


# ----------------------------------------------------------------------------------------------- families
def writer_prog(rng, i, e, p, total, kind, maxparts=6, end="close"):
    prog = []
    for off, ln in cuts(rng, total, maxparts):
        prog.append(["write", i, e, p, off, ln, rng.chance(1, 3), kind != "pipe" and rng.chance(1, 2)])
    if end == "close":
        prog.append(["close", i, e])
    elif end == "shutdown":
        prog.append(["shutdown", i, e, "w"])
    return prog


def reader_prog(rng, i, e, total, kind):
    sock = kind != "pipe"
    mode = rng.choice(["read", "chunk"] + (["nread", "nchunk"] if sock else []))
    n = pick_read_n(rng, total)
    while not small_reads_ok(total, n):
        n *= 16
    prog = []
    if rng.chance(1, 6) and not sock:
        return [["readall", i, e], ["read", i, e, 10]]
    # a few individually sized ops first, then drain
    for _ in range(rng.below(3)):
        m = rng.choice(["read", "chunk"] + (["nread", "nchunk"] if sock else []))
        prog.append([m, i, e, max(1, pick_read_n(rng, total) % 70000)])
    prog.append(["drain", i, e, mode, n])
    return prog


def fam_stream(rng, big, nstreams=None):
    """independent streams, each with its own writer and reader fiber (duplex kinds: both directions)"""
    ns = nstreams or rng.choice([1, 1, 1, 2, 3, 5])
    sc = {"family": "stream", "streams": [], "payload_sizes": [], "fibers": [], "expects": [], "complete": True}
    for i in range(ns):
        kind = rng.choice(["pipe", "pipe", "tcp", "unix"])
        spec = {"kind": ":" + kind}
        if kind != "pipe" and rng.chance(1, 3):
            # (tiny TCP buffers make the transfer depend on the kernel's zero-window probe timer: not below 64 KiB there)
            spec["sndbuf"] = rng.choice([4608, 16384, 65536] if kind == "unix" else [65536, 262144])
            spec["rcvbuf"] = rng.choice([4608, 16384, 65536] if kind == "unix" else [65536, 262144])
        sc["streams"].append(spec)
        dirs = [(1, 0)] if kind == "pipe" else [(1, 0), (0, 1)] if rng.chance(1, 2) else [(1, 0)]
        for (we, re_) in dirs:
            total = pick_size(rng, big if ns <= 2 else min(big, 400000))
            p = len(sc["payload_sizes"])
            sc["payload_sizes"].append(total)
            endmode = "close" if (kind == "pipe" or len(dirs) == 1) else "shutdown"
            sc["fibers"].append({"name": "w%d_%d" % (i, we), "prog": writer_prog(rng, i, we, p, total, kind, end=endmode)})
            sc["fibers"].append({"name": "r%d_%d" % (i, re_), "prog": reader_prog(rng, i, re_, total, kind)})
    return sc


def fam_shared_seq(rng, big):
    """several writer fibers and several reader fibers share ONE stream, taking turns (token on a channel), so at
    most one reader and one writer is pending at any time: per-writer order and slot re-registration"""
    kind = rng.choice(["pipe", "tcp", "unix"])
    nw, nr = rng.range(2, 4), rng.range(2, 4)
    sc = {"family": "shared-seq", "streams": [{"kind": ":" + kind}], "payload_sizes": [], "fibers": [], "expects": [], "complete": True}
    rounds = rng.range(1, 3)
    total = 0
    wprogs = [[] for _ in range(nw)]
    for r in range(rounds):
        for w in range(nw):
            sz = pick_size(rng, min(big, 300000))
            p = len(sc["payload_sizes"])
            sc["payload_sizes"].append(sz)
            total += sz
            wprogs[w].append(["take", "wt%d" % w])
            wprogs[w].append(["write", 0, 1, p, 0, sz, rng.chance(1, 3), False])
            last = (r == rounds - 1 and w == nw - 1)
            if last:
                wprogs[w].append(["close" if kind == "pipe" else "shutdown", 0, 1] + ([] if kind == "pipe" else ["w"]))
            else:
                wprogs[w].append(["give", "wt%d" % ((w + 1) % nw)])
    for w in range(nw):
        sc["fibers"].append({"name": "w%d" % w, "prog": wprogs[w]})
    sc["fibers"].append({"name": "kick", "prog": [["give", "wt0"], ["give", "rt0"]]})
    # readers: each takes the token, performs one or two reads, passes it on; the last reader drains
    n = max(1, pick_read_n(rng, total) % 150000)
    turns = rng.range(1, 3)
    for r in range(nr):
        prog = []
        for t in range(turns):
            prog.append(["take", "rt%d" % r])
            prog.append([rng.choice(["read", "chunk"]), 0, 0, n])
            lastturn = (t == turns - 1 and r == nr - 1)
            if lastturn:
                dn = n
                while not small_reads_ok(total, dn):
                    dn *= 16
                prog.append(["drain", 0, 0, rng.choice(["read", "chunk"]), dn])
            else:
                prog.append(["give", "rt%d" % ((r + 1) % nr)])
        sc["fibers"].append({"name": "r%d" % r, "prog": prog})
    return sc


def fam_close(rng, big):
    """close at various points: own end while a reader / writer is pending, peer end while pending, mid-stream"""
    kind = rng.choice(["pipe", "tcp", "unix"])
    variant = rng.choice(["own-reader", "own-writer", "peer-reader", "peer-writer", "mid-reader", "own-both"])
    sc = {"family": "close:" + variant, "streams": [{"kind": ":" + kind}], "payload_sizes": [], "fibers": [], "expects": [], "complete": False}
    if kind != "pipe":
        sc["streams"][0].update({"sndbuf": 4608, "rcvbuf": 4608} if kind == "unix" else {"sndbuf": 65536, "rcvbuf": 65536})
    bigsz = 8 * 1024 * 1024 if kind != "pipe" else 300000   # far more than any kernel buffer: the writer must pend
    rmode = rng.choice(["read", "chunk"])
    if variant == "own-reader":
        sc["fibers"] = [{"name": "r", "prog": [[rmode, 0, 0, rng.choice([1, 100, 70000])], ["slots", 0, 0]]},
                        {"name": "c", "prog": [["until-pending", 0, 0, 0], ["close", 0, 0], ["slots", 0, 0]]}]
        sc["expects"] = [["r", 0, r"^ok nil$"], ["c", 0, r"^ok$"]]
    elif variant == "own-writer":
        sc["payload_sizes"] = [bigsz]
        sc["fibers"] = [{"name": "w", "prog": [["write", 0, 1, 0, 0, bigsz, rng.chance(1, 2), False]]},
                        {"name": "c", "prog": [["until-pending", 0, 1, 1], ["yield", rng.below(3)], ["close", 0, 1]]}]
        sc["expects"] = [["w", 0, r"^err stream closed$"], ["c", 0, r"^ok$"]]
    elif variant == "peer-reader":
        # peer closes: pending reader sees end of stream -> nil
        sc["fibers"] = [{"name": "r", "prog": [[rmode, 0, 0, rng.choice([1, 100, 70000])], [rmode, 0, 0, 5]]},
                        {"name": "c", "prog": [["until-pending", 0, 0, 0], ["close", 0, 1]]}]
        sc["expects"] = [["r", 0, r"^ok nil$"], ["r", 1, r"^ok nil$"], ["c", 0, r"^ok$"]]
    elif variant == "peer-writer":
        # reading side is closed while the writer pends: the writer must raise, not hang
        sc["payload_sizes"] = [bigsz]
        sc["fibers"] = [{"name": "w", "prog": [["write", 0, 1, 0, 0, bigsz, False, False]]},
                        {"name": "c", "prog": [["until-pending", 0, 1, 1], ["close", 0, 0]]}]
        sc["expects"] = [["w", 0, r"^err "], ["c", 0, r"^ok$"]]
    elif variant == "mid-reader":
        # writer sends part, reader is in a chunk read larger than what was sent, writer end closes: short chunk then nil
        sz = rng.range(1, 100000)
        want = sz + rng.range(1, 5000)
        sc["payload_sizes"] = [sz]
        sc["fibers"] = [{"name": "r", "prog": [["chunk", 0, 0, want], ["chunk", 0, 0, 10], ["read", 0, 0, 10]]},
                        {"name": "w", "prog": [["until-pending", 0, 0, 0], ["write", 0, 1, 0, 0, sz, False, False], ["yield", rng.below(4)], ["close", 0, 1]]}]
        if sz > 0:
            sc["expects"] = [["r", 0, r"^ok buf %d$" % sz], ["r", 1, r"^ok nil$"], ["r", 2, r"^ok nil$"]]
        sc["complete"] = True
    else:  # own-both (duplex only makes sense for sockets; on a pipe use two streams)
        if kind == "pipe":
            return fam_close(rng, big)
        sc["payload_sizes"] = [bigsz]
        sc["fibers"] = [{"name": "r", "prog": [[rmode, 0, 1, 100]]},
                        {"name": "w", "prog": [["write", 0, 1, 0, 0, bigsz, False, rng.chance(1, 2)]]},
                        {"name": "c", "prog": [["until-pending", 0, 1, 0], ["until-pending", 0, 1, 1], ["close", 0, 1], ["slots", 0, 1]]}]
        sc["expects"] = [["r", 0, r"^ok nil$"], ["w", 0, r"^err stream closed$"]]
    return sc


def fam_contend(rng, big):
    """two fibers use the same direction of one stream at the same time (DESIGN 4-2).  The property only demands that
    each op completes or raises and that no byte is lost or duplicated."""
    kind = rng.choice(["pipe", "tcp", "unix"])
    which = rng.choice(["readers", "readers", "writers"])
    sc = {"family": "contend:" + which, "streams": [{"kind": ":" + kind}], "payload_sizes": [], "fibers": [], "expects": [], "complete": False}
    if which == "readers":
        sz = rng.range(1, 5000)
        sc["payload_sizes"] = [sz, sz]
        n = rng.range(sz, sz + 100)
        sc["fibers"] = [{"name": "ra", "prog": [["read", 0, 0, n]]},
                        {"name": "rb", "prog": [["until-pending", 0, 0, 0], [rng.choice(["read", "chunk"]), 0, 0, n]]},
                        {"name": "w", "prog": [["take", "go"], ["write", 0, 1, 0, 0, sz, False, False], ["yield", 3],
                                               ["write", 0, 1, 1, 0, sz, False, False], ["yield", 3], ["close", 0, 1]]},
                        {"name": "k", "prog": [["until-pending", 0, 0, 0], ["yield", 4], ["give", "go"]]}]
    else:
        if kind != "pipe":
            sc["streams"][0].update({"sndbuf": 4608, "rcvbuf": 4608} if kind == "unix" else {"sndbuf": 65536, "rcvbuf": 65536})
        bigsz = 8 * 1024 * 1024 if kind != "pipe" else 300000
        small = rng.range(1, 1000)
        sc["payload_sizes"] = [bigsz, small]
        sc["fibers"] = [{"name": "wa", "prog": [["write", 0, 1, 0, 0, bigsz, False, False], ["give", "adone"]]},
                        {"name": "wb", "prog": [["until-pending", 0, 1, 1], ["write", 0, 1, 1, 0, small, False, False], ["give", "bdone"]]},
                        {"name": "r", "prog": [["until-pending", 0, 1, 1], ["yield", 5], ["drain", 0, 0, "read", 100000]]},
                        {"name": "c", "prog": [["take", "adone"], ["take", "bdone"], ["close", 0, 1]]}]
    return sc


def fam_dgram(rng, big):
    kind = rng.choice(["udp", "udg"])
    sc = {"family": "dgram", "streams": [{"kind": ":" + kind}], "payload_sizes": [], "fibers": [], "expects": [], "complete": False, "dgram": True}
    nwin = rng.range(1, 6)
    ps, pr = [], []
    for wdx in range(nwin):
        # unix datagram sockets block the sender (EAGAIN) once net.unix.max_dgram_qlen (10) messages are queued: bursts beyond
        # that exercise the would-block path of send-to.  UDP loopback drops when the receive buffer overflows: small windows.
        k = rng.range(1, 6) if (kind == "udp" or rng.chance(1, 2)) else rng.range(11, 40)
        for _ in range(k):
            # size 0 is excluded: ev_callback_write performs no syscall for an empty source, so an empty datagram is
            # reported as sent but never transmitted (recorded in notes/C16.md as observed behaviour)
            sz = rng.choice([1, 2, 100, 1472, 1473, 4096, 8000]) if rng.chance(1, 2) else rng.range(1, 8000)
            p = len(sc["payload_sizes"])
            sc["payload_sizes"].append(sz)
            ps.append(["sendto", 0, 1, p, 0, sz])
            pr.append(["recvfrom", 0, 0, rng.choice([8192, 9000, 65536])])
        ps.append(["take", "ack"])
        pr.append(["give", "ack"])
    # pending receiver woken by close of its own socket
    pr.append(["recvfrom", 0, 0, 100])
    ps.append(["until-pending", 0, 0, 0])
    ps.append(["close", 0, 0])
    sc["fibers"] = [{"name": "s", "prog": ps}, {"name": "r", "prog": pr}]
    sc["expects"] = [["r", len(pr) - 1, r"^ok nil$"]]
    return sc


def fam_proc(rng, big):
    """os/spawn with :pipe for stdin/stdout/stderr.  child = sh: copies stdin to stdout (cat), writes payload 1 to stderr,
    then exits with a code or kills itself with a signal."""
    insz = pick_size(rng, min(big, 1500000))
    errsz = pick_size(rng, 300000)
    how = rng.choice(["exit", "exit", "signal"])
    code = rng.choice([0, 1, 2, 37, 126, 127, 128, 129, 137, 254, 255]) if rng.chance(1, 2) else rng.range(0, 255)
    sig = rng.choice([1, 2, 3, 6, 9, 10, 13, 14, 15])
    sc = {"family": "proc", "streams": [{"kind": ":proc", "errpayload": 1, "how": how, "code": code, "sig": sig}],
          "payload_sizes": [insz, errsz], "fibers": [], "expects": [], "complete": True, "proc": True,
          "expect_status": code if how == "exit" else 128 + sig}
    sc["fibers"] = [{"name": "w", "prog": writer_prog(rng, 0, 1, 0, insz, "pipe")},
                    {"name": "ro", "prog": reader_prog(rng, 0, 0, insz, "pipe")},
                    {"name": "re", "prog": reader_prog(rng, 0, 2, errsz, "pipe")},
                    {"name": "x", "prog": [["wait", 0]]}]
    sc["expects"] = [["x", 0, r"^ok %d$" % sc["expect_status"]]]
    return sc


def fam_errinj(rng, big):
    """the kernel answers some calls with an error (ECONNRESET injected by the interposer): the op must raise, the bytes
    accepted before it stay delivered exactly once, later operations on the same stream continue where the kernel is"""
    kind = rng.choice(["pipe", "unix", "tcp"])
    total = pick_size(rng, min(big, 600000))
    sc = {"family": "errinj", "streams": [{"kind": ":" + kind}], "payload_sizes": [total], "fibers": [], "expects": [], "complete": True}
    sc["fibers"].append({"name": "w", "prog": writer_prog(rng, 0, 1, 0, total, kind, maxparts=8)})
    n = pick_read_n(rng, total)
    while not small_reads_ok(total, n):
        n *= 16
    sc["fibers"].append({"name": "r", "prog": [["drain", 0, 0, rng.choice(["read", "chunk"]), n, True]]})
    return sc


FAMILIES = {"errinj": fam_errinj, "stream": fam_stream, "shared-seq": fam_shared_seq, "close": fam_close, "contend": fam_contend, "dgram": fam_dgram,
            "proc": fam_proc}


def gen_faults(rng, sc):
    c = rng.below(5)
    if sc.get("proc"):
        # logical deadlock detection is off with a live child; faults still apply to the parent's pipe ends
        c = rng.choice([0, 2, 3])
    if c == 0:
        f = {"eagain": 0, "short": 0, "eintr": 0}
    elif c == 1:
        f = {"eagain": 50, "short": 100, "eintr": 30}
    elif c == 2:
        f = {"eagain": 300, "short": 400, "eintr": 100}
    elif c == 3:
        f = {"eagain": 0, "short": 700, "eintr": 0}
    else:
        f = {"eagain": 600, "short": 0, "eintr": 200}
    if sc["family"] == "errinj":
        f["err"] = rng.choice([10, 30, 80])
    f["seed"] = rng.next() >> 1
    return f


def generate(rng, family, big):
    sc = FAMILIES[family](rng, big)
    # every real program collects garbage while operations are pending: the collector visits each waiting fiber
    # (JANET_ASYNC_EVENT_MARK to its callback); a third of the scenarios run a fiber that forces collections meanwhile
    if rng.chance(1, 3):
        prog = []
        for _ in range(2 + rng.below(8)):
            prog += [["gc"], ["yield", 1 + rng.below(4)]]
        sc["fibers"] = sc["fibers"] + [{"name": "gc", "prog": prog}]
        sc["collector"] = True
    sc["faults"] = gen_faults(rng, sc)
    sc["payload_seed"] = rng.next() & 0xFFFFFFFF
    return sc


# ----------------------------------------------------------------------------------------------- run
def payload_bytes(seed, idx, size):
    return random.Random(seed * 1000 + idx).randbytes(size)


def run_scenario(sc, exe, child_janet=None, timeout=180, keep=False, env_extra=None):
    d = tempfile.mkdtemp(prefix="c16-", dir="/var/tmp")
    try:
        pay = []
        for i, sz in enumerate(sc["payload_sizes"]):
            b = payload_bytes(sc["payload_seed"], i, sz)
            pay.append(b)
            with open(os.path.join(d, "p%d" % i), "wb") as f:
                f.write(b)
        params = {"dir": d, "maxsink": 2 * sum(sc["payload_sizes"]) + 1000000, "streams": sc["streams"], "payloads": ["p%d" % i for i in range(len(pay))],
                  "fibers": [{"name": fb["name"], "prog": kw(fb["prog"])} for fb in sc["fibers"]]}
        with open(os.path.join(d, "params.jdn"), "w") as f:
            f.write(jdn(params))
        fl = sc.get("faults", {})
        env = dict(os.environ, ASAN_OPTIONS="detect_leaks=0:abort_on_error=0", UBSAN_OPTIONS="print_stacktrace=1",
                   C16_TRACE=os.path.join(d, "trace"), C16_SEED=str(fl.get("seed", 1)), C16_P_EAGAIN=str(fl.get("eagain", 0)),
                   C16_P_SHORT=str(fl.get("short", 0)), C16_P_EINTR=str(fl.get("eintr", 0)), C16_P_ERR=str(fl.get("err", 0)),
                   C16_DEADLOCK="0" if sc.get("proc") else "1", C16_BACKSTOP_MS=str(sc.get("backstop_ms", 20000)),
                   C16_GRACE_MS=str(sc.get("grace_ms", 3000 if any(x["kind"] == ":tcp" for x in sc["streams"]) else 400)))
        if env_extra:
            env.update(env_extra)
        try:
            r = subprocess.run([exe, os.path.join(HERE, "lib.janet"), os.path.join(d, "params.jdn")], stdout=subprocess.PIPE,
                               stderr=subprocess.PIPE, timeout=timeout, env=env, cwd=d)
            rc, out, err = r.returncode, r.stdout, r.stderr
        except subprocess.TimeoutExpired as e:
            rc, out, err = None, e.stdout or b"", e.stderr or b""
        trace = ""
        tp = os.path.join(d, "trace")
        if os.path.exists(tp):
            with open(tp, errors="replace") as f:
                trace = f.read()
        sinks = {}
        for fn in os.listdir(d):
            m = re.match(r"sink-(\d+)\.(\d+)\.bin$", fn)
            if m:
                with open(os.path.join(d, fn), "rb") as f:
                    sinks[(int(m.group(1)), int(m.group(2)))] = f.read()
        return {"rc": rc, "stdout": out.decode(errors="replace"), "stderr": err.decode(errors="replace"), "trace": trace,
                "sinks": sinks, "payloads": pay}
    finally:
        if not keep:
            shutil.rmtree(d, ignore_errors=True)


# ----------------------------------------------------------------------------------------------- oracle
def parse_events(stdout):
    """-> ordered list of op records {fiber, idx, kind, args, start_pos, end_pos, status}"""
    ops = {}
    order = []
    fibers = {}
    alldone = False
    for pos, line in enumerate(stdout.splitlines()):
        t = line.split(" ")
        if t[0] == "E" and len(t) >= 5:
            key = (t[1], t[2])
            if t[4] == "start":
                ops[key] = {"fiber": t[1], "idx": t[2], "kind": t[3], "args": t[5:], "start": pos, "end": None, "status": None}
                order.append(key)
            elif t[4] == "end" and key in ops:
                ops[key]["end"] = pos
                ops[key]["status"] = " ".join(t[5:])
        elif t[0] == "FIBER":
            fibers[t[1]] = " ".join(t[2:])
        elif t[0] == "ALLDONE":
            alldone = True
    return [ops[k] for k in order], fibers, alldone


def fault_counts(trace):
    m = re.search(r"^F calls=(\d+) eagain=(\d+) short=(\d+) eintr=(\d+) err=(\d+) real_eagain=(\d+) real_partial=(\d+) rearm=(\d+)", trace, re.M)
    keys = ["calls", "eagain", "short", "eintr", "err", "real_eagain", "real_partial", "rearm"]
    return dict(zip(keys, map(int, m.groups()))) if m else dict.fromkeys(keys, 0)


def oracle(sc, res):
    """Never raises: output of a misbehaving implementation that cannot be interpreted is itself a finding."""
    try:
        return oracle_inner(sc, res)
    except Exception as e:   # noqa: BLE001
        import traceback
        return [("output-uninterpretable:" + sc.get("family", "?"),
                 "the scenario's output could not be interpreted by the oracle (%s: %s): %s | stdout tail: %r"
                 % (type(e).__name__, e, traceback.format_exc()[-300:], res.get("stdout", "")[-300:]))], []


def oracle_inner(sc, res):
    """Direct check of the property text on one run.  Returns list of (signature, description)."""
    fails = []
    ops, fibers, alldone = parse_events(res["stdout"])
    trace = res["trace"]
    # 0. sanitizer / crash
    if res["rc"] == -13:
        inflight = [o for o in parse_events(res["stdout"])[0] if o["end"] is None]
        fails.append(("write-to-closed-pipe-kills-process",
                      "the whole interpreter was killed by SIGPIPE while a fiber wrote to a stream whose other end is closed "
                      "(the write neither completed nor raised; every other fiber died with it); in flight: %s"
                      % ", ".join("%s[%s] %s %s" % (o["fiber"], o["idx"], o["kind"], " ".join(o["args"])) for o in inflight[:5])))
        return fails, parse_events(res["stdout"])[0]
    if res["rc"] is not None and res["rc"] < 0:
        fails.append(("crash:signal%d" % -res["rc"], "interpreter killed by signal %d" % -res["rc"]))
    if "ERROR: AddressSanitizer" in res["stderr"] or "runtime error:" in res["stderr"]:
        fails.append(("sanitizer", "sanitizer report: " + res["stderr"][-600:]))
    if "OVERFLOW" in res["stdout"]:
        fails.append(("bytes-extra:overflow", "a reader received more than twice the bytes ever written to the stream (duplicated delivery); stopped"))
        return fails, ops
    # 1. every op completes or raises; none is dropped or left suspended
    hung = [o for o in ops if o["end"] is None]
    stuck = re.findall(r"^P fiber=(-?\d+) kind=(\w+) sid=(-?\d+) closed=(-?\d+) in_slot=(-?\d+) revents=(-?\d+)", trace, re.M)
    dead = "DEADLOCK" in trace or "HANG-TIMEOUT" in trace or res["rc"] is None
    if hung or dead or not alldone:
        orphan_r = [p for p in stuck if p[1] == "read" and p[4] == "0"]
        orphan_w = [p for p in stuck if p[1] == "write" and p[4] == "0"]
        names = ", ".join("%s[%s] %s %s" % (o["fiber"], o["idx"], o["kind"], " ".join(o["args"])) for o in hung[:6])
        # an op is "contended" when another fiber started an op on the same end and direction while it was still pending
        def contended(o):
            if o["kind"] not in READ_KINDS + ("write", "readall", "recvfrom", "sendto") or len(o["args"]) < 2:
                return False
            isw = o["kind"] in ("write", "sendto")
            for p2 in ops:
                if p2 is o or p2["fiber"] == o["fiber"] or len(p2["args"]) < 2 or p2["args"][:2] != o["args"][:2]:
                    continue
                if (p2["kind"] in ("write", "sendto")) == isw and p2["kind"] not in ("close", "slots", "until-pending", "shutdown") and p2["start"] > o["start"]:
                    return True
            return False
        cont = [o for o in hung if contended(o)]
        if not orphan_r and not orphan_w and cont:
            # the orphaned fiber may already have been garbage collected (silently dropped instead of suspended forever)
            if cont[0]["kind"] in ("write", "sendto"):
                orphan_w = [("?", "write", "?", "0", "0", "0")]
            else:
                orphan_r = [("?", "read", "?", "0", "0", "0")]
        if orphan_r:
            avail = any(int(p[5]) & 0x11 for p in orphan_r)   # POLLIN | POLLHUP
            fails.append(("second-reader-orphans-first",
                          "a fiber suspended in a read is no longer registered in stream->read_fiber (slot taken over by a second reader); "
                          "data/EOF available for it: %s; loop cannot make progress; ops never completed: %s" % (avail, names)))
        elif orphan_w:
            fails.append(("second-writer-orphans-first",
                          "a fiber suspended in a write is no longer registered in stream->write_fiber (slot taken over by a second writer); "
                          "ops never completed: %s" % names))
        elif any(p[1] == "write" and p[4] == "1" and int(p[5]) & 0x4 for p in stuck):
            kinds = ",".join(sorted(set(s["kind"].lstrip(":") for s in sc["streams"])))
            fails.append(("writer-not-woken-though-writable:" + ("dgram" if sc.get("dgram") else kinds),
                          "a fiber is suspended in a write/send-to, is registered in stream->write_fiber, the descriptor is writable (POLLOUT) "
                          "and the loop has nothing else to wait for: the write-readiness event is never delivered; never completed: %s" % names))
        elif any(p[1] == "read" and p[4] == "1" and int(p[5]) & 0x11 for p in stuck):
            fails.append(("reader-not-woken-though-readable:" + sc["family"],
                          "a fiber is suspended in a read, is registered in stream->read_fiber, data or end-of-stream is available (POLLIN/POLLHUP) "
                          "and the loop has nothing else to wait for; never completed: %s" % names))
        else:
            k = hung[0]["kind"] if hung else "none"
            fails.append(("op-never-completes:%s:%s" % (sc["family"], k),
                          "ops started but never completed or raised: %s (deadlock=%s rc=%s alldone=%s; pending: %s)" % (names, dead, res["rc"], alldone, stuck[:4])))
        return fails, ops   # later rules presuppose completion
    if res["rc"] != 0:
        fails.append(("exit-status:%s" % res["rc"], "scenario interpreter exit status %s: %s" % (res["rc"], res["stderr"][-400:])))
    for name, st in fibers.items():
        if st != "finished":
            fails.append(("fiber-crashed", "fiber %s: %s" % (name, st)))
    # 2. bytes: per stream direction, sink == concatenation of writes (in start order), no loss / dup / reorder
    byend_w, byend_r = {}, {}
    for o in ops:
        if o["kind"] in ("write", "sendto"):
            byend_w.setdefault((int(o["args"][0]), int(o["args"][1])), []).append(o)
        elif o["kind"] in READ_KINDS + ("readall", "recvfrom"):
            byend_r.setdefault((int(o["args"][0]), int(o["args"][1])), []).append(o)
    wdata = {}
    for fb in sc["fibers"]:
        for idx, op in enumerate(fb["prog"]):
            if op[0] in ("write", "sendto"):
                wdata[(fb["name"], str(idx))] = res["payloads"][op[3]][op[4]:op[4] + op[5]]
    for i, spec in enumerate(sc["streams"]):
        kind = spec["kind"].lstrip(":")
        if kind == "proc":
            pairs = [((i, 1), (i, 0))]
        elif kind == "pipe":
            pairs = [((i, 1), (i, 0))]
        else:
            pairs = [((i, 1), (i, 0)), ((i, 0), (i, 1))]
        for wend, rend in pairs:
            ws = byend_w.get(wend, [])
            sink = res["sinks"].get(rend, b"")
            pos = 0
            lost = None
            for w in ws:
                data = wdata[(w["fiber"], w["idx"])]
                ok = w["status"].startswith("ok")
                if sc.get("dgram"):
                    continue
                if ok:
                    seg = sink[pos:pos + len(data)]
                    if seg == data:
                        pos += len(data)
                    elif data.startswith(seg) and pos + len(seg) == len(sink):
                        pos += len(seg)          # sink ends early (reader stopped); judged by `complete` below
                        lost = lost or (w, len(data) - len(seg))
                    else:
                        fails.append(("bytes-differ:%s" % sc["family"], "stream %d %s->%s: bytes received differ from bytes written by %s[%s] at sink offset %d"
                                      % (i, wend, rend, w["fiber"], w["idx"], pos + _lcp(seg, data))))
                        break
                else:
                    pos += _lcp(sink[pos:], data)
            else:
                if not sc.get("dgram"):
                    if pos != len(sink):
                        fails.append(("bytes-extra:%s" % sc["family"], "stream %d %s->%s: %d bytes received beyond what was written (duplication?)"
                                      % (i, wend, rend, len(sink) - pos)))
                    if sc.get("complete") and lost:
                        fails.append(("bytes-lost:%s" % sc["family"], "stream %d %s->%s: reader drained to end of stream but %d bytes of %s[%s] never arrived"
                                      % (i, wend, rend, lost[1], lost[0]["fiber"], lost[0]["idx"])))
        if kind == "proc":
            exp = res["payloads"][spec["errpayload"]]
            got = res["sinks"].get((i, 2), b"")
            if got != exp:
                fails.append(("proc-stderr-differs", "subprocess stderr: got %d bytes, expected %d, first difference at %d" % (len(got), len(exp), _lcp(got, exp))))
    # datagrams: message boundaries, order and content
    if sc.get("dgram"):
        sent = [wdata[(w["fiber"], w["idx"])] for w in byend_w.get((0, 1), []) if w["status"].startswith("ok")]
        got_lens = [int(o["status"].split()[2]) for o in byend_r.get((0, 0), []) if o["status"].startswith("ok dgram")]
        sink = res["sinks"].get((0, 0), b"")
        if got_lens != [len(s) for s in sent] or sink != b"".join(sent):
            fails.append(("dgram-differ", "datagrams received %r != sent %r (or content differs)" % (got_lens[:12], [len(s) for s in sent][:12])))
    # 3./4. read-size, chunk and nil rules per reading end
    for rend, rs in byend_r.items():
        total_after = 0
        sinklen = len(res["sinks"].get(rend, b""))
        seen_nil = False
        own_closed = False
        for o in rs:
            st = o["status"]
            n = None
            if o["kind"] in READ_KINDS:
                n = int(o["args"][2])
            m = re.match(r"ok buf (\d+)$", st)
            if m:
                L = int(m.group(1))
                total_after += L
                if seen_nil and not sc.get("dgram"):
                    fails.append(("data-after-nil", "end %s: %s[%s] returned %d bytes after an earlier read returned nil" % (rend, o["fiber"], o["idx"], L)))
                if n is not None:
                    if L > n:
                        fails.append(("read-more-than-n", "end %s: %s[%s] %s %d returned %d bytes" % (rend, o["fiber"], o["idx"], o["kind"], n, L)))
                    if L == 0 and n > 0:
                        fails.append(("empty-read-not-nil", "end %s: %s[%s] %s %d returned an empty buffer instead of nil/blocking" % (rend, o["fiber"], o["idx"], o["kind"], n)))
                    if o["kind"] in ("chunk", "nchunk") and L < n and total_after != sinklen:
                        fails.append(("chunk-short-before-eof", "end %s: %s[%s] chunk %d returned %d bytes although %d more bytes arrived later"
                                      % (rend, o["fiber"], o["idx"], n, L, sinklen - total_after)))
            elif st == "ok nil":
                seen_nil = True
            elif st.startswith("err partial="):
                # a read that raised after it had already taken bytes from the kernel (they are in the sink)
                total_after += int(st.split()[1].split("=")[1])
            # raised errors are allowed by the property ("completes or raises"); specific expectations are in `expects`
        if sc.get("complete") and not sc.get("dgram"):
            last = rs[-1]["status"] if rs else ""
            if rs and not seen_nil and not last.startswith("err"):
                fails.append(("no-nil-at-eof", "end %s: reader never saw nil at end of stream (last result %r)" % (rend, last)))
    # 5. scenario-specific expectations (close wakes pending ops with nil / 'stream closed'; exit status)
    bykey = {(o["fiber"], o["idx"]): o for o in ops}
    for name, idx, rx in sc.get("expects", []):
        o = bykey.get((name, str(idx)))
        if o is None or o["status"] is None or not re.search(rx, o["status"]):
            what = "close" if sc["family"].startswith("close") else sc["family"]
            fails.append(("expect:%s:%s" % (sc["family"], o["kind"] if o else "?"),
                          "%s: %s[%s] ended with %r, expected /%s/" % (what, name, idx, o["status"] if o else None, rx)))
    return fails, ops


def _lcp(a, b):
    n = min(len(a), len(b))
    if a[:n] == b[:n]:
        return n
    lo, hi = 0, n
    while hi - lo > 1:
        mid = (lo + hi) // 2
        if a[:mid] == b[:mid]:
            lo = mid
        else:
            hi = mid
    return lo
