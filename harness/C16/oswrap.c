/* C16 harness: wrapper TU around os.c for the exit-status decoder.
 *
 * Built by checks/C16.py with ctx.build.harness(variant, "c16os", [this file], extra_ld=["-Wl,--wrap=waitpid"]).
 * `#include "os.c"` makes the file-static `proc_get_status` callable; the interposed waitpid hands it ANY status word,
 * so the compiled decoder (real <sys/wait.h> macros, real branch order) is evaluated on all 2^16 words a Linux kernel can
 * report plus seeded 32-bit words, and compared line by line with the Lean evaluation of the regenerated expression
 * trees (Gen/ProcStat.lean).  Output: one line `<word> <code>` or `<word> panic` per status word.
 *
 *   c16os status <seed> <nrandom>
 */
#define _GNU_SOURCE
#include "os.c"

#include <stdio.h>
#include <stdint.h>
#include <stdlib.h>

static int inject_status = 0;
static long n_waitpid = 0;
static int eintr_first = 0;

pid_t __real_waitpid(pid_t, int *, int);
pid_t __wrap_waitpid(pid_t pid, int *status, int options) {
    (void) options;
    n_waitpid++;
    if (eintr_first) {          /* the retry loop must survive an EINTR without looking at the (unset) status */
        eintr_first = 0;
        *status = 0x5a5a5a5a;
        errno = EINTR;
        return -1;
    }
    *status = inject_status;
    return pid;
}

static uint64_t rng_s = 1;
static uint64_t rnd(void) {
    rng_s += 0x9E3779B97F4A7C15ULL;
    uint64_t z = rng_s;
    z = (z ^ (z >> 30)) * 0xBF58476D1CE4E5B9ULL;
    z = (z ^ (z >> 27)) * 0x94D049BB133111EBULL;
    return z ^ (z >> 31);
}

static void one(int32_t w, int with_eintr) {
    JanetProc proc;
    memset(&proc, 0, sizeof proc);
    proc.pid = 12345;
    inject_status = w;
    eintr_first = with_eintr;
    JanetTryState ts;
    JanetSignal sig = janet_try(&ts);
    if (sig == JANET_SIGNAL_OK) {
        int r = proc_get_status(&proc);
        janet_restore(&ts);
        printf("%d %d\n", (int) w, r);
    } else {
        janet_restore(&ts);
        printf("%d panic\n", (int) w);
    }
}

int main(int argc, char **argv) {
    if (argc < 4 || strcmp(argv[1], "status")) {
        fprintf(stderr, "usage: c16os status <seed> <nrandom>\n");
        return 2;
    }
    rng_s = strtoull(argv[2], NULL, 10);
    long nrand = atol(argv[3]);
    janet_init();
    for (int32_t w = 0; w < 65536; w++) one(w, (w % 7) == 3);
    for (long i = 0; i < nrand; i++) one((int32_t)(uint32_t) rnd(), 0);
    printf("DONE waitpid_calls=%ld\n", n_waitpid);
    janet_deinit();
    return 0;
}
