"""C16, socket callbacks: in-process drive of net_callback_connect / net_callback_accept (c16io --netdrive / --netseq)
  (D) compared event by event with the Lean model (`NC` / `NA` commands of jm_c16, case groups = regenerated Gen.Net),
  (E) judged directly: a connect may end only at a WRITE / ERR / HUP / READ / CLOSE event (never at the collector's MARK visit
      or at INIT / DEINIT), every descriptor accept4 hands out reaches exactly one fiber;
and connection-level scenarios on real sockets (harness/C16/conn.janet): a connect whose handshake is stalled stays pending
across garbage collections; k connections queued between two loop iterations are all served by net/accept-loop / net/accept.
"""
import os
import re
import shutil
import tempfile

from vlib.core import run_cmd, VERIF

EVNAME = {0: "INIT", 1: "MARK", 2: "DEINIT", 3: "CLOSE", 4: "ERR", 5: "HUP", 6: "READ", 7: "WRITE", 8: "COMPLETE", 9: "FAILED"}
ENV = dict(os.environ, ASAN_OPTIONS="detect_leaks=0")


def parse(text):
    """-> list of {kind: 'C'|'A', loop: 0|1, ev: [(token, observation)]}"""
    cases = []
    for line in text.splitlines():
        if not line.startswith("N "):
            continue
        t = line.split()
        if t[1] == "C":
            kind, loop, rest = "C", 0, t[2:]
        else:
            kind, loop, rest = "A", int(t[2]), t[3:]
        evs, cur, obs = [], None, []
        for x in rest:
            if x == ">":
                continue
            if re.fullmatch(r"\d+:[kfc]\d+", x):
                if cur is not None:
                    evs.append((cur, " ".join(obs)))
                cur, obs = x, []
            else:
                obs.append(x)
        if cur is not None:
            evs.append((cur, " ".join(obs)))
        cases.append({"kind": kind, "loop": loop, "ev": evs})
    return cases


def case_text(c):
    return ("C" if c["kind"] == "C" else "A%d" % c["loop"]) + " " + " ".join(t for t, _ in c["ev"])


def describe(c):
    return ("net/connect" if c["kind"] == "C" else "net/accept-loop" if c["loop"] else "net/accept") + " callback, events " + \
        " ".join("%s[%s]" % (EVNAME.get(int(t.split(":")[0]), t), t.split(":")[1]) for t, _ in c["ev"])


def model_line(c):
    if c["kind"] == "C":
        return "NC " + " ".join(t for t, _ in c["ev"])
    return "NA %d " % c["loop"] + " ".join(t for t, _ in c["ev"])


def expected_obs(c, tok):
    """the observation the implementation must show for the model's per-event token"""
    r, x, asked = tok.split("/")
    if c["kind"] == "C":
        head = {"p": "-", "ok": "self:ok:own", "closed": 'self:err:"stream_closed"'}.get(r)
        if head is None:
            code = int(r[2:] if r.startswith("so") else r[3:])
            head = 'self:err:"%s"' % os.strerror(code).replace(" ", "_")
        done = 0 if r == "p" else 1
        return "%s done=%d toclose=%s slotr=0 slotw=%d so=%s acc=0" % (head, done, x, 1 - done, asked)
    head = "sub:ok:conn:nil" if x == "h" else {"p": "-", "acc": "self:ok:conn", "nil": "self:ok:nil"}[r]
    done = 0 if r == "p" else 1
    return "%s done=%d toclose=0 slotr=%d slotw=0 so=0 acc=%s" % (head, done, 1 - done, asked)


def oracle(cases):
    """direct expectations on the implementation's behaviour, independent of the model -> [(sig, desc, case)]"""
    fails = []
    for c in cases:
        if c["kind"] == "C":
            for tok, obs in c["ev"]:
                ev = int(tok.split(":")[0])
                ended = "done=1" in obs
                if ev in (0, 1, 2) and (ended or "so=0" not in obs or not obs.startswith("-")):
                    sig = "connect-completes-during-gc" if ev == 1 else "connect-completes-without-readiness-event"
                    fails.append((sig, "%s: the %s event (%s) made the pending connect %s -- observed `%s`; only a readiness / error / "
                                  "hang-up / close event may end a connect" % (describe(c), EVNAME[ev],
                                  "the collector's visit of the waiting fiber" if ev == 1 else "not a readiness event",
                                  "check SO_ERROR and end" if ended else "make a system call", obs), c))
                    break
                if ev not in (0, 1, 2) and not ended:
                    fails.append(("connect-not-ended-by-readiness-event", "%s: still pending after %s: `%s`" % (describe(c), EVNAME.get(ev), obs), c))
                    break
                if ev not in (0, 1, 2, 3):
                    # the result is what SO_ERROR says: (0, 0) -> the stream, anything else -> an error and the stream is closed later
                    good = tok.split(":")[1] == "k0"
                    if good != obs.startswith("self:ok:own") or (not good and not (obs.startswith("self:err:") and "toclose=1" in obs)):
                        fails.append(("connect-result-not-so-error", "%s: getsockopt(SO_ERROR) answered %s at %s but the operation reported `%s` "
                                      "(expected %s)" % (describe(c), tok.split(":")[1], EVNAME.get(ev), obs,
                                                         "the stream" if good else "an error, with the stream marked for closing"), c))
                        break
                if ev == 3 and not obs.startswith('self:err:"stream_closed"'):
                    fails.append(("connect-close-not-raised", "%s: CLOSE must raise \"stream closed\": `%s`" % (describe(c), obs), c))
                    break
        else:
            for tok, obs in c["ev"]:
                ev, ans = int(tok.split(":")[0]), tok.split(":")[1]
                took = "acc=1" in obs and ans.startswith("c")
                handed = ("sub:ok:conn:nil" in obs) + ("self:ok:conn" in obs)
                if took and handed != 1:
                    fails.append(("accept-connection-dropped", "%s: accept4 returned a connection at %s but it reached %d fibers: `%s`"
                                  % (describe(c), EVNAME.get(ev), handed, obs), c))
                    break
                if not took and handed:
                    fails.append(("accept-connection-invented", "%s: a fiber was handed a connection although accept4 returned none: `%s`" % (describe(c), obs), c))
                    break
                if c["loop"] and "self:ok:conn" in obs:
                    fails.append(("accept-loop-returned-connection", "%s: the accept loop returned a connection to its caller: `%s`" % (describe(c), obs), c))
                    break
                if ev == 1 and (not obs.startswith("-") or "acc=0" not in obs or "done=0" not in obs):
                    fails.append(("accept-changed-by-gc", "%s: the collector's MARK visit changed the pending accept: `%s`" % (describe(c), obs), c))
                    break
    return fails


def compare(cases, outs):
    """model output lines vs observations -> list of differences"""
    diffs = []
    for c, mo in zip(cases, outs):
        toks = (mo or "").split()
        if mo is None or mo.strip() == "parse-error":
            diffs.append({"case": case_text(c), "why": "model driver rejected the case (%r)" % mo})
            continue
        if len(toks) != len(c["ev"]):
            diffs.append({"case": case_text(c), "model": mo, "why": "the model ends the operation after %d events, the implementation after %d: %s"
                          % (len(toks), len(c["ev"]), describe(c))})
            continue
        for (tok, obs), m in zip(c["ev"], toks):
            want = expected_obs(c, m)
            if want != obs:
                diffs.append({"case": case_text(c), "event": tok, "model": m, "model_expects": want, "impl": obs, "why": describe(c)})
                break
    return diffs


def run_drive(exe, seed, n, lines=None):
    if lines is None:
        rc, out, err = run_cmd([exe, "--netdrive", str(seed), str(n)], timeout=300, env=ENV)
    else:
        rc, out, err = run_cmd([exe, "--netseq"], input=("\n".join(lines) + "\n").encode(), timeout=300, env=ENV)
    text = out.decode(errors="replace")
    ok = rc == 0 and re.search(r"^DONE \d+", text, re.M) is not None
    return ok, text, err.decode(errors="replace")[-600:]


def run_conn(exe, seed, drv_model=None):
    """connection-level scenarios on real sockets -> (n cases, [(sig, desc)], stats, model diffs)
    drv_model: callable(list of lines) -> list of output lines of jm_c16 (for the connect() loop cases)"""
    d = tempfile.mkdtemp(prefix="c16n-", dir="/var/tmp")
    diffs, plans = [], []
    fails, stats = [], {"connect_call_cases": 0, "connectgc_cases": 0, "connectgc_not_applicable": 0, "accept_bursts": 0, "connections": 0, "max_burst": 0}
    try:
        rc, out, err = run_cmd([exe, os.path.join(VERIF, "harness/C16/conn.janet"), d, str(seed)], timeout=420,
                               env=dict(ENV, C16_BACKSTOP_MS="60000"), cwd=d)
        text = out.decode(errors="replace")
        n = 0
        for line in text.splitlines():
            t = line.split()
            kv = dict(x.split("=", 1) for x in t if "=" in x)
            if line.startswith("connectgc "):
                n += 1
                if kv.get("before") != "pending":
                    stats["connectgc_not_applicable"] += 1      # the kernel did not stall the handshake: nothing to judge
                    continue
                stats["connectgc_cases"] += 1
                if kv.get("after") != "pending":
                    how = {"explicit": "(gccollect)", "alloc": "a collection triggered by allocation", "none": "one (ev/sleep 0)"}.get(t[1], t[1])
                    fails.append(("connect-completes-during-gc" if t[1] != "none" else "connect-completes-without-readiness-event",
                                  "net/connect to a listener whose accept queue is full (the kernel drops the SYN, the handshake cannot complete): "
                                  "pending before, but after %s the call had %s -- the operation ended although no readiness event "
                                  "was delivered (line: %s)" % (how, kv.get("after"), line)))
                elif kv.get("end") != "stop":
                    fails.append(("connect-cancel", "a pending net/connect that is cancelled must raise the cancel value: %s" % line))
            elif line.startswith("connectcall "):
                n += 1
                stats["connect_call_cases"] += 1
                plan = [int(x) for x in kv.get("plan", "").split(",") if x]
                last = plan[-1] if plan else 0
                # direct expectation: EINTR is retried, the first other answer decides; an error raises it and closes the descriptor once
                want_calls = len(plan)
                if last == 0:
                    ok = kv.get("result") == "stream" and kv.get("closes") == "0"
                else:
                    ok = kv.get("result", "").startswith("could_not_connect_socket:_" + os.strerror(last).replace(" ", "_")) and kv.get("closes") == "1"
                if not ok or kv.get("calls") != str(want_calls) or kv.get("unused") != "0":
                    fails.append(("connect-call", "net/connect with connect() answering %s (-1 = EINTR, 0 = the real call, n = errno n): %s -- expected %d "
                                  "calls, %s" % (plan, line, want_calls, "the stream, nothing closed" if last == 0 else
                                                 "`could not connect socket: %s` and the descriptor closed exactly once" % os.strerror(last))))
                plans.append((plan, kv))
            elif line.startswith("pipeline "):
                n += 1
                stats["subprocess_pipelines"] = stats.get("subprocess_pipelines", 0) + 1
                if kv.get("ended") != "true" or kv.get("count") != kv.get("n") or kv.get("status") != "0,0":
                    fails.append(("subprocess-pipeline", "producer | consumer through (os/pipe :RW), parent's ends closed: %s -- expected the consumer to "
                                  "read %s bytes, see end of stream when the producer exits, and both to exit 0 (a stray copy of the write end keeps "
                                  "the consumer waiting forever)" % (line, kv.get("n"))))
            elif line.startswith("inetd "):
                n += 1
                stats["duplex_redirections"] = stats.get("duplex_redirections", 0) + 1
                want = {"A": ("5", "o:ping-A|"), "B": ("9", "e:ping-B|"), "C": ("0", "o:ping-C|e:ping-C|"), "D": ("3", "o:D|e:D|")}.get(t[1])
                if want and (kv.get("result") != want[0] or kv.get("peer") != want[1]):
                    fails.append(("spawn-duplex-stream", "os/execute with ONE connected socket as the child's %s (inetd style): exit status / raised = %s, "
                                  "the peer received %r; expected exit status %s and %r -- a descriptor the child still needs was closed or "
                                  "mis-wired by the file actions" % (kv.get("keys"), kv.get("result"), kv.get("peer"), want[0], want[1])))
            elif line.startswith("acceptburst "):
                n += 1
                stats["accept_bursts"] += 1
                k = int(kv.get("k", "0"))
                stats["connections"] += k
                stats["max_burst"] = max(stats["max_burst"], k)
                if kv.get("served") != str(k) or kv.get("distinct") != str(k):
                    fails.append(("accept-connection-never-served", "%d clients connected between two iterations of the event loop (%s): only %s were "
                                  "handed to a handler / returned by net/accept (%s distinct) after %s loop iterations -- the others stay in the "
                                  "accept queue forever" % (k, t[1], kv.get("served"), kv.get("distinct"), kv.get("turns", "k accept calls"))))
                elif kv.get("inorder") == "false":
                    fails.append(("accept-order", "net/accept returned queued connections out of arrival order: %s" % line))
            elif line.startswith("acceptend "):
                n += 1
                if not line.rstrip().endswith("(true nil)"):
                    fails.append(("accept-loop-close", "closing the listener must end net/accept-loop with nil: %s" % line))
        if rc != 0 or "DONE" not in text:
            fails.append(("conn-script", "conn.janet did not finish: rc=%s %s %s" % (rc, text[-300:], err.decode(errors="replace")[-300:])))
        if drv_model and plans:
            outs = drv_model(["NK " + " ".join(str(x) for x in p) for p, _ in plans])
            for (p, kv), mo in zip(plans, outs):
                m = re.match(r"(registered|raised(\d+)|starved) calls=(\d+) closes=(\d+)$", mo.strip())
                impl = ("registered" if kv.get("result") == "stream" else "raised", kv.get("calls"), kv.get("closes"))
                if not m or (m.group(1).rstrip("0123456789"), m.group(3), m.group(4)) != impl or \
                        (m.group(2) and os.strerror(int(m.group(2))).replace(" ", "_") not in kv.get("result", "")):
                    diffs.append({"plan": p, "impl": kv, "model": mo, "why": "cfun_net_connect's connect() loop and Stream.Net.connectCall differ"})
        return n, fails, stats, diffs
    finally:
        shutil.rmtree(d, ignore_errors=True)
