"""C16, readiness dispatch of janet_loop1_impl (epoll event WORDS):
  (D) c16io --worddrive / --wordseq: a read and / or a write operation registered on one stream, the wrapped epoll_wait hands the
      real janet_loop1_impl one injected event word at a time (IN|ERR, IN|HUP, IN|RDHUP, OUT|ERR, IN|OUT|HUP, ...), read / recv /
      write / send are answered from a plan; after every step the scheduled results, StateRead / StateWrite fields, buffer count,
      slots and the calls made are compared with the Lean model (`DR` / `DW` of jm_c16: readWord / writeWord on the regenerated
      table Gen.Dispatch);
  (E) judged directly, without the model: every byte the (planned) kernel handed out is in the buffer, byte-exact; a reader that is
      told end-of-stream at a word containing EPOLLIN must have read the descriptor in that word; and on real sockets
      (harness/C16/hangup.janet): "the peer answers and hangs up with unread input" -- everything written before the reset is read
      before nil / error.
"""
import os
import re
import shutil
import tempfile

from vlib.core import run_cmd, VERIF

ENV = dict(os.environ, ASAN_OPTIONS="detect_leaks=0")
EPOLLIN, EPOLLOUT, EPOLLERR, EPOLLHUP = 1, 4, 8, 16


def word_name(w):
    names = [n for n, b in (("IN", 1), ("PRI", 2), ("OUT", 4), ("ERR", 8), ("HUP", 16), ("RDHUP", 0x2000)) if w & b]
    return "|".join(names) or "0"


def parse(text):
    """-> list of cases {head: [r, chunk, recv, n, base, w, send, len], steps: [{word, r_ans, w_ans, R: {...}|None, W: {...}|None}], end: {...}, text}"""
    cases = []
    for line in text.splitlines():
        if not line.startswith("D "):
            continue
        parts = [p.strip() for p in line.split(" | ")]
        head = parts[0].split()[1:]
        steps, end = [], {}
        for p in parts[1:]:
            if p.startswith("END"):
                end = dict(x.split("=", 1) for x in p.split()[1:])
                continue
            left, _, obs = p.partition(" > ")
            lt = left.split()
            st = {"word": lt[0], "r_ans": lt[1][2:], "w_ans": lt[2][2:], "R": None, "W": None}
            for tok in obs.split():
                kind = tok[0]
                m = re.match(r"[RW]:(.*?):done=(\d):(.*)$", tok)
                if not m:
                    continue
                d = {"sched": m.group(1), "done": int(m.group(2))}
                rest = m.group(3)
                # fields are k=v separated by ':' ; calls=<a:b:c,...> is last and itself contains ':'
                ci = rest.index("calls=")
                for kv in rest[:ci].rstrip(":").split(":"):
                    if "=" in kv:
                        k, v = kv.split("=", 1)
                        d[k] = int(v)
                d["calls"] = rest[ci + 6:]
                st[kind] = d
            steps.append(st)
        cases.append({"head": head, "steps": steps, "end": end, "text": line})
    return cases


def case_line(c):
    """the input line that reproduces the case with --wordseq (the answers actually given)"""
    return "D " + " ".join(c["head"]) + "".join(" | %s r=%s w=%s" % (s["word"], s["r_ans"], s["w_ans"]) for s in c["steps"])


def describe(c):
    h = c["head"]
    ops = []
    if h[0] == "r":
        ops.append("%s of %s bytes (%s)" % ("ev/chunk" if h[1] == "1" else "ev/read", h[3], "recv" if h[2] == "1" else "read"))
    if h[5] == "w":
        ops.append("ev/write of %s bytes (%s)" % (h[7], "send" if h[6] == "1" else "write"))
    return " + ".join(ops) + "; steps: " + " ; ".join(
        "%s [read answers %s, write answers %s]" % ("INIT" if s["word"] == "I" else "epoll word " + word_name(int(s["word"])), s["r_ans"], s["w_ans"])
        for s in c["steps"])


def model_lines(c):
    """-> (DR line | None, DW line | None)"""
    h = c["head"]
    rl = wl = None
    if h[0] == "r":
        toks = []
        for s in c["steps"]:
            if s["R"] is None:
                break
            toks += [s["word"], s["r_ans"]]
        inclen = sum(int(x[1:]) for s in c["steps"] for x in s["r_ans"].split(",") if x.startswith("b"))
        rl = "DR %s %s %s %d %s" % (h[1], h[3], h[4], inclen + 1, " ".join(toks))
    if h[5] == "w":
        toks = []
        for s in c["steps"]:
            if s["W"] is None:
                break
            toks += [s["word"], s["w_ans"]]
        wl = "DW %s %s %s" % (h[6], h[7], " ".join(toks))
    return rl, wl


def _want_sched(res):
    if res == "pending":
        return "-"
    if res == "nil":
        return "ok:nil"
    if res.startswith("buf"):
        return "ok:buf"
    if res == "done":
        return "ok:nil"
    if res.startswith("failed:sys"):
        return 'err:"%s"' % os.strerror(int(res[10:])).replace(" ", "_")
    return {"failed:disconnect": 'err:"disconnect"', "failed:err": 'err:"stream_err"', "failed:hup": 'err:"stream_hup"',
            "failed:closed": 'err:"stream_closed"'}.get(res, "?" + res)


def compare(c, rout, wout):
    """-> list of difference texts"""
    diffs = []
    base = int(c["head"][4])
    for kind, out in (("R", rout), ("W", wout)):
        if out is None:
            continue
        toks = out.split()
        if out.strip() == "parse-error":
            diffs.append("model driver rejected the %s line" % kind)
            continue
        obs = [s[kind] for s in c["steps"] if s[kind] is not None]
        live = []
        for o in obs:
            live.append(o)
            if o["done"]:
                break
        if len(toks) != len(live):
            diffs.append("%s: the model runs %d steps, the implementation %d" % (kind, len(toks), len(live)))
            continue
        for i, (t, o) in enumerate(zip(toks, live)):
            f = t.split("/")
            res, calls = f[0], f[-1]
            pend = res == "pending"
            bad = None
            if calls != o["calls"]:
                bad = "system calls differ: model %s, implementation %s" % (calls, o["calls"])
            elif _want_sched(res) != o["sched"]:
                bad = "outcome differs: model %s, implementation scheduled %s" % (res, o["sched"])
            elif o["done"] != (0 if pend else 1) or o["slot"] != (1 if pend else 0):
                bad = "registration differs: model %s, implementation done=%d slot=%d" % (res, o["done"], o["slot"])
            elif kind == "R" and o["count"] != base + int(f[3]):
                bad = "buffer count %d, model %d" % (o["count"], base + int(f[3]))
            elif kind == "R" and pend and (o["read"] != int(f[1]) or o["left"] != int(f[2])):
                bad = "StateRead {bytes_read=%d, bytes_left=%d}, model {%s, %s}" % (o["read"], o["left"], f[1], f[2])
            elif kind == "W" and pend and o["start"] != int(f[1]):
                bad = "StateWrite.start=%d, model %s" % (o["start"], f[1])
            if bad:
                diffs.append("%s step %d (%s): %s" % (kind, i, "INIT" if c["steps"][i]["word"] == "I" else word_name(int(c["steps"][i]["word"])), bad))
                break
    return diffs


def oracle(cases):
    """direct expectations, independent of the model -> [(sig, desc, case)]"""
    fails = []
    for c in cases:
        e = c["end"]
        if e.get("bytesok") != "1" or e.get("handed") != e.get("appended"):
            fails.append(("dispatch-bytes-lost", "%s: the kernel handed out %s bytes, the buffer grew by %s (byte-exact: %s) -- a byte taken from the "
                          "descriptor is not in the buffer" % (describe(c), e.get("handed"), e.get("appended"), e.get("bytesok")), c))
            continue
        if e.get("sinkok") != "1":
            fails.append(("dispatch-write-bytes-wrong", "%s: the bytes accepted by the kernel are not a prefix of the source" % describe(c), c))
            continue
        live = True
        for s in c["steps"]:
            o = s["R"]
            if o is None or not live:
                break
            if s["word"] != "I" and int(s["word"]) & EPOLLIN and o["sched"] == "ok:nil" and o["calls"] == "-":
                first = next((x for x in s["r_ans"].split(",") if x and x != "i"), "a") if s["r_ans"] != "-" else "(not asked)"
                fails.append(("readable-bytes-dropped-at-error", "%s: at the epoll word %s the pending read was ended with nil (end of stream) WITHOUT "
                              "reading the descriptor, although the word says it is readable%s -- bytes the peer wrote are never delivered"
                              % (describe(c), word_name(int(s["word"])), "" if first == "(not asked)" else " (the kernel's answer would have been %s)" % first), c))
                break
            if o["done"]:
                live = False
        live = True
        for s in c["steps"]:
            o = s["W"]
            if o is None or not live:
                break
            if s["word"] != "I" and int(s["word"]) & EPOLLOUT and o["sched"] in ('err:"stream_err"', 'err:"stream_hup"') and o["calls"] == "-":
                fails.append(("writable-not-tried-at-error", "%s: at the epoll word %s the pending write was failed (%s) without trying the descriptor, "
                              "although the word says it is writable" % (describe(c), word_name(int(s["word"])), o["sched"]), c))
                break
            if o["done"]:
                live = False
    return fails


def run_drive(exe, seed, n, lines=None):
    if lines is None:
        rc, out, err = run_cmd([exe, "--worddrive", str(seed), str(n)], timeout=300, env=ENV)
    else:
        rc, out, err = run_cmd([exe, "--wordseq"], input=("\n".join(lines) + "\n").encode(), timeout=300, env=ENV)
    text = out.decode(errors="replace")
    return rc == 0 and re.search(r"^DONE \d+", text, re.M) is not None, text, err.decode(errors="replace")[-600:]


def run_words(exe, seed, n, drv_model, corpus_lines=()):
    """-> (cases, [(sig, desc, replay)], diffs, stats)"""
    fails, diffs = [], []
    stats = {"worddrive_cases": 0, "steps": 0, "words": {}, "reader_outcomes": {}, "writer_outcomes": {}, "model_lines": 0}
    batches = ([("corpus", list(corpus_lines))] if corpus_lines else []) + [("generated", None)]
    for name, lines in batches:
        ok, text, err = run_drive(exe, seed, n, lines)
        if not ok:
            fails.append(("worddrive:harness-failed", "c16io --%s did not finish: %s %s" % ("wordseq" if lines else "worddrive", text[-300:], err), None))
            continue
        cases = parse(text)
        stats["worddrive_cases"] += len(cases)
        for c in cases:
            for s in c["steps"]:
                stats["steps"] += 1
                if s["word"] != "I":
                    k = word_name(int(s["word"]) & 0x1d)
                    stats["words"][k] = stats["words"].get(k, 0) + 1
                for kind, key in (("R", "reader_outcomes"), ("W", "writer_outcomes")):
                    o = s[kind]
                    if o and o["done"] and o["sched"] != "-":
                        kk = ("INIT" if s["word"] == "I" else word_name(int(s["word"]) & 0x1d)) + " -> " + re.sub(r'"', "", o["sched"])
                        stats[key][kk] = stats[key].get(kk, 0) + 1
        for sig, desc, c in oracle(cases):
            fails.append((sig, desc, {"kind": "wordseq", "cases": [case_line(c)], "failure": desc}))
        if drv_model:
            lines_m, idx = [], []
            for i, c in enumerate(cases):
                rl, wl = model_lines(c)
                idx.append((len(lines_m) if rl else None, (len(lines_m) + (1 if rl else 0)) if wl else None))
                lines_m += [x for x in (rl, wl) if x]
            try:
                outs = drv_model(lines_m)
                stats["model_lines"] += len(lines_m)
                for c, (ri, wi) in zip(cases, idx):
                    d = compare(c, outs[ri] if ri is not None else None, outs[wi] if wi is not None else None)
                    if d:
                        diffs.append({"case": case_line(c)[:400], "why": d[0], "what": describe(c)[:400]})
            except Exception as e:   # noqa: BLE001
                diffs.append({"why": "model driver failed on the dispatch cases: %s: %s" % (type(e).__name__, e)})
    top = lambda d: dict(sorted(d.items(), key=lambda kv: -kv[1])[:14])
    stats["reader_outcomes"], stats["writer_outcomes"] = top(stats["reader_outcomes"]), top(stats["writer_outcomes"])
    return stats["worddrive_cases"], fails, diffs, stats


def run_hangup(exe, seed):
    """real sockets: the peer answers and hangs up -> (cases, [(sig, desc)], stats)"""
    d = tempfile.mkdtemp(prefix="c16h-", dir="/var/tmp")
    fails, stats = [], {"hangup_cases": 0, "with_reset": 0, "orderly": 0, "bytes": 0, "outcomes": {}}
    try:
        rc, out, err = run_cmd([exe, os.path.join(VERIF, "harness/C16/hangup.janet"), d, str(seed)], timeout=300,
                               env=dict(ENV, C16_BACKSTOP_MS="60000"), cwd=d)
        text = out.decode(errors="replace")
        for line in text.splitlines():
            if not line.startswith("hangup "):
                continue
            t = line.split()
            kv = dict(x.split("=", 1) for x in t if "=" in x)
            stats["hangup_cases"] += 1
            stats["with_reset" if kv.get("unread") == "1" else "orderly"] += 1
            stats["bytes"] += int(kv.get("n", "0"))
            oc = "%s %s unread=%s -> %s" % (t[1], t[2], kv.get("unread"), kv.get("outcome", "?").split(":")[0])
            stats["outcomes"][oc] = stats["outcomes"].get(oc, 0) + 1
            what = "%s socket, reader suspended in %s, then the peer writes %s bytes and closes %s" % (
                {"unix": "unix stream", "tcp": "TCP loopback"}.get(t[1], t[1]),
                {"read": "(ev/read s 4096 buf) in a loop", "chunk": "(ev/chunk s n buf)", "chunk+": "(ev/chunk s (+ n %s) buf)" % kv.get("extra"),
                 "all": "(ev/read s :all buf)"}.get(t[2], t[2]), kv.get("n"),
                "while it has unread input (connection reset)" if kv.get("unread") == "1" else "(orderly)")
            if kv.get("susp") != "true" or kv.get("wrote") != kv.get("n"):
                fails.append(("hangup:setup", "%s: the scenario could not be set up (%s)" % (what, line)))
            elif kv.get("outcome") == "pending":
                fails.append(("peer-hangup-read-never-ends", "%s: the read is still pending after the peer hung up (%s)" % (what, line)))
            elif kv.get("got") != kv.get("n") or kv.get("match") != "true":
                fails.append(("peer-hangup-bytes-lost", "%s: the reader's buffer holds %s of the %s bytes the peer wrote before it closed (content equal: %s) "
                              "and the read reported %s -- bytes written before the hang-up were not delivered"
                              % (what, kv.get("got"), kv.get("n"), kv.get("match"), kv.get("outcome"))))
        if rc != 0 or "DONE" not in text:
            fails.append(("hangup:script", "hangup.janet did not finish: rc=%s %s %s" % (rc, text[-300:], err.decode(errors="replace")[-300:])))
        return stats["hangup_cases"], fails, stats
    finally:
        shutil.rmtree(d, ignore_errors=True)
