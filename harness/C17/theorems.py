"""Theorems of Props/C17.lean audited on every run (fully qualified names)."""
P = "JanetModel.Props.C17."
THEOREMS = [P + n for n in (
    "halfrange_spec", "argindex_spec", "slice_spec",
    "buffer_push_self_alias_safe", "buffer_blit_self_alias_safe",
    "join_split", "replaceAll_self", "replaceAll_via_find", "find_least", "take_drop", "partition_concat", "trim_edges",
    "reverse_involutive", "prefix_checkset", "insert_remove",
    "format_laws", "range_spec", "range_ceilDiv_spec", "kmp_eq_naive", "kmp_table_spec", "sort_perm_sorted", "sort_perm_any_comparator", "partition_scan_left", "partition_step",
    # mirrors of the C code (session 3)
    "mirror_trim_edges", "mirror_trim", "mirror_reverse_case_bytes", "mirror_prefix_suffix", "mirror_string_slice",
    "mirror_repeat", "mirror_checkset", "mirror_find", "mirror_split", "mirror_join",
    "mirror_array_insert", "mirror_array_remove", "mirror_array_slice", "mirror_bitops", "mirror_buffer_fill_popn",
    "mirror_buffer_blit", "boot_each_family", "boot_map2", "boot_find_index_family", "boot_take_drop", "boot_extreme",
    "mirror_tuple_join", "mirror_array_concat", "mirror_buffer_push", "mirror_buffer_push_at", "boot_more", "mirror_replace", "boot_partition_distinct", "mirror_map3_fill_frombytes",
    # session 4
    "boot_map_template", "boot_interleave", "boot_interpose", "boot_frequencies_group_by", "boot_sort_wrappers",
    "mirror_push_word", "mirror_push_uint", "mirror_new_filled_push_pop", "boot_flatten_reverse_merge", "boot_map_any_arity", "mirror_scanformat", "format_error_where_scan_raises",
    # session 4c
    "format_item_exact_or_error", "format_item_strict_test_appends_terminator",
    # session 4d
    "boot_some_all",
)]
