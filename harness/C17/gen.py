"""C17 case generators.  Every random choice comes from the SplitMix64 passed in (ctx.rng forks)."""
from .c17lib import *

ALPHA_SMALL = [0x61, 0x62]
ALPHA = [0x61, 0x62, 0x61, 0x62, 0x00, 0xff, 0x20, 0x41, 0x7a, 0x0a, 0x80, 0x5a, 0x09]
BOUNDARY = [0, 1, 2, 3, 4, 5, 7, 8, 9, 15, 16, 17, 31, 32, 33, 63, 64, 65, 127, 128, 129]
BADINTS = [('i', 2**31), ('i', -2**31 - 1), ('d', 1.5), ('d', float('nan')), ('d', float('inf')), ('i', 2**40)]


class Gen:
    def __init__(self, rng):
        self.r = rng

    # ---------------------------------------------------------------- atoms
    def blen(self):
        r = self.r
        k = r.below(20)
        if k < 12: return r.below(9)
        if k < 17: return r.below(20)
        return r.choice(BOUNDARY) + (r.below(3) - 1 if r.chance(1, 2) else 0) if r.chance(3, 4) else r.below(300)

    def raw(self, n=None, small=False):
        r = self.r
        n = self.blen() if n is None else n
        n = max(0, n)
        al = ALPHA_SMALL if small or r.chance(1, 2) else ALPHA
        return bytes(r.choice(al) for _ in range(n))

    def bkind(self):
        return self.r.choice(['s', 's', 's', 'b', 'b', 'y', 'k'])

    def bytesv(self, n=None, small=False, kind=None):
        return (kind or self.bkind(), self.raw(n, small))

    def pattern(self, text):
        """patterns that actually occur: substrings of the text, periodic patterns, or random short ones"""
        r = self.r
        k = r.below(10)
        if k < 4 and len(text) > 0:
            i = r.below(len(text))
            j = i + 1 + r.below(min(4, len(text) - i))
            return text[i:j]
        if k < 6:
            unit = self.raw(1 + r.below(2), small=True)
            return (unit * 4)[:1 + r.below(5)]
        if k < 7:
            return b''
        return self.raw(1 + r.below(3), small=r.chance(2, 3))

    def index(self, n):
        """an index argument around the interesting values for a sequence of length n"""
        r = self.r
        k = r.below(16)
        if k < 5: return r.range(0, n)
        if k < 9: return r.range(-n - 1, -1)
        if k < 11: return r.choice([n + 1, -n - 2, n, -n - 1, -1, 0])
        if k < 12: return r.choice([INT32_MAX, INT32_MIN, INT32_MAX - 1, INT32_MIN + 1])
        if k < 14: return r.range(-n - 4, n + 4)
        return r.range(-3, 3)

    def optindex(self, n):
        return NIL if self.r.chance(1, 6) else I(self.index(n))

    def ints(self, n=None, lo=-9, hi=9):
        r = self.r
        n = r.choice([0, 1, 2, 3, 4, 5, 6, 7, 8, 9, 12, 16, 17, 33]) if n is None else n
        k = r.below(5)
        if k == 0: return [I(r.range(0, 3)) for _ in range(n)]          # many duplicates
        if k == 1: return [I(i) for i in range(n)]                       # sorted
        if k == 2: return [I(n - i) for i in range(n)]                   # reversed
        return [I(r.range(lo, hi)) for _ in range(n)]

    def scalar(self):
        r = self.r
        k = r.below(8)
        if k < 3: return I(r.range(-3, 3))
        if k < 5: return S(self.raw(r.below(3), small=True))
        if k < 6: return ('k', self.raw(1 + r.below(2), small=True))
        if k < 7: return TRUE if r.chance(1, 2) else FALSE
        return T([I(r.range(0, 2)) for _ in range(r.below(3))])

    def seqv(self, elems=None, kind=None):
        r = self.r
        if elems is None:
            elems = [self.scalar() for _ in range(r.choice([0, 1, 2, 3, 4, 5, 8]))]
        return (kind or r.choice(['(', '[']), list(elems))

    def wrongtype(self, want):
        """a value that is NOT acceptable where `want` is expected"""
        r = self.r
        pool = {
            'bytes': [I(3), NIL, T([I(1)]), A([]), TRUE, ('{', [])],
            'buffer': [S(b'ab'), ('k', b'a'), I(0), NIL, A([I(1)]), T([])],
            'array': [T([I(1), I(2)]), S(b'ab'), B(b'ab'), NIL, I(1)],
            'indexed': [S(b'ab'), B(b'a'), I(1), NIL, ('{', [])],
            'int': BADINTS + [S(b'1'), ('k', b'a'), T([]), TRUE],
        }[want]
        return r.choice(pool)

    # ---------------------------------------------------------------- string / buffer cases
    def kmp_stress(self):
        """a longer pattern over {a,b} and a text made of its prefixes / near misses: exercises the failure table"""
        r = self.r
        n = r.range(3, 10)
        k = r.below(4)
        if k == 0:
            pat = bytes(r.choice(ALPHA_SMALL) for _ in range(n))
        elif k == 1:      # a^i b a^j ...
            pat = b''.join(bytes([r.choice(ALPHA_SMALL)]) * r.range(1, 3) for _ in range(r.range(2, 5)))[:10]
        elif k == 2:      # bordered: u v u
            u = bytes(r.choice(ALPHA_SMALL) for _ in range(r.range(1, 3)))
            pat = (u + bytes(r.choice(ALPHA_SMALL) for _ in range(r.below(3))) + u + u[:r.below(len(u) + 1)])[:10]
        else:             # periodic with a defect
            u = bytes(r.choice(ALPHA_SMALL) for _ in range(r.range(1, 3)))
            pat = bytearray((u * 6)[:n])
            pat[r.below(len(pat))] ^= 3
            pat = bytes(pat)
        parts = []
        for _ in range(r.range(1, 7)):
            j = r.below(6)
            if j < 3: parts.append(pat[:r.range(1, len(pat))])
            elif j < 4: parts.append(pat)
            elif j < 5: parts.append(pat[r.below(len(pat)):])
            else: parts.append(bytes(r.choice(ALPHA_SMALL) for _ in range(r.below(3))))
        return pat, b''.join(parts)

    def case_search(self):
        r = self.r
        if r.chance(1, 2):
            pat, text = self.kmp_stress()
        else:
            text = self.raw(small=r.chance(2, 3))
            pat = self.pattern(text)
        f = r.choice(['string/find', 'string/find-all', 'string/replace', 'string/replace-all', 'string/split',
                      'string/find-all', 'string/replace-all', 'string/split'])
        a = [(self.bkind(), pat)]
        if f.startswith('string/replace'):
            k = r.below(12)
            if k < 9:
                a.append(self.bytesv(r.below(4)))
            elif k < 11:
                a.append(F(r.choice(['upper', 'const', 'dup'])))
            else:
                a.append(r.choice([I(5), NIL, T([])]))
        a.append((self.bkind(), text))
        if r.chance(1, 2):
            st = r.choice([0, 1, 2, len(text), len(text) + 1, max(0, len(text) - 1), r.below(len(text) + 2), -1, INT32_MAX])
            a.append(I(st))
            if f == 'string/split' and r.chance(2, 3):
                a.append(I(r.choice([0, 1, 2, 3, -1, -2, 5, INT32_MAX, r.range(-2, 6)])))
        return (f, a)

    def case_join(self):
        r = self.r
        parts = [self.bytesv(r.below(4)) for _ in range(r.below(6))]
        if r.chance(1, 10): parts.append(self.wrongtype('bytes'))
        a = [(r.choice(['(', '[']), parts)]
        if r.chance(2, 3): a.append(self.bytesv(r.below(3)))
        return ('string/join', a)

    def case_splitjoin(self):
        # handled as split (the law join(split) = id is checked by the oracle stage)
        return self.case_search()

    def case_slice(self):
        r = self.r
        f = r.choice(['string/slice', 'buffer/slice', 'symbol/slice', 'keyword/slice', 'array/slice', 'tuple/slice', 'slice',
                      'string/slice', 'array/slice'])
        if f in ('array/slice', 'tuple/slice') or (f == 'slice' and r.chance(1, 2)):
            x = self.seqv()
            n = len(x[1])
        else:
            x = self.bytesv(r.choice([0, 1, 2, 3, 5, 8]))
            n = len(x[1])
        a = [x]
        k = r.below(4)
        if k >= 1: a.append(self.optindex(n))
        if k >= 2: a.append(self.optindex(n))
        return (f, a)

    def case_trim(self):
        r = self.r
        f = r.choice(['string/trim', 'string/triml', 'string/trimr'])
        ws = [0x20, 0x09, 0x0a, 0x0d, 0x0b, 0x0c]
        core = self.raw(r.below(5))
        if r.chance(1, 2):
            al = ws + [0x61, 0x00]
            s = bytes(r.choice(al) for _ in range(r.below(5))) + core + bytes(r.choice(al) for _ in range(r.below(5)))
            a = [(self.bkind(), s)]
            if r.chance(1, 3): a.append((self.bkind(), bytes(r.choice(al) for _ in range(r.below(4)))))
        else:
            st = self.raw(r.below(4))
            al = list(st) + [0x61, 0x62, 0x00, 0xff]
            s = bytes(r.choice(al) for _ in range(r.below(6))) + core + bytes(r.choice(al) for _ in range(r.below(6)))
            a = [(self.bkind(), s), (self.bkind(), st)]
        return (f, a)

    def case_small(self):
        r = self.r
        f = r.choice(['string/repeat', 'string/reverse', 'string/ascii-upper', 'string/ascii-lower', 'string/has-prefix?',
                      'string/has-suffix?', 'string/check-set', 'string/bytes', 'string/from-bytes', 'buffer/from-bytes'])
        if f == 'string/repeat':
            s = self.bytesv(r.below(5))
            n = r.choice([0, 1, 2, 3, 7, -1, 16, 100, INT32_MAX, r.below(40)])
            if n * len(s[1]) > 100000 and n * len(s[1]) <= INT32_MAX: n = 3
            return (f, [s, I(n)])
        if f in ('string/reverse', 'string/bytes'):
            return (f, [self.bytesv()])
        if f in ('string/ascii-upper', 'string/ascii-lower'):
            return (f, [(self.bkind(), bytes(r.choice([0x40, 0x41, 0x5a, 0x5b, 0x60, 0x61, 0x7a, 0x7b, 0x00, 0xe1, 0xc1, 0x6d, 0x4d]) for _ in range(r.below(10))))])
        if f in ('string/has-prefix?', 'string/has-suffix?'):
            s = self.raw(small=True)
            k = r.below(4)
            if k == 0: p = s[:r.below(len(s) + 1)]
            elif k == 1: p = s[len(s) - r.below(len(s) + 1):]
            elif k == 2: p = s + self.raw(1 + r.below(2), small=True)
            else: p = self.raw(r.below(4), small=True)
            return (f, [(self.bkind(), p), (self.bkind(), s)])
        if f == 'string/check-set':
            return (f, [self.bytesv(r.below(5)), self.bytesv(r.below(6))])
        xs = [I(r.choice([0, 255, 256, -1, 97, 511, -256, r.range(-600, 600), INT32_MAX, INT32_MIN])) for _ in range(r.below(6))]
        if r.chance(1, 8): xs.append(self.wrongtype('int'))
        return (f, xs)

    def pushitems(self, allow_self=True):
        r = self.r
        out = []
        for _ in range(r.below(5)):
            k = r.below(10)
            if k < 3: out.append(I(r.choice([0, 97, 255, 256, -1, 353, r.range(-300, 300)])))
            elif k < 6: out.append(self.bytesv())
            elif k < 9 and allow_self: out.append(('r', 0))
            else: out.append(self.bytesv(r.choice(BOUNDARY)))
        return out

    def bufv(self):
        r = self.r
        return B(self.raw(r.choice(BOUNDARY) if r.chance(1, 3) else None))

    def case_push(self):
        r = self.r
        f = r.choice(['buffer/push', 'buffer/push', 'buffer/push-string', 'buffer/push-byte', 'buffer/push-at', 'buffer/push-at'])
        b = self.bufv()
        items = self.pushitems()
        if f == 'buffer/push-string':
            items = [x for x in items if x[0] != 'i']
        if f == 'buffer/push-byte':
            items = [x if x[0] == 'i' else I(r.range(-300, 300)) for x in items]
        if r.chance(1, 12):
            items.insert(r.below(len(items) + 1), r.choice([NIL, T([I(1)]), ('d', 1.5), ('i', 2**31), TRUE, ('{', [])]))
        a = [b]
        if f == 'buffer/push-at':
            n = len(b[1])
            a.append(I(r.choice([0, n, max(0, n - 1), r.range(0, n), n + 1, -1, r.range(0, n), r.range(0, n)])))
        return (f, a + items)

    def case_blit(self):
        r = self.r
        d = self.bufv()
        selfsrc = r.chance(1, 2)
        src = ('r', 0) if selfsrc else self.bytesv()
        nd = len(d[1])
        ns = nd if selfsrc else len(src[1])
        a = [d, src]
        k = r.below(5)
        if k >= 1: a.append(self.optindex(nd))
        if k >= 2: a.append(self.optindex(ns))
        if k >= 3: a.append(self.optindex(ns))
        return ('buffer/blit', a)

    def case_bufmisc(self):
        r = self.r
        f = r.choice(['buffer/push-uint64', 'buffer/push-float32', 'buffer/push-float64', 'buffer/popn', 'buffer/clear', 'buffer/fill', 'buffer/new-filled', 'buffer/push-word', 'buffer/push-uint16',
                      'buffer/push-uint32', 'buffer/bit', 'buffer/bit-set', 'buffer/bit-clear', 'buffer/bit-toggle',
                      'buffer/bit', 'buffer/bit-set', 'buffer/bit-clear', 'buffer/bit-toggle'])
        b = self.bufv()
        n = len(b[1])
        if f == 'buffer/popn':
            return (f, [b, I(r.choice([0, 1, n, n + 1, n - 1, -1, INT32_MAX, r.below(n + 2)]))])
        if f == 'buffer/clear':
            return (f, [b])
        if f == 'buffer/fill':
            return (f, [b] + ([I(r.choice([0, 97, 255, 256, -1, 1000]))] if r.chance(2, 3) else []))
        if f == 'buffer/new-filled':
            return (f, [I(r.choice(BOUNDARY + [-1, -5, 300])), I(r.choice([0, 97, 255, 256, -1]))][:1 + r.below(2)])
        if f == 'buffer/push-word':
            ws = [I(r.choice([0, 1, 255, 256, 65535, 65536, 2**31 - 1, 2**31, 2**32 - 1, 2**32, -1, 0x01020304, 0xfffefdfc])) for _ in range(r.below(4))]
            if r.chance(1, 8): ws.append(r.choice([('d', 1.5), NIL, S(b'a'), ('d', float('nan')), ('d', -0.5)]))
            return (f, [b] + ws)
        if f in ('buffer/push-uint64', 'buffer/push-float32', 'buffer/push-float64'):
            order = ('k', r.choice([b'le', b'be', b'native', b'le', b'be', b'xx']))
            if f == 'buffer/push-uint64':
                x = I(r.choice([0, 1, 255, 256, 2**32, 2**32 + 1, 2**53, 2**53 - 1, -1, 0x0102030405060708 % 2**53, r.below(2**53)]))
            else:
                x = r.choice([I(0), I(1), I(-1), I(2), I(255), I(-300), I(2**24), I(2**24 + 1), I(r.range(-100000, 100000)),
                              ('d', 0.5), ('d', -0.25), ('d', 1.5), ('d', 0.1), ('d', 3.141592653589793), ('d', 1e10), ('d', -1e-3)])
            if r.chance(1, 12): x = r.choice([NIL, S(b'a'), T([])])
            return (f, [b, order, x])
        if f in ('buffer/push-uint16', 'buffer/push-uint32'):
            lim = 65536 if f.endswith('16') else 2**32
            x = r.choice([0, 1, 255, 256, 0x0102, 0x01020304 % lim, lim - 1, lim, -1, r.below(lim)])
            order = ('k', r.choice([b'le', b'be', b'native', b'le', b'be', b'xx']))
            return (f, [b, order, I(x)])
        idx = r.choice([0, 1, 7, 8, 8 * n - 1, 8 * n, 8 * n + 1, -1, r.below(8 * n + 2), r.below(8 * n + 2), 2**31, 2**33, -8])
        v = I(idx)
        if r.chance(1, 12): v = r.choice([('d', 1.5), NIL, S(b'a'), ('d', float('nan')), ('d', 1e300), ('d', -1e300)])
        return (f, [b, v])

    # ---------------------------------------------------------------- arrays
    def case_array(self):
        r = self.r
        f = r.choice(['array/insert', 'array/remove', 'array/concat', 'array/fill', 'array/push', 'array/pop', 'array/peek',
                      'array/new-filled', 'array/join', 'tuple/join', 'array/insert', 'array/remove', 'array/concat'])
        a = self.seqv(kind='[', elems=[self.scalar() for _ in range(r.choice(BOUNDARY[:12]))] if r.chance(1, 3) else None)
        n = len(a[1])
        if f == 'array/insert':
            at = r.choice([0, n, -1, -n - 1, -n - 2, n + 1, r.range(-n - 1, n), r.range(-n - 1, n), INT32_MAX, INT32_MIN])
            return (f, [a, I(at)] + [self.scalar() for _ in range(r.below(4))])
        if f == 'array/remove':
            at = r.choice([0, n, -1, -n, -n - 1, n + 1, n - 1, r.range(-n, n), r.range(-n, n), INT32_MAX, INT32_MIN])
            args = [a, I(at)]
            if r.chance(2, 3):
                args.append(I(r.choice([0, 1, 2, n, n + 1, -1, r.below(n + 2), INT32_MAX, INT32_MAX - 1, 2**30, INT32_MAX - n])))
            return (f, args)
        if f in ('array/concat', 'array/join'):
            parts = []
            for _ in range(r.below(4)):
                k = r.below(6)
                if k < 2: parts.append(('r', 0))
                elif k < 4: parts.append(self.seqv())
                elif k < 5 and f == 'array/concat': parts.append(self.scalar())
                elif k < 5: parts.append(self.seqv())
                else: parts.append(self.seqv(elems=[I(i) for i in range(r.choice(BOUNDARY[:14]))]))
            if f == 'array/join' and r.chance(1, 8): parts.append(r.choice([I(1), NIL, S(b'a')]))
            return (f, [a] + parts)
        if f == 'tuple/join':
            parts = [self.seqv() for _ in range(r.below(4))]
            if r.chance(1, 8): parts.append(r.choice([I(1), NIL, S(b'a')]))
            return (f, parts)
        if f == 'array/fill':
            return (f, [a] + ([self.scalar()] if r.chance(2, 3) else []))
        if f == 'array/push':
            return (f, [a] + [self.scalar() for _ in range(r.below(4))])
        if f in ('array/pop', 'array/peek'):
            return (f, [a])
        return (f, [I(r.choice([0, 1, 2, 5, -1, 17])), self.scalar()][:1 + r.below(2)])

    # ---------------------------------------------------------------- boot.janet sequence functions
    def case_sort(self):
        r = self.r
        f = r.choice(['sort', 'sorted', 'sort', 'sorted', 'sort-by', 'sorted-by'])
        xs = self.ints()
        if f in ('sort', 'sort-by'):
            seq = A(xs)
        else:
            seq = (r.choice(['(', '[']), xs)
        if f in ('sort', 'sorted'):
            k = r.below(10)
            if k < 2: return (f, [seq])
            if k < 7: return (f, [seq, F(r.choice(['lt', 'gt', 'mod4lt', 'absgt', 'div3lt', 'false']))])
            return (f, [seq, F(r.choice(['le', 'ge', 'true', 'ne', 'rnd', 'err']))])
        return (f, [F(r.choice(['mod4', 'abs', 'neg', 'id', 'sq'])), seq])

    def case_seq(self):
        r = self.r
        f = r.choice(['take', 'drop', 'take-while', 'drop-while', 'take-until', 'drop-until', 'filter', 'count', 'find-index',
                      'map', 'reduce', 'partition', 'interleave', 'interpose', 'range', 'distinct', 'frequencies', 'merge',
                      'zipcoll', 'min', 'max', 'min-of', 'max-of', 'sum', 'product', 'reverse', 'reverse!', 'flatten',
                      'take', 'drop', 'partition', 'range', 'find', 'index-of', 'reduce2', 'map3',
                      'keep', 'mapcat', 'count2', 'group-by', 'interpose', 'interleave', 'frequencies', 'mapvar', 'mapvar', 'merge-into', 'someall', 'someall'])
        kind = r.choice(['(', '['])
        if f == 'find':
            return (f, [F(r.choice(['even', 'odd', 'pos', 'neg?', 'lt3', 'true', 'false'])), (kind, self.ints())])
        if f in ('keep', 'mapcat'):
            one = {'keep': ['sqeven', 'posid', 'id', 'inc'], 'mapcat': ['pairx', 'rep3', 'none']}[f]
            two = {'keep': ['ltsum', 'add', 'snd'], 'mapcat': ['tup', 'tupsum', 'tup3']}[f]
            if r.chance(1, 2):
                return (f, [F(r.choice(one)), (kind, self.ints(r.below(8), -3, 9))])
            return (f, [F(r.choice(two)), (kind, self.ints(r.below(7), -3, 9)), (r.choice(['(', '[']), self.ints(r.below(7), -3, 9))])
        if f in ('mapvar', 'someall'):
            # map-n 2 / map-n 3 / the general branch of map-template (>= 4 extra sequences), every aggregator
            g = r.choice(['map', 'mapcat', 'keep', 'count', 'some', 'all']) if f == 'mapvar' else r.choice(['some', 'all'])
            vv = ['vfz', 'vfz', 'vsumpos', 'vasc', 'vsum', 'vtrue']
            name = r.choice({'map': ['vsum', 'vlast'], 'mapcat': ['vtup', 'vrev'], 'keep': ['vsumpos', 'vsum'], 'count': ['vasc', 'vtrue'],
                             'some': vv, 'all': vv}[g])
            nseq = r.choice([1, 2, 3, 3, 4, 4, 5, 5, 6, 7])
            base = r.below(6)
            seqs = [(r.choice(['(', '[']), self.ints(max(0, base + r.choice([0, 0, 0, 1, 2, -1])), -3, 9)) for _ in range(nseq)]
            return (g, [F(name)] + seqs)
        if f == 'count2':
            return ('count', [F(r.choice(['lt', 'gt', 'le', 'ge', 'ne', 'mod4lt', 'true', 'false'])), (kind, self.ints(r.below(7), -3, 9)),
                              (r.choice(['(', '[']), self.ints(r.below(7), -3, 9))])
        if f == 'group-by':
            return (f, [F(r.choice(['mod4', 'abs', 'neg', 'id', 'sq'])), (kind, self.ints(r.below(10), -4, 6))])
        if f == 'index-of':
            xs = self.ints(r.below(8), -3, 3)
            return (f, [I(r.range(-3, 3)), (kind, xs)])
        if f == 'reduce2':
            return (f, [F(r.choice(['add', 'mul', 'sub', 'max2', 'min2', 'snd'])), (kind, self.ints(r.below(8), -3, 3))])
        if f == 'map3':
            return ('map', [F(r.choice(['add3', 'pick3'])), (kind, self.ints(r.below(6), -3, 9)), (r.choice(['(', '[']), self.ints(r.below(6), -3, 9)),
                            (r.choice(['(', '[']), self.ints(r.below(6), -3, 9))])
        if f in ('take', 'drop'):
            x = self.seqv() if r.chance(1, 2) else self.bytesv(r.below(7))
            n = len(x[1])
            return (f, [I(r.choice([0, 1, n, n + 1, -1, -n, -n - 1, r.range(-n - 2, n + 2)])), x])
        if f in ('take-while', 'drop-while', 'take-until', 'drop-until', 'filter', 'count', 'find-index'):
            return (f, [F(r.choice(['even', 'odd', 'pos', 'neg?', 'lt3', 'true', 'false'])), (kind, self.ints())])
        if f == 'map':
            if r.chance(1, 2):
                return (f, [F(r.choice(['inc', 'dbl', 'neg', 'sq', 'id', 'mod3'])), (kind, self.ints())])
            return (f, [F(r.choice(['add', 'mul', 'sub', 'max2', 'min2', 'snd'])), (kind, self.ints()), (r.choice(['(', '[']), self.ints())])
        if f == 'reduce':
            return (f, [F(r.choice(['add', 'mul', 'sub', 'max2', 'min2', 'snd'])), I(r.range(-3, 3)), (kind, self.ints(r.below(8), -3, 3))])
        if f == 'partition':
            x = self.seqv() if r.chance(1, 2) else self.bytesv(r.below(10))
            return (f, [I(r.choice([1, 2, 3, 4, len(x[1]), len(x[1]) + 1, max(1, len(x[1]) - 1)])), x])
        if f == 'interleave':
            return (f, [self.seqv(elems=[self.scalar() for _ in range(r.below(5))]) for _ in range(r.choice([1, 2, 2, 3, 4, 5, 6, 7]))])
        if f == 'interpose':
            return (f, [self.scalar(), self.seqv()])
        if f == 'range' and r.chance(1, 3):
            # dyadic fractions: exact in double arithmetic, compared value-for-value with the model and python
            q = lambda lo, hi: (lambda v: I(v // 8) if v % 8 == 0 else ('d', v / 8.0))(r.range(lo * 8, hi * 8))
            k = r.below(3)
            if k == 0: return (f, [q(-2, 6)])
            if k == 1: return (f, [q(-4, 4), q(-4, 8)])
            return (f, [q(-4, 4), q(-4, 6), r.choice([q(-2, 2), ('d', 0.125), ('d', -0.125), ('d', 0.5), ('d', -0.75), I(0), ('d', 2.5)])])
        if f == 'range' and r.chance(1, 2):
            fl = lambda: r.choice([I(r.range(-5, 9)), ('d', r.choice([0.1, 0.01, 0.3, 0.7, 1.5, -0.1, -1.5, 0.12000000000000001, 0.36000000000000004,
                                                                     2.5, 1e-3, float('inf'), float('-inf'), float('nan')])),
                                   ('d', r.range(1, 60) * r.choice([0.1, 0.01, 0.3, 0.7]))])
            return (f, [fl() for _ in range(1 + r.below(3))])
        if f == 'range':
            k = r.below(3)
            if k == 0: return (f, [I(r.range(-3, 12))])
            if k == 1: return (f, [I(r.range(-5, 5)), I(r.range(-5, 12))])
            return (f, [I(r.range(-8, 8)), I(r.range(-8, 8)), I(r.choice([1, 2, 3, -1, -2, -3, 0, 5, 7]))])
        if f in ('distinct', 'frequencies'):
            return (f, [self.seqv(elems=[self.scalar() for _ in range(r.below(10))])])
        if f in ('merge', 'merge-into'):
            def dct():
                d = {}
                for _ in range(r.below(4)):
                    k = r.choice([I(r.range(0, 3)), ('k', self.raw(1, small=True)), S(self.raw(1, small=True))])
                    d[k] = self.scalar()
                return (r.choice(['{', '#{']), list(d.items()))
            if f == 'merge-into':
                return (f, [('{', dct()[1])] + [dct() for _ in range(r.below(4))])
            return (f, [dct() for _ in range(r.below(4))])
        if f == 'zipcoll':
            ks = [r.choice([I(r.range(0, 4)), ('k', self.raw(1, small=True))]) for _ in range(r.below(6))]
            return (f, [(kind, ks), self.seqv(elems=[self.scalar() for _ in range(r.below(6))])])
        if f in ('min', 'max'):
            return (f, self.ints(1 + r.below(6)))
        if f in ('min-of', 'max-of', 'sum'):
            return (f, [(kind, self.ints())])
        if f == 'product':
            return (f, [(kind, self.ints(r.below(8), -4, 4))])
        if f == 'reverse':
            return (f, [self.seqv() if r.chance(1, 2) else self.bytesv()])
        if f == 'reverse!':
            return (f, [A([self.scalar() for _ in range(r.below(7))]) if r.chance(1, 2) else B(self.raw())])
        # flatten
        def tree(d):
            if d == 0 or r.chance(1, 3): return I(r.range(0, 9))
            return (r.choice(['(', '[']), [tree(d - 1) for _ in range(r.below(4))])
        return (f, [(kind, [tree(3) for _ in range(r.below(5))])])

    def case_format_subset(self):
        """directives of the subset modelled in Lib/Format.lean, with the full flag / width / precision syntax"""
        r = self.r
        parts, vals = [], []
        for _ in range(r.range(1, 4)):
            parts.append(self.raw(r.below(3), small=True))
            d = r.choice([b'd', b'i', b'x', b'X', b'o', b'c', b's', b's', b'd', b'%'])
            if d == b'%':
                parts.append(b'%%')
                continue
            nfl = r.choice([0, 0, 1, 1, 2, 3])
            pool = {b'd': b'-+ 0', b'i': b'-+ 0', b'x': b'-0#', b'X': b'-0#', b'o': b'-0#', b'c': b'-', b's': b'-'}[d]
            flags = bytes(r.choice(pool) for _ in range(nfl))
            if r.chance(1, 40): flags = b'-+ #0-'          # six flags: "repeated flags" error
            width = r.choice([b'', b'', b'1', b'3', b'6', b'12', b'08'])
            prec = b''
            if d != b'c' and r.chance(1, 3): prec = b'.' + r.choice([b'', b'0', b'1', b'3', b'10'])
            if r.chance(1, 40): width = b'123'              # three digits: error
            parts.append(b'%' + flags + width + prec + d)
            if d in b'di': vals.append(I(r.choice([0, 1, -1, 7, 42, -42, 12345, -99999, INT32_MAX, INT32_MIN, r.range(-1000, 1000)])))
            elif d in b'xXo': vals.append(I(r.choice([0, 1, 7, 8, 255, 256, 4095, 65535, INT32_MAX, r.below(100000)])))
            elif d == b'c': vals.append(I(r.choice([65, 97, 48, 122, 33, 353, 126])))
            else:
                n = r.choice([0, 1, 2, 3, 5, 8, 99, 100, 101]) if r.chance(1, 6) else r.below(7)
                al = [0x61, 0x62, 0x41, 0x20, 0x7a, 0xff, 0x80] + ([0x00] if r.chance(1, 8) else [])
                vals.append((self.bkind(), bytes(r.choice(al) for _ in range(n))))
        parts.append(self.raw(r.below(3), small=True))
        k = r.below(14)
        if k == 0 and vals: vals.pop()
        elif k == 1 and vals:
            i = r.below(len(vals))
            vals[i] = S(b'zz') if vals[i][0] == 'i' else I(5)
        elif k == 2: vals.append(I(1))                      # surplus argument: ignored
        fmt = S(b''.join(parts))
        if r.chance(1, 3):
            return ('buffer/format', [self.bufv(), fmt] + vals)
        return ('string/format', [fmt] + vals)

    # ---------------------------------------------------------------- item-length boundary of the formatters (session 4c)
    def double_with_digits(self, ndig):
        """an exactly representable double >= 2^63 whose integer part has `ndig` decimal digits (20 <= ndig <= 308)"""
        r = self.r
        for _ in range(200):
            m = r.choice([1, 1, 3, 5, 625, r.range(1, 1 << 20) | 1, r.range(1 << 52, (1 << 53) - 1) | 1])
            k0 = int((ndig - 1) * 3.3219280948873626) - m.bit_length() + 1
            for k in range(max(0, k0 - 2), k0 + 6):
                n = m << k
                if len(str(n)) == ndig and n >= 1 << 63 and n.bit_length() <= 1023:
                    return float(n)
        return None

    def case_format_boundary(self, target=None):
        """one directive whose complete rendering has a chosen length next to the item limit MAX_ITEM = 256 (254 … 257 bytes:
        the last two that fit, the first two that do not), or the longest rendering its kind can reach.  Width and
        precision have at most two digits (scanformat), so only %f can reach the limit: %<flags><w>.<p>f of a double with
        the right number of integer digits.  Expected: the exact rendering below 256 bytes, an error from 256 on."""
        r = self.r
        T = target if target is not None else r.choice([254, 255, 255, 256, 256, 256, 257, 258, 300, 253])
        kind = r.choice(['f'] * 8 + ['e', 'g', 'd', 'x', 's', 'c'])
        vals = []
        if kind == 'f':
            neg = r.chance(1, 4)
            flags = r.choice([b'', b'', b'+', b' ', b'-', b'0'])
            sign = 1 if (neg or b'+' in flags or b' ' in flags) else 0
            width = r.choice([b'', b'', b'9', b'99'])
            x = None
            while x is None:
                p = r.choice([99, 99, 98, 0, 6, None, r.below(100)])
                frac = 7 if p is None else (0 if p == 0 else 1 + p)
                nd = T - sign - frac
                if 20 <= nd <= 308:
                    x = self.double_with_digits(nd)
            d = b'%' + flags + width + (b'' if p is None else b'.%d' % p) + b'f'
            vals.append(('d', -x if neg else x))
        elif kind in ('e', 'g'):
            d = b'%' + r.choice([b'', b'+', b'-', b'0']) + r.choice([b'', b'99']) + b'.99' + kind.encode()
            vals.append(('d', r.choice([1.0, -1.0]) * (self.double_with_digits(r.range(20, 308)) or 2.0 ** 70)))
        elif kind == 'd':
            d = b'%' + r.choice([b'', b'+', b'-', b'0', b' ']) + b'99' + r.choice([b'', b'.99']) + r.choice([b'd', b'i'])
            vals.append(I(r.choice([0, -1, INT32_MAX, INT32_MIN, r.range(-100000, 100000)])))
        elif kind == 'x':
            d = b'%' + r.choice([b'', b'#', b'-', b'0', b'-#']) + b'99' + r.choice([b'', b'.99']) + r.choice([b'x', b'X', b'o'])
            vals.append(I(r.choice([0, 1, 255, INT32_MAX, r.below(100000)])))
        elif kind == 's':
            d = b'%' + r.choice([b'', b'-']) + r.choice([b'99', b'98', b'']) + r.choice([b'', b'.99', b'.98']) + b's'
            if d == b'%s': d = b'%99s'
            n = r.choice([0, 1, 98, 99, 99, 100, 120, 255, 256]) if b'.' in d else r.choice([0, 1, 98, 99, 99])
            vals.append((self.bkind(), bytes(r.choice([0x61, 0x62, 0x7a, 0x20, 0xff]) for _ in range(n))))
        else:
            d = b'%' + r.choice([b'', b'-']) + b'99c'
            vals.append(I(r.choice([65, 97, 122, 33])))
        k = r.below(6)
        if k == 0:
            fmt = b'ab' + d + b'|%d'
            vals.append(I(r.range(-9, 9)))
        elif k == 1:
            fmt = b'%d:' + d
            vals.insert(0, I(r.range(-9, 9)))
        else:
            fmt = d
        if r.chance(1, 3):
            return ('buffer/format', [B(self.raw(r.below(4), small=True)), S(fmt)] + vals)
        return ('string/format', [S(fmt)] + vals)

    def boundary_cases(self, n):
        """the fixed core of the family (every length 253 … 258 through a bare `%.<p>f`, positive and negative, both entry
        points) followed by `n` random members"""
        out = []
        for T in (253, 254, 255, 256, 257, 258):
            for p, sign in ((99, 1), (99, -1), (50, 1), (0, 1)):
                nd = T - (1 if sign < 0 else 0) - (0 if p == 0 else 1 + p)
                for m in (1, 3):
                    k = 0
                    while len(str(m << k)) < nd:
                        k += 1
                    if len(str(m << k)) != nd or (m << k).bit_length() > 1023:
                        continue
                    x = ('d', sign * float(m << k))
                    out.append(('string/format', [S(b'%%.%df' % p), x]))
                    out.append(('buffer/format', [B(b'x'), S(b'%%.%df' % p), x]))
        out += [self.case_format_boundary() for _ in range(n)]
        return out

    def case_format(self):
        r = self.r
        if r.chance(1, 12):
            return self.case_format_boundary()
        if r.chance(2, 3):
            return self.case_format_subset()
        parts, vals = [], []
        for _ in range(r.below(4)):
            parts.append(self.raw(r.below(3), small=True).replace(b'%', b''))
            flags = r.choice([b'', b'', b'-', b'0', b'+', b' '])
            width = r.choice([b'', b'', b'1', b'5', b'8'])
            d = r.choice([b'd', b'i', b'x', b'X', b'o', b's', b'f', b'e', b'g', b'c', b'%', b'd', b's'])
            prec = b''
            if d in b'feg' and r.chance(1, 2): prec = b'.' + bytes([48 + r.below(6)])
            if d == b's' and r.chance(1, 3): prec = b'.' + bytes([48 + r.below(4)])
            if d == b's' and flags in (b'0', b'+', b' '): flags = b''
            if d == b'c': flags = r.choice([b'', b'-'])
            if d == b'%':
                parts.append(b'%%')
                continue
            parts.append(b'%' + flags + width + prec + d)
            if d in b'di': vals.append(I(r.choice([0, 1, -1, 42, -42, 12345, INT32_MAX, INT32_MIN, r.range(-1000, 1000)])))
            elif d in b'xXo': vals.append(I(r.choice([0, 1, 255, 256, 4095, INT32_MAX, r.below(100000)])))
            elif d == b'c': vals.append(I(r.choice([65, 97, 48, 122, 33])))
            elif d == b's': vals.append((self.bkind(), bytes(r.choice([0x61, 0x62, 0x41, 0x20, 0x7a]) for _ in range(r.below(6)))))
            else: vals.append(r.choice([I(r.range(-50, 50)), ('d', r.choice([0.5, -1.25, 3.14159, 1e10, 1e-5, 123456.789, 0.1]))]))
        parts.append(self.raw(r.below(3), small=True).replace(b'%', b''))
        k = r.below(12)
        if k == 0 and vals: vals.pop()                       # missing argument -> error
        elif k == 1 and vals:
            i = r.below(len(vals))
            if vals[i][0] in ('i', 'd'): vals[i] = S(b'zz')  # string where a number is expected -> error
        fmt = S(b''.join(parts))
        if r.chance(1, 3):
            return ('buffer/format', [self.bufv(), fmt] + vals)
        return ('string/format', [fmt] + vals)

    # ---------------------------------------------------------------- ill-typed / arity mutations of a valid case
    def illtyped(self, case):
        r = self.r
        f, args = case
        args = list(args)
        k = r.below(4)
        if k == 0 and args:
            args.pop()
        elif k == 1:
            args = args + [r.choice([NIL, I(1), S(b'x'), I(0), I(2)])] * (1 + r.below(3))
        elif args:
            i = r.below(len(args))
            a = args[i]
            if a[0] in BYTES:
                args[i] = self.wrongtype('buffer' if (a[0] == 'b' and i == 0 and f.startswith('buffer/')) else 'bytes')
            elif a[0] == 'i':
                args[i] = self.wrongtype('int')
            elif a[0] == '[':
                args[i] = self.wrongtype('array' if f.startswith('array/') and i == 0 else 'indexed')
            elif a[0] == '(':
                args[i] = self.wrongtype('indexed')
            else:
                args[i] = r.choice([NIL, I(1)])
            # references to a replaced argument 0 must not dangle semantically: drop them
            if i == 0:
                args = [x for j, x in enumerate(args) if not (j > 0 and x[0] == 'r')]
        return (f, args)

    STRBUF = ['case_search', 'case_search', 'case_search', 'case_join', 'case_slice', 'case_slice', 'case_trim', 'case_small',
              'case_push', 'case_push', 'case_blit', 'case_blit', 'case_bufmisc', 'case_array', 'case_array']
    SEQ = ['case_sort', 'case_sort', 'case_seq', 'case_seq', 'case_seq', 'case_format']

    def case(self):
        r = self.r
        name = r.choice(self.STRBUF + self.SEQ)
        c = getattr(self, name)()
        if name not in ('case_sort', 'case_seq', 'case_format') and r.chance(1, 9):
            c = self.illtyped(c)
        return c
