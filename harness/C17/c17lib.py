"""C17 harness library: value language, janet emitter, python reference oracle, case generators.

A value is a tuple:  ('n',) ('t',) ('f',)  ('i', int)  ('d', float)
                     ('s'|'b'|'y'|'k', bytes)   string buffer symbol keyword
                     ('(', [v…]) tuple   ('[', [v…]) array   ('{', [(k,v)…]) table   ('#{', [(k,v)…]) struct
                     ('r', k)  the same object as argument k        ('F', name)  named function (prelude.janet)
A case is (fname, [args]).
"""
import functools
import itertools
import math
import collections

NIL = ('n',)
TRUE = ('t',)
FALSE = ('f',)
INT32_MIN, INT32_MAX = -2**31, 2**31 - 1


def I(x): return ('i', x)
def S(b): return ('s', bytes(b))
def B(b): return ('b', bytes(b))
def T(l): return ('(', list(l))
def A(l): return ('[', list(l))
def F(n): return ('F', n)
def boolv(b): return TRUE if b else FALSE


# ------------------------------------------------------------------ tokens (driver protocol / canonical output)
def toks(v):
    t = v[0]
    if t in 'ntf':
        return [t]
    if t == 'i':
        return ['i%d' % v[1]] if abs(v[1]) < 10**15 else ['d%.17g' % v[1]]
    if t == 'd':
        x = v[1]
        if x == math.trunc(x) if not (math.isnan(x) or math.isinf(x)) else False:
            if -1e15 < x < 1e15:
                return ['i%d' % int(x)]
        return ['d%.17g' % x]
    if t in 'sbyk':
        return [t + v[1].hex()]
    if t == '(':
        return ['('] + [x for e in v[1] for x in toks(e)] + [')']
    if t == '[':
        return ['['] + [x for e in v[1] for x in toks(e)] + [']']
    if t in ('{', '#{'):
        ents = sorted((' '.join(toks(k)), ' '.join(toks(val))) for k, val in v[1])
        return [t] + [x for k, val in ents for x in (k, val)] + ['}']
    if t == 'r':
        return ['r%d' % v[1]]
    if t == 'F':
        return ['F' + v[1]]
    raise ValueError(v)


def show(v):
    return ' '.join(toks(v))


def line(case):
    f, args = case
    return ' '.join([f] + [x for a in args for x in toks(a)])


def parse_tokens(ts):
    """inverse of toks(): token list -> list of values"""
    out = []
    i = 0

    def one(i):
        t = ts[i]
        if t in ('n', 't', 'f'):
            return (t,), i + 1
        if t in ('(', '['):
            items = []
            i += 1
            while ts[i] not in (')', ']'):
                v, i = one(i)
                items.append(v)
            return (t, items), i + 1
        if t in ('{', '#{'):
            items = []
            i += 1
            while ts[i] != '}':
                k, i = one(i)
                v, i = one(i)
                items.append((k, v))
            return (t, items), i + 1
        c, body = t[0], t[1:]
        if c == 'i': return ('i', int(body)), i + 1
        if c == 'd': return ('d', float(body)), i + 1
        if c in 'sbyk': return (c, bytes.fromhex(body)), i + 1
        if c == 'r': return ('r', int(body)), i + 1
        if c == 'F': return ('F', body), i + 1
        raise ValueError(t)
    while i < len(ts):
        v, i = one(i)
        out.append(v)
    return out


def parse_line(s):
    ts = s.split()
    return (ts[0], parse_tokens(ts[1:]))


def resolve(args):
    return [args[a[1]] if a[0] == 'r' else a for a in args]


def render(res):
    """res = ('ok', value, args) | ('err', args)  ->  canonical output line (without id)"""
    if res[0] == 'ok':
        return 'ok ' + show(res[1]) + ''.join(' | ' + show(a) for a in resolve(res[2]))
    return 'err' + ''.join(' | ' + show(a) for a in resolve(res[1]))


# ------------------------------------------------------------------ janet source
def jbytes(b):
    return '"' + ''.join('\\x%02x' % c for c in b) + '"'


def jan(v):
    t = v[0]
    if t == 'n': return 'nil'
    if t == 't': return 'true'
    if t == 'f': return 'false'
    if t == 'i': return '%d' % v[1]
    if t == 'd':
        x = v[1]
        if math.isnan(x): return 'math/nan'
        if math.isinf(x): return 'math/inf' if x > 0 else 'math/-inf'
        if abs(x) >= 2.0**63 and x == math.trunc(x):
            # exact, independent of the decimal reader: odd 53-bit integer times a power of two
            n = int(abs(x))
            k = (n & -n).bit_length() - 1
            return '(* %s%d (math/pow 2 %d))' % ('-' if x < 0 else '', n >> k, k)
        return repr(x)
    if t == 's': return jbytes(v[1])
    if t == 'b': return '@' + jbytes(v[1])
    if t == 'y': return '(symbol %s)' % jbytes(v[1])
    if t == 'k': return '(keyword %s)' % jbytes(v[1])
    if t == '(': return '(tuple %s)' % ' '.join(jan(e) for e in v[1])
    if t == '[': return '(array %s)' % ' '.join(jan(e) for e in v[1])
    if t == '{': return '(table %s)' % ' '.join(jan(k) + ' ' + jan(x) for k, x in v[1])
    if t == '#{': return '(struct %s)' % ' '.join(jan(k) + ' ' + jan(x) for k, x in v[1])
    if t == 'r': return 'a%d' % v[1]
    if t == 'F': return 'F-' + v[1]
    raise ValueError(v)


def janet_case(cid, case):
    f, args = case
    defs = ' '.join('(def a%d %s)' % (i, jan(a)) for i, a in enumerate(args))
    names = ' '.join('a%d' % i for i in range(len(args)))
    if f.startswith('@'):
        # arity family: the function is called through a first-class value with too few / too many arguments
        return '(R %d (fn [] %s (def f %s) [(fn [] (f %s)) [%s]]))' % (cid, defs, f[1:], names, names)
    return '(R %d (fn [] %s [(fn [] (%s %s)) [%s]]))' % (cid, defs, f, names, names)


# ------------------------------------------------------------------ documented arity of the C library functions
def documented_arity(tree, files=("src/core/string.c", "src/core/buffer.c", "src/core/array.c", "src/core/tuple.c", "src/core/corelib.c")):
    """{janet name: (min, max or None)} read from the *usage string* of every JANET_CORE_FN in the given files
    ("(string/slice bytes &opt start end)" -> (1, 3); "&" -> unbounded) and the JANET_CORE_REG table that names it.
    This is the documented arity, independent of the janet_arity / janet_fixarity call inside the function."""
    import os
    import re
    out = {}
    for rel in files:
        try:
            src = open(os.path.join(tree, rel)).read()
        except OSError:
            continue
        usage = {}
        for m in re.finditer(r'JANET_CORE_FN\(\s*(\w+)\s*,\s*"((?:[^"\\]|\\.)*)"', src):
            usage[m.group(1)] = m.group(2)
        for m in re.finditer(r'JANET_CORE_REG\(\s*"([^"]+)"\s*,\s*(\w+)\s*\)', src):
            name, cf = m.group(1), m.group(2)
            u = usage.get(cf)
            if not u or not u.startswith('(' + name):
                continue
            body = u.strip()
            body = body[1:-1] if body.endswith(')') else body[1:]
            legacy_opt = 0
            if ' [' in body:                       # legacy notation "(tuple/slice arrtup [,start=0 [,end=(length arrtup)]])"
                body, rest_ = body.split(' [', 1)
                legacy_opt = 1 + rest_.count('[')
            toks = body.split()[1:]
            lo = hi = 0
            mode = 'req'
            for t in toks:
                if t == '&opt':
                    mode = 'opt'
                elif t in ('&', '&keys', '&named'):
                    hi = None
                    break
                else:
                    if mode == 'req':
                        lo += 1
                    hi += 1
            if hi is not None:
                hi += legacy_opt
            # the arity the code enforces in the function itself, where it is a literal janet_arity / janet_fixarity call
            code = None
            mb = re.search(r'JANET_CORE_FN\(\s*%s\s*,' % re.escape(cf), src)
            if mb:
                j = src.find('{', src.find(')', mb.end()))
                k = src.find('\nJANET_CORE_FN', j)
                fb = src[j:k if k > 0 else len(src)]
                fb = fb[:fb.find('\n}\n') + 1] if '\n}\n' in fb else fb
                mm = re.search(r'janet_fixarity\(\s*argc\s*,\s*(\d+)\s*\)', fb)
                if mm:
                    code = (int(mm.group(1)), int(mm.group(1)))
                mm = re.search(r'janet_arity\(\s*argc\s*,\s*(\d+)\s*,\s*(-?\d+)\s*\)', fb)
                if mm:
                    code = (int(mm.group(1)), None if int(mm.group(2)) < 0 else int(mm.group(2)))
            out[name] = (lo, hi, code)
    return out


# ------------------------------------------------------------------ python reference oracle
class Err(Exception):
    pass


class NoOpinion(Exception):
    pass


BYTES = 'sbyk'
MAX_ITEM = 256        # pp.c: one formatted item is at most 255 bytes (+ terminator); documented limit of the reference


def format_single_item_length(case):
    """for (string/format "<one directive, nothing else>" x) with a numeric x: the length of the complete rendering of the
    item according to python, else None"""
    import re as _re
    f, args = case
    if f != 'string/format' or len(args) != 2 or args[0][0] != 's' or args[1][0] not in ('i', 'd'):
        return None
    fmt = args[0][1]
    m = _re.fullmatch(rb'%[-0 +]*\d{0,2}(?:\.\d{1,2})?([dfeg])', fmt)
    if not m or (m.group(1) == b'd' and (args[1][0] != 'i' or b'.' in fmt)):
        return None
    try:
        return len(fmt % (args[1][1],))
    except (TypeError, ValueError, OverflowError):
        return None


def format_unexplained_nul(case, impl_body):
    """a result of string/format / buffer/format may contain a NUL byte only if an argument did (format string, buffer,
    string arguments, %c of a multiple of 256): returns a description if the returned value has one that no argument explains"""
    f, args = case
    if f not in ('string/format', 'buffer/format') or not impl_body.startswith('ok '):
        return None
    tok = impl_body[3:].split(' ', 1)[0]
    if not tok or tok[0] not in 'sb':
        return None
    try:
        res = bytes.fromhex(tok[1:])
    except ValueError:
        return None
    if b'\0' not in res:
        return None
    for a in args:
        if a[0] in BYTES and b'\0' in a[1]:
            return None
        if a[0] in ('i', 'd') and isint(a[1]) and int(a[1]) % 256 == 0 and any(x[0] in BYTES and b'c' in x[1] for x in args):
            return None
    return "result contains a NUL byte at offset %d of %d that no argument contains" % (res.index(b'\0'), len(res))


def isint(x):
    """x (python int or float) is a mathematical integer"""
    if isinstance(x, int):
        return True
    return not (math.isnan(x) or math.isinf(x)) and x == math.floor(x)


def bytes_of(v):
    if v[0] in BYTES:
        return v[1]
    raise Err()


def indexed_of(v):
    if v[0] in ('(', '['):
        return v[1]
    raise Err()


def int_of(v):
    if v[0] == 'i' and INT32_MIN <= v[1] <= INT32_MAX:
        return v[1]
    if v[0] == 'd' and isint(v[1]) and INT32_MIN <= v[1] <= INT32_MAX:
        return int(v[1])
    raise Err()


def nat_start(v):
    x = int_of(v)
    if x < 0:
        raise Err()
    return x


def opt_int(args, k):
    if k >= len(args) or args[k] == NIL:
        return None
    return int_of(args[k])


def arity(args, lo, hi):
    if len(args) < lo or (hi is not None and len(args) > hi):
        raise Err()


def half(raw, n):
    """documented: negative indices count from the end, -1 = one past the last element"""
    if raw < 0:
        raw = n + 1 + raw
    if not 0 <= raw <= n:
        raise Err()
    return raw


def slice_range(args, n):
    arity(args, 1, 3)
    s = opt_int(args, 1)
    e = opt_int(args, 2)
    s = 0 if s is None else half(s, n)
    e = n if e is None else half(e, n)
    return s, max(s, e)


def buf0(args):
    if not args or args[0][0] != 'b':
        raise Err()
    return bytearray(args[0][1])


def arr0(args):
    if not args or args[0][0] != '[':
        raise Err()
    return list(args[0][1])


PY_FN1 = {'inc': lambda x: x + 1, 'dbl': lambda x: x * 2, 'neg': lambda x: -x, 'sq': lambda x: x * x, 'id': lambda x: x,
          'mod3': lambda x: x % 3}
PY_PRED = {'even': lambda x: x % 2 == 0, 'odd': lambda x: x % 2 == 1, 'pos': lambda x: x > 0, 'neg?': lambda x: x < 0,
           'lt3': lambda x: x < 3, 'true': lambda x: True, 'false': lambda x: False}
PY_FN2 = {'add': lambda x, y: x + y, 'mul': lambda x, y: x * y, 'sub': lambda x, y: x - y, 'max2': max, 'min2': min,
          'snd': lambda x, y: y}
PY_FN3 = {'add3': lambda x, y, z: x + y + z, 'pick3': lambda x, y, z: 100 * x + 10 * y + z}
PY_CMP = {'lt': lambda a, b: a < b, 'gt': lambda a, b: a > b, 'le': lambda a, b: a <= b, 'ge': lambda a, b: a >= b,
          'mod4lt': lambda a, b: a % 4 < b % 4, 'absgt': lambda a, b: abs(a) > abs(b), 'div3lt': lambda a, b: a // 3 < b // 3,
          'true': lambda a, b: True, 'false': lambda a, b: False, 'ne': lambda a, b: a != b,
          'rnd': lambda a, b: (31 * a + 17 * b + a * b) % 3 == 0, 'err': lambda a, b: False}
STRICT_WEAK = {'lt', 'gt', 'mod4lt', 'absgt', 'div3lt', 'false'}
PY_KEY = {'mod4': lambda a: a % 4, 'abs': abs, 'neg': lambda a: -a, 'id': lambda a: a, 'sq': lambda a: a * a}
PY_KEEP = {'sqeven': lambda x: x * x if x % 2 == 0 else None, 'posid': lambda x: x if x > 0 else None, 'id': lambda x: x,
           'inc': lambda x: x + 1}
PY_CAT = {'pairx': lambda x: [x, x + 1], 'rep3': lambda x: [x] * (x % 3), 'none': lambda x: []}
PY_KEEP2 = {'ltsum': lambda x, y: x + y if x < y else None, 'add': lambda x, y: x + y, 'snd': lambda x, y: y}
PY_CAT2 = {'tup': lambda x, y: [x, y], 'tupsum': lambda x, y: [x + y], 'tup3': lambda x, y: [y, x, y]}
PY_VAR = {'map': {'vsum': lambda *xs: sum(xs), 'vlast': lambda *xs: xs[-1]},
          'mapcat': {'vtup': lambda *xs: list(xs), 'vrev': lambda *xs: list(xs)[::-1]},
          'keep': {'vsumpos': lambda *xs: sum(xs) if sum(xs) > 0 else None, 'vsum': lambda *xs: sum(xs)},
          'count': {'vasc': lambda *xs: all(a < b for a, b in zip(xs, xs[1:])), 'vtrue': lambda *xs: True}}
# result-valued variadic predicates for some / all (None = nil, bool, int)
PY_VARVAL = {'vsumpos': lambda *xs: sum(xs) if sum(xs) > 0 else None, 'vsum': lambda *xs: sum(xs),
             'vasc': lambda *xs: all(a < b for a, b in zip(xs, xs[1:])), 'vtrue': lambda *xs: True,
             'vfz': lambda *xs: False if sum(xs) % 3 == 0 else (None if sum(xs) % 3 == 1 else sum(xs))}


def jval(v):
    """python result of a PY_VARVAL function -> value tuple"""
    if v is None: return NIL
    if v is True: return TRUE
    if v is False: return FALSE
    return I(v)


PY_SUBST = {'upper': lambda m: m.upper(), 'const': lambda m: b'Z', 'dup': lambda m: m + m}


def ints_of(l):
    out = []
    for v in l:
        if v[0] != 'i':
            raise NoOpinion()
        out.append(v[1])
    return out


def hashable(v):
    t = v[0]
    if t in ('(', '['):
        return (t, tuple(hashable(e) for e in v[1]))
    if t in ('{', '#{'):
        return (t, tuple(sorted((hashable(k), hashable(x)) for k, x in v[1])))
    return v


def fn_of(v, table):
    if v[0] != 'F' or v[1] not in table:
        raise NoOpinion()
    return table[v[1]]


def oracle(case):
    """-> ('ok', value, args_after) | ('err', args_after or None) | None (no opinion)."""
    f, args = case
    if f.startswith('@'):
        return ('err', list(args))         # a call outside the documented arity raises (the message class is judged separately)
    try:
        r = _oracle(f, args)
    except Err as e:
        return ('err', e.args[0] if e.args else list(args))
    except NoOpinion:
        return None
    if r is None:
        return None
    v, after = r
    return ('ok', v, after)


def with0(args, v):
    return [v] + list(args[1:])


def push_items(buf, items, self_ok=True, kinds=('num', 'bytes'), start_args=None):
    """shared by buffer/push, push-string, push-byte; raises Err carrying the partially pushed state"""
    for it in items:
        if it[0] in ('i', 'd') and 'num' in kinds:
            try:
                x = int_of(it)
            except Err:
                raise Err(('partial', bytes(buf)))
            buf.append(x & 0xFF)
        elif it[0] in BYTES and 'bytes' in kinds:
            buf += it[1]
        elif it[0] == 'r' and it[1] == 0 and 'bytes' in kinds:
            buf += bytes(buf)
        else:
            raise Err(('partial', bytes(buf)))
    return buf


def _oracle(f, args):
    same = list(args)
    # ------------------------------------------------------------ search family
    if f == 'string/find':
        arity(args, 2, 3)
        pat, text = bytes_of(args[0]), bytes_of(args[1])
        st = nat_start(args[2]) if len(args) > 2 else 0
        if not pat: raise Err()
        r = text.find(pat, st) if st <= len(text) else -1
        return (NIL if r < 0 else I(r)), same
    if f == 'string/find-all':
        arity(args, 2, 3)
        pat, text = bytes_of(args[0]), bytes_of(args[1])
        st = nat_start(args[2]) if len(args) > 2 else 0
        if not pat: raise Err()
        out = []
        i = text.find(pat, st) if st <= len(text) else -1
        while i >= 0:
            out.append(I(i))
            i = text.find(pat, i + 1)
        return A(out), same
    if f in ('string/replace', 'string/replace-all'):
        arity(args, 3, 4)
        pat = bytes_of(args[0])
        text = bytes_of(args[2])
        st = nat_start(args[3]) if len(args) > 3 else 0
        if not pat: raise Err()
        cnt = 1 if f == 'string/replace' else -1
        head, tail = text[:st], text[st:]
        if args[1][0] == 'F':
            g = fn_of(args[1], PY_SUBST)
            parts = tail.split(pat, cnt if cnt > 0 else -1)
            res = parts[0]
            for p in parts[1:]:
                res += g(pat) + p
            return S(head + res), same
        if args[1][0] not in BYTES:
            # non-bytes substitution is only converted when a match exists
            if tail.find(pat) < 0:
                return S(text), same
            raise NoOpinion()
        sub = bytes_of(args[1])
        return S(head + tail.replace(pat, sub, cnt)), same
    if f == 'string/split':
        arity(args, 2, 4)
        pat, text = bytes_of(args[0]), bytes_of(args[1])
        st = nat_start(args[2]) if len(args) > 2 else 0
        lim = int_of(args[3]) if len(args) > 3 else -1
        if not pat: raise Err()
        if lim == INT32_MIN: raise NoOpinion()
        head, tail = text[:st], text[st:]
        parts = tail.split(pat, lim - 1 if lim > 0 else -1)
        parts[0] = head + parts[0]
        return A([S(p) for p in parts]), same
    if f == 'string/join':
        arity(args, 1, 2)
        parts = indexed_of(args[0])
        sep = bytes_of(args[1]) if len(args) > 1 else b''
        return S(sep.join(bytes_of(p) for p in parts)), same
    # ------------------------------------------------------------ slices
    if f in ('string/slice', 'symbol/slice', 'keyword/slice', 'buffer/slice'):
        if not args: raise Err()
        b = bytes_of(args[0])
        s, e = slice_range(args, len(b))
        return ({'string/slice': 's', 'symbol/slice': 'y', 'keyword/slice': 'k', 'buffer/slice': 'b'}[f], b[s:e]), same
    if f in ('array/slice', 'tuple/slice'):
        if not args: raise Err()
        l = indexed_of(args[0])
        s, e = slice_range(args, len(l))
        return ('[' if f == 'array/slice' else '(', l[s:e]), same
    if f == 'slice':
        if not args: raise Err()
        if args[0][0] in BYTES:
            s, e = slice_range(args, len(args[0][1]))
            return S(args[0][1][s:e]), same
        l = indexed_of(args[0])
        s, e = slice_range(args, len(l))
        return T(l[s:e]), same
    # ------------------------------------------------------------ trim etc
    if f in ('string/trim', 'string/triml', 'string/trimr'):
        arity(args, 1, 2)
        s = bytes_of(args[0])
        st = bytes_of(args[1]) if len(args) > 1 else b' \t\r\n\v\f'
        if not st:
            return S(s), same
        r = {'string/trim': s.strip, 'string/triml': s.lstrip, 'string/trimr': s.rstrip}[f](st)
        return S(r), same
    if f == 'string/repeat':
        arity(args, 2, 2)
        s, n = bytes_of(args[0]), int_of(args[1])
        if n < 0 or n * len(s) > INT32_MAX: raise Err()
        return S(s * n), same
    if f == 'string/reverse':
        arity(args, 1, 1)
        return S(bytes_of(args[0])[::-1]), same
    if f == 'string/ascii-upper':
        arity(args, 1, 1)
        return S(bytes_of(args[0]).upper()), same
    if f == 'string/ascii-lower':
        arity(args, 1, 1)
        return S(bytes_of(args[0]).lower()), same
    if f == 'string/has-prefix?':
        arity(args, 2, 2)
        return boolv(bytes_of(args[1]).startswith(bytes_of(args[0]))), same
    if f == 'string/has-suffix?':
        arity(args, 2, 2)
        return boolv(bytes_of(args[1]).endswith(bytes_of(args[0]))), same
    if f == 'string/check-set':
        arity(args, 2, 2)
        return boolv(set(bytes_of(args[1])) <= set(bytes_of(args[0]))), same
    if f == 'string/bytes':
        arity(args, 1, 1)
        return T([I(c) for c in bytes_of(args[0])]), same
    if f in ('string/from-bytes', 'buffer/from-bytes'):
        return ('s' if f[0] == 's' else 'b', bytes(int_of(a) & 0xFF for a in args)), same
    # ------------------------------------------------------------ buffers
    if f in ('buffer/push', 'buffer/push-string', 'buffer/push-byte'):
        buf = buf0(args)
        kinds = {'buffer/push': ('num', 'bytes'), 'buffer/push-string': ('bytes',), 'buffer/push-byte': ('num',)}[f]
        try:
            push_items(buf, args[1:], kinds=kinds)
        except Err as e:
            raise Err(with0(args, B(e.args[0][1])))
        return B(buf), with0(args, B(buf))
    if f == 'buffer/push-at':
        buf = buf0(args)
        arity(args, 2, None)
        idx = int_of(args[1])
        if not 0 <= idx <= len(buf): raise Err()
        head = bytearray(buf[:idx])
        try:
            push_items(head, args[2:])
        except Err as e:
            raise Err(with0(args, B(e.args[0][1])))
        res = bytes(head) + bytes(buf[len(head):])
        return B(res), with0(args, B(res))
    if f == 'buffer/blit':
        buf = buf0(args)
        arity(args, 2, 5)
        src = bytes(buf) if args[1] == ('r', 0) else bytes_of(args[1])
        ds = opt_int(args, 2)
        ss = opt_int(args, 3)
        od = 0 if ds is None else half(ds, len(buf))
        os_ = 0 if ss is None else half(ss, len(src))
        if len(args) > 4:
            se = opt_int(args, 4)
            oe = len(src) if se is None else half(se, len(src))
        else:
            oe = len(src)
        chunk = src[os_:max(os_, oe)]
        if od + len(chunk) > INT32_MAX: raise Err()
        buf[od:od + len(chunk)] = chunk
        return B(buf), with0(args, B(buf))
    if f == 'buffer/popn':
        buf = buf0(args)
        arity(args, 2, 2)
        n = int_of(args[1])
        if n < 0: raise Err()
        r = bytes(buf[:max(0, len(buf) - n)])
        return B(r), with0(args, B(r))
    if f == 'buffer/clear':
        buf0(args)
        arity(args, 1, 1)
        return B(b''), with0(args, B(b''))
    if f == 'buffer/fill':
        buf = buf0(args)
        arity(args, 1, 2)
        x = int_of(args[1]) & 0xFF if len(args) > 1 else 0
        r = bytes([x]) * len(buf)
        return B(r), with0(args, B(r))
    if f == 'buffer/new-filled':
        arity(args, 1, 2)
        n = int_of(args[0])
        x = int_of(args[1]) & 0xFF if len(args) > 1 else 0
        if n > 1 << 24: raise NoOpinion()
        return B(bytes([x]) * max(0, n)), same
    if f == 'buffer/push-word':
        buf = buf0(args)
        for a in args[1:]:
            if a[0] not in ('i', 'd') or not isint(a[1]) or not 0 <= a[1] < 2**32:
                raise Err(with0(args, B(buf)))
            buf += int(a[1]).to_bytes(4, 'little')
        return B(buf), with0(args, B(buf))
    if f in ('buffer/push-uint16', 'buffer/push-uint32'):
        buf = buf0(args)
        arity(args, 3, 3)
        if args[1][0] != 'k' or args[1][1] not in (b'le', b'be', b'native'): raise Err()
        nb = 2 if f.endswith('16') else 4
        a = args[2]
        if a[0] not in ('i', 'd') or not isint(a[1]) or not 0 <= a[1] < 256**nb: raise Err()
        buf += int(a[1]).to_bytes(nb, 'big' if args[1][1] == b'be' else 'little')
        return B(buf), with0(args, B(buf))
    if f in ('buffer/push-uint64', 'buffer/push-float32', 'buffer/push-float64'):
        import struct
        buf = buf0(args)
        arity(args, 3, 3)
        if args[1][0] != 'k' or args[1][1] not in (b'le', b'be', b'native'): raise Err()
        a = args[2]
        if f == 'buffer/push-uint64' and a[0] in BYTES: raise NoOpinion()   # the u64 conversion also parses strings
        if a[0] not in ('i', 'd'): raise Err()
        e = '>' if args[1][1] == b'be' else '<'
        if f == 'buffer/push-uint64':
            if not isint(a[1]) or not 0 <= a[1] <= 2**53: raise Err()
            buf += struct.pack(e + 'Q', int(a[1]))
        else:
            buf += struct.pack(e + ('f' if f.endswith('32') else 'd'), float(a[1]))
        return B(buf), with0(args, B(buf))
    if f in ('buffer/bit', 'buffer/bit-set', 'buffer/bit-clear', 'buffer/bit-toggle'):
        buf = buf0(args)
        arity(args, 2, 2)
        a = args[1]
        if a[0] not in ('i', 'd') or not isint(a[1]) or a[1] < 0 or a[1] // 8 >= len(buf): raise Err()
        idx = int(a[1])
        byte, bit = idx >> 3, idx & 7
        if f == 'buffer/bit':
            return boolv(buf[byte] >> bit & 1), same
        if f == 'buffer/bit-set': buf[byte] |= 1 << bit
        if f == 'buffer/bit-clear': buf[byte] &= ~(1 << bit) & 0xFF
        if f == 'buffer/bit-toggle': buf[byte] ^= 1 << bit
        return B(buf), with0(args, B(buf))
    # ------------------------------------------------------------ arrays
    if f == 'array/insert':
        a = arr0(args)
        arity(args, 2, None)
        at = int_of(args[1])
        if at < 0: at = len(a) + at + 1
        if not 0 <= at <= len(a): raise Err()
        a[at:at] = args[2:]
        return A(a), with0(args, A(a))
    if f == 'array/remove':
        a = arr0(args)
        arity(args, 2, 3)
        at = int_of(args[1])
        n = int_of(args[2]) if len(args) > 2 else 1
        if at < 0: at = len(a) + at
        if not 0 <= at <= len(a): raise Err()
        if n < 0: raise Err()
        del a[at:at + n]
        return A(a), with0(args, A(a))
    if f in ('array/concat', 'array/join'):
        a = arr0(args)
        for p in args[1:]:
            if p == ('r', 0):
                a += list(a)
            elif p[0] in ('(', '['):
                a += p[1]
            elif f == 'array/join':
                raise Err(with0(args, A(a)))
            else:
                a.append(p)
        return A(a), with0(args, A(a))
    if f == 'tuple/join':
        return T([e for p in args for e in indexed_of(p)]), same
    if f == 'array/fill':
        a = arr0(args)
        arity(args, 1, 2)
        x = args[1] if len(args) > 1 else NIL
        r = [x] * len(a)
        return A(r), with0(args, A(r))
    if f == 'array/push':
        a = arr0(args)
        a += args[1:]
        return A(a), with0(args, A(a))
    if f == 'array/pop':
        a = arr0(args)
        arity(args, 1, 1)
        if not a: return NIL, same
        x = a.pop()
        return x, with0(args, A(a))
    if f == 'array/peek':
        a = arr0(args)
        arity(args, 1, 1)
        return (a[-1] if a else NIL), same
    if f == 'array/new-filled':
        arity(args, 1, 2)
        n = int_of(args[0])
        if n < 0: raise Err()
        if n > 1 << 20: raise NoOpinion()
        return A([args[1] if len(args) > 1 else NIL] * n), same
    # ------------------------------------------------------------ printf-style formatting (tested only, subset shared with python %)
    if f in ('string/format', 'buffer/format'):
        off = 1 if f == 'buffer/format' else 0
        if f == 'buffer/format':
            buf = buf0(args)
        if len(args) <= off or args[off][0] != 's':
            raise NoOpinion()
        fmt = args[off][1]
        vals = []
        for a in args[off + 1:]:
            if a[0] == 'i': vals.append(a[1])
            elif a[0] == 'd': vals.append(a[1])
            elif a[0] in BYTES: vals.append(a[1])
            else: raise NoOpinion()
        import re as _re
        full = _re.findall(rb'%([-0 +#]*)\d*(?:\.\d+)?(.)', fmt)
        if any(d in b'xXoc' and (b' ' in fl or b'+' in fl) for fl, d in full):
            raise NoOpinion()        # C ignores sign flags for unsigned conversions, python does not
        if any((d == b'o' and b'#' in fl) or (d in b'sc' and (set(fl) - set(b'-'))) or len(fl) > 5 for fl, d in full):
            raise NoOpinion()        # python writes 0o10; flags other than '-' on %s/%c are undefined in C
        if any(b'#' in fl for fl, d in full) or _re.search(rb'%[-+ #0]*\d*\.\d*[dixXo]', fmt):
            raise NoOpinion()        # python: '%#x' % 0 = '0x0'; with a precision it keeps the 0 flag and prints '0' for '%.0d' % 0 (C: no digits)
        if _re.search(rb'%[-0 +#]*\d{3}', fmt) or _re.search(rb'%[-0 +#]*\d*\.\d{3}', fmt):
            raise NoOpinion()
        dirs = [d for fl, d in full]
        if any(d not in b'dixXosfeEgGc%' for d in dirs):
            raise NoOpinion()
        need = [d for d in dirs if d != b'%']
        if len(need) > len(vals):
            if f == 'buffer/format':
                raise Err(None)      # partial output may already be in the buffer
            raise Err()
        if len(need) < len(vals):
            vals = vals[:len(need)]   # surplus arguments are ignored
        for d, v in zip(need, vals):
            if d in b'dixXoc' and not (isinstance(v, int) and INT32_MIN <= v <= INT32_MAX):
                if isinstance(v, bytes):
                    raise Err(None)
                raise NoOpinion()
            if d in b'feEgG' and isinstance(v, bytes):
                raise Err(None)
            if d == b's' and not isinstance(v, bytes):
                raise NoOpinion()
            if d == b'c' and not 0 <= v < 256:
                raise NoOpinion()
            if d in b'xXo' and v < 0:
                raise NoOpinion()
            if isinstance(v, bytes) and (b'\0' in v or len(v) >= 100):
                raise NoOpinion()     # %s goes through a C string / length limit without precision
        try:
            out = fmt % tuple(vals)
            # the same, directive by directive: an item (one rendered directive) is limited to MAX_ITEM - 1 = 255 bytes;
            # a longer one raises "format buffer overflow" with the output produced so far left in the buffer
            pieces, pos, vi = [], 0, 0
            for m in _re.finditer(rb'%[-0 +#]*\d*(?:\.\d+)?(.)', fmt):
                pieces.append(fmt[pos:m.start()])
                pos = m.end()
                if m.group(1) == b'%':
                    pieces.append(b'%')
                    continue
                item = m.group(0) % (vals[vi],)
                vi += 1
                if len(item) >= MAX_ITEM:
                    if f == 'buffer/format':
                        part = B(bytes(buf) + b''.join(pieces))
                        raise Err(with0(args, part))
                    raise Err()
                pieces.append(item)
            pieces.append(fmt[pos:])
            if b''.join(pieces) != out:
                raise NoOpinion()
        except (TypeError, ValueError, OverflowError):
            raise NoOpinion()
        if f == 'buffer/format':
            r = bytes(buf) + out
            return B(r), with0(args, B(r))
        return S(out), same
    # ------------------------------------------------------------ boot.janet sequence functions
    if f in ('take', 'drop'):
        if len(args) != 2 or args[0][0] != 'i': raise NoOpinion()
        n, x = args[0][1], args[1]
        if x[0] in BYTES: l, mk = x[1], S
        elif x[0] in ('(', '['): l, mk = x[1], T
        else: raise NoOpinion()
        if f == 'take':
            r = l[:n] if n >= 0 else l[max(0, len(l) + n):]
        else:
            r = l[n:] if n >= 0 else l[:max(0, len(l) + n)]
        return mk(r), same
    if f in ('some', 'all') and len(args) >= 2 and args[0][0] == 'F' and args[0][1] in PY_VARVAL and all(a[0] in ('(', '[') for a in args[1:]):
        # reference definition: first truthy (some) / first falsey (all) result over the rows up to the shortest sequence
        g = PY_VARVAL[args[0][1]]
        for row in zip(*[ints_of(a[1]) for a in args[1:]]):
            v = g(*row)
            truthy = not (v is None or v is False)
            if truthy == (f == 'some'):
                return jval(v), same
        return (NIL if f == 'some' else TRUE), same
    if f in PY_VAR and len(args) >= 2 and args[0][0] == 'F' and args[0][1] in PY_VAR[f] and all(a[0] in ('(', '[') for a in args[1:]):
        g = PY_VAR[f][args[0][1]]
        vals = [g(*row) for row in zip(*[ints_of(a[1]) for a in args[1:]])]
        if f == 'map': return A([I(v) for v in vals]), same
        if f == 'keep': return A([I(v) for v in vals if v is not None]), same
        if f == 'mapcat': return A([I(e) for v in vals for e in v]), same
        return I(sum(1 for v in vals if v)), same
    if f in ('keep', 'mapcat', 'count') and len(args) in (2, 3) and all(a[0] in ('(', '[') for a in args[1:]) and not (f == 'count' and len(args) == 2):
        seqs = [ints_of(a[1]) for a in args[1:]]
        g = fn_of(args[0], {('keep', 2): PY_KEEP, ('keep', 3): PY_KEEP2, ('mapcat', 2): PY_CAT, ('mapcat', 3): PY_CAT2,
                            ('count', 3): PY_CMP}[(f, len(args))])
        vals = [g(*row) for row in zip(*seqs)]
        if f == 'keep': return A([I(v) for v in vals if v is not None]), same
        if f == 'mapcat': return A([I(e) for v in vals for e in v]), same
        return I(sum(1 for v in vals if v)), same
    if f == 'group-by':
        if len(args) != 2 or args[1][0] not in ('(', '['): raise NoOpinion()
        key = fn_of(args[0], PY_KEY)
        groups = collections.OrderedDict()
        for x in ints_of(args[1][1]):
            groups.setdefault(key(x), []).append(x)
        return ('{', [(I(k), A([I(x) for x in v])) for k, v in groups.items()]), same
    if f in ('take-while', 'drop-while', 'take-until', 'drop-until', 'filter', 'count', 'find-index'):
        if len(args) != 2 or args[1][0] not in ('(', '['): raise NoOpinion()
        p = fn_of(args[0], PY_PRED)
        xs = ints_of(args[1][1])
        if f == 'take-while': return T([I(x) for x in itertools.takewhile(p, xs)]), same
        if f == 'drop-while': return T([I(x) for x in itertools.dropwhile(p, xs)]), same
        if f == 'take-until': return T([I(x) for x in itertools.takewhile(lambda x: not p(x), xs)]), same
        if f == 'drop-until': return T([I(x) for x in itertools.dropwhile(lambda x: not p(x), xs)]), same
        if f == 'filter': return A([I(x) for x in filter(p, xs)]), same
        if f == 'count': return I(sum(1 for x in xs if p(x))), same
        if f == 'find-index':
            for i, x in enumerate(xs):
                if p(x): return I(i), same
            return NIL, same
    if f == 'map':
        if len(args) == 2 and args[1][0] in ('(', '['):
            g = fn_of(args[0], PY_FN1)
            return A([I(x) for x in map(g, ints_of(args[1][1]))]), same
        if len(args) == 3 and args[1][0] in ('(', '[') and args[2][0] in ('(', '['):
            g = fn_of(args[0], PY_FN2)
            return A([I(x) for x in map(g, ints_of(args[1][1]), ints_of(args[2][1]))]), same
        if len(args) == 4 and all(a[0] in ('(', '[') for a in args[1:]):
            g = fn_of(args[0], PY_FN3)
            return A([I(x) for x in map(g, ints_of(args[1][1]), ints_of(args[2][1]), ints_of(args[3][1]))]), same
        raise NoOpinion()
    if f == 'find':
        if len(args) != 2 or args[1][0] not in ('(', '['): raise NoOpinion()
        p = fn_of(args[0], PY_PRED)
        for x in ints_of(args[1][1]):
            if p(x): return I(x), same
        return NIL, same
    if f == 'index-of':
        if len(args) != 2 or args[1][0] not in ('(', '[') or args[0][0] != 'i': raise NoOpinion()
        for i, x in enumerate(ints_of(args[1][1])):
            if x == args[0][1]: return I(i), same
        return NIL, same
    if f == 'reduce2':
        if len(args) != 2 or args[1][0] not in ('(', '['): raise NoOpinion()
        g = fn_of(args[0], PY_FN2)
        xs = ints_of(args[1][1])
        return (I(functools.reduce(g, xs)) if xs else NIL), same
    if f == 'reduce':
        if len(args) != 3 or args[2][0] not in ('(', '[') or args[1][0] != 'i': raise NoOpinion()
        g = fn_of(args[0], PY_FN2)
        return I(functools.reduce(g, ints_of(args[2][1]), args[1][1])), same
    if f == 'partition':
        if len(args) != 2 or args[0][0] != 'i' or args[0][1] < 1: raise NoOpinion()
        n, x = args[0][1], args[1]
        if x[0] in BYTES: l, mk = x[1], S
        elif x[0] in ('(', '['): l, mk = x[1], T
        else: raise NoOpinion()
        return A([mk(l[i:i + n]) for i in range(0, len(l), n)]), same
    if f == 'interleave':
        if not all(a[0] in ('(', '[') for a in args): raise NoOpinion()
        if not args: return A([]), same
        return A([e for row in zip(*[a[1] for a in args]) for e in row]), same
    if f == 'interpose':
        if len(args) != 2 or args[1][0] not in ('(', '['): raise NoOpinion()
        out = []
        for i, e in enumerate(args[1][1]):
            if i: out.append(args[0])
            out.append(e)
        return A(out), same
    if f == 'range':
        from fractions import Fraction
        if not 1 <= len(args) <= 3: raise NoOpinion()
        xs = []
        for a in args:
            if a[0] == 'i': xs.append(Fraction(a[1]))
            elif a[0] == 'd' and not (math.isnan(a[1]) or math.isinf(a[1])) and a[1] * 8 == math.floor(a[1] * 8) and abs(a[1]) < 1e6:
                xs.append(Fraction(a[1]))      # dyadic: double arithmetic on these is exact
            else: raise NoOpinion()
        start, stop, step = (Fraction(0), xs[0], Fraction(1)) if len(xs) == 1 else (xs[0], xs[1], Fraction(1)) if len(xs) == 2 else xs
        out = []
        if step != 0:
            x = start
            while (x < stop if step > 0 else x > stop):
                out.append(I(int(x)) if x.denominator == 1 else ('d', float(x)))
                x += step
                if len(out) > 100000: raise NoOpinion()
        return A(out), same
    if f == 'distinct':
        if len(args) != 1 or args[0][0] not in ('(', '['): raise NoOpinion()
        d = collections.OrderedDict()
        for e in args[0][1]:
            d.setdefault(hashable(e), e)
        return A(list(d.values())), same
    if f == 'frequencies':
        if len(args) != 1 or args[0][0] not in ('(', '['): raise NoOpinion()
        c = collections.Counter(hashable(e) for e in args[0][1])
        rep = {hashable(e): e for e in args[0][1]}
        return ('{', [(rep[k], I(n)) for k, n in c.items()]), same
    if f == 'merge':
        if not all(a[0] in ('{', '#{') for a in args): raise NoOpinion()
        d, rep = {}, {}
        for a in args:
            for k, v in a[1]:
                d[hashable(k)] = v
                rep[hashable(k)] = k
        return ('{', [(rep[k], v) for k, v in d.items()]), same
    if f == 'merge-into':
        if not args or args[0][0] != '{' or not all(a[0] in ('{', '#{') for a in args): raise NoOpinion()
        d, rep = {}, {}
        for a in args:
            for k, v in a[1]:
                d[hashable(k)] = v
                rep[hashable(k)] = k
        r = ('{', [(rep[k], v) for k, v in d.items()])
        return r, [r] + list(args[1:])
    if f == 'zipcoll':
        if len(args) != 2 or not all(a[0] in ('(', '[') for a in args): raise NoOpinion()
        d, rep = {}, {}
        for k, v in zip(args[0][1], args[1][1]):
            d[hashable(k)] = v
            rep[hashable(k)] = k
        return ('{', [(rep[k], v) for k, v in d.items()]), same
    if f in ('min', 'max'):
        xs = ints_of(args)
        return (I((min if f == 'min' else max)(xs)) if xs else NIL), same
    if f in ('min-of', 'max-of'):
        if len(args) != 1 or args[0][0] not in ('(', '['): raise NoOpinion()
        xs = ints_of(args[0][1])
        return (I((min if f == 'min-of' else max)(xs)) if xs else NIL), same
    if f in ('sum', 'product'):
        if len(args) != 1 or args[0][0] not in ('(', '['): raise NoOpinion()
        xs = ints_of(args[0][1])
        return I(sum(xs) if f == 'sum' else math.prod(xs)), same
    if f == 'reverse':
        if len(args) != 1: raise NoOpinion()
        x = args[0]
        if x[0] in BYTES: return B(x[1][::-1]), same
        if x[0] in ('(', '['): return A(x[1][::-1]), same
        raise NoOpinion()
    if f == 'reverse!':
        if len(args) != 1: raise NoOpinion()
        x = args[0]
        if x[0] == 'b': return B(x[1][::-1]), [B(x[1][::-1])]
        if x[0] == '[': return A(x[1][::-1]), [A(x[1][::-1])]
        raise NoOpinion()
    if f == 'flatten':
        if len(args) != 1 or args[0][0] not in ('(', '['): raise NoOpinion()
        def flat(l):
            for e in l:
                if e[0] in ('(', '['):
                    yield from flat(e[1])
                else:
                    yield e
        return A(list(flat(args[0][1]))), same
    return None


def check_sort(case, impl_line):
    """Direct oracle for sort / sorted / sort-by / sorted-by: for a strict weak order the result must be an ordered
    permutation of the input; for anything else the call may raise, but whatever array is left must still be a
    permutation of the input (no element lost or duplicated).  Returns None or a complaint string."""
    f, args = case
    if f in ('sort', 'sorted'):
        seq = args[0]
        cname = args[1][1] if len(args) > 1 and args[1][0] == 'F' else ('lt' if len(args) == 1 else None)
        before = PY_CMP.get(cname) if cname else None
        strict = cname in STRICT_WEAK
    else:
        seq = args[1]
        key = PY_KEY.get(args[0][1]) if args[0][0] == 'F' else None
        before = (lambda a, b: key(a) < key(b)) if key else None
        strict = key is not None
        cname = 'key'
    if seq[0] not in ('(', '[') or before is None:
        return None
    try:
        xs = ints_of(seq[1])
    except NoOpinion:
        return None
    parts = impl_line.split(' ! ')[0].split(' | ')
    head = parts[0].split()
    argtoks = parts[1:]
    inplace = f in ('sort', 'sort-by')
    pos = 0 if f in ('sort', 'sorted') else 1

    def parse_ints(s):
        t = s.split()
        if not t or t[0] not in ('[', '(') or t[-1] not in (']', ')'):
            return None
        try:
            return [int(x[1:]) for x in t[1:-1]]
        except ValueError:
            return None
    after = parse_ints(argtoks[pos]) if len(argtoks) > pos else None
    if after is None:
        return 'input argument not printable after the call: %r' % impl_line
    if sorted(after) != sorted(xs):
        return 'argument is no longer a permutation of the input'
    if not inplace and after != xs:
        return '%s modified its input' % f
    if head[0] == 'err':
        if strict:
            return 'raised an error for a strict weak order'
        return None
    res = parse_ints(' '.join(head[1:]))
    if res is None:
        return 'result is not an array of the input elements'
    if sorted(res) != sorted(xs):
        return 'result is not a permutation of the input'
    if inplace and after != res:
        return 'in-place sort: returned array differs from the argument'
    if strict:
        for i in range(len(res) - 1):
            if before(res[i + 1], res[i]):
                return 'result not ordered at index %d' % i
    return None
